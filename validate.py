#!/opt/veriftools/pyvenv/bin/python3
import json, jsonschema, glob, sys
ok=True
try:
    jsonschema.validate(json.load(open('/verif/MANIFEST.json')), json.load(open('/root/.vp/MANIFEST.schema.json')))
except Exception as e:
    print("MANIFEST invalid:", e); ok=False
sch=json.load(open('/root/.vp/EVIDENCE.schema.json'))
for f in sorted(glob.glob('/verif/evidence/*.json')):
    try:
        jsonschema.validate(json.load(open(f)), sch)
    except Exception as e:
        print(f, "invalid:", str(e)[:300]); ok=False
print("valid" if ok else "INVALID")
sys.exit(0 if ok else 1)
