NOT_CLAIMED = {}
CLAIMED = {
 "C20": ("model_checking",
         "exhaustive enumeration of all labelled digraphs (<=4 nodes, slices of 5) x requested subsets x hash-iteration orders, executing the real routines",
         "Every digraph on up to 4 labelled nodes (self-loops included), every non-empty requested subset and every iteration order of the routine's hash collections (full product for <=3 nodes, deviation-bounded beyond) is executed against the real topological_sort_types / resolve_build_order and judged by an independent reachability/SCC oracle. Exhaustive small scope is the right level: the routines are pure functions over hash collections and every known ordering bug class has a witness with <=4 nodes.",
         "Trusted: the 40-line reachability oracle; the verif-hooks permutation shim (iteration orders outside the hooked sites are only covered by re-execution under fresh hash seeds). Graphs beyond the listed sizes are not covered.",
         "DESIGN.md §5 C20"),
}
