#!/usr/bin/env python3
"""Regenerates MANIFEST.json from the table below (single source of truth for the manifest)."""
import json, subprocess, sys
CLAIMED = {
 # id: (level, technique, level text, level note, design_ref)
}
exec(open('/verif/manifest_table.py').read())
props = [json.loads(l) for l in open('/verif/properties.jsonl')]
hook_commits = subprocess.run(['git','-C','/repo','log','--format=%H','--grep=^verif-hooks'],capture_output=True,text=True).stdout.split()
m = {
 "version": 1,
 "setup_cmd": "./check setup",
 "hooks": {
   "guard": "cargo feature verif-hooks (off by default)",
   "enable": "cargo build --features verif-hooks (the harness crate enables it on its path dependency; ./check builds /repo's binary with it into /verif/build/repo-hooks)",
   "baseline_off_cmd": "cd /repo && cargo nextest run --workspace --no-fail-fast --offline",
   "source_commits": hook_commits,
   "add_only": True,
 },
 "engines": [{"name":"ttv","path":"harness/","serves_properties":sorted(CLAIMED.keys()),
   "kind_free_text":"hand-rolled stateless/explicit-state explorer in Rust that executes the real tauri-typegen library (in process, under a schedule provider for hash-iteration orders) and the real binary (subprocess, strace fault injection), judged by independent oracles (TypeScript/Zod parser, serde/heck naming oracles, reference type denotation, graph oracles)"}],
 "checks": [],
 "not_applicable": [],
 "notes": "All checks: exit 0 = held on everything explored (KNOWN-FINDING lines allowed), 1 = VIOLATION line(s), 2 = machinery problem (never a verdict). Known findings: known-findings.jsonl.",
}
for p in props:
    i = p['id']
    if i in CLAIMED:
        level, technique, text, note, ref = CLAIMED[i]
        m["checks"].append({
          "property_id": i,
          "quick_cmd": f"./check {i} quick",
          "thorough_cmd": f"./check {i} thorough",
          "evidence_file": f"evidence/{i}.json",
          "replay_cmd_template": "./check replay {path}",
          "engine": "ttv",
          "level_claimed": {"category": level, "text": text, "design_ref": ref},
          "level_note": note,
          "technique": technique,
        })
    else:
        m["not_applicable"].append({"property_id": i, "reason": NOT_CLAIMED.get(i, "check not built yet (work in progress; the design in DESIGN.md §5 applies)")})
json.dump(m, open('/verif/MANIFEST.json','w'), indent=1)
print("claimed:", sorted(CLAIMED.keys()))
