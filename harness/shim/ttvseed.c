#define _GNU_SOURCE
#include <stddef.h>
#include <stdlib.h>
#include <string.h>
#include <sys/types.h>
/* Deterministic getrandom: fills the buffer from the decimal seed in TTV_HASH_SEED. */
ssize_t getrandom(void *buf, size_t buflen, unsigned int flags) {
    (void)flags;
    const char *s = getenv("TTV_HASH_SEED");
    unsigned long long x = s ? strtoull(s, NULL, 10) : 0;
    unsigned char *p = buf;
    for (size_t i = 0; i < buflen; i++) {
        x = x * 6364136223846793005ULL + 1442695040888963407ULL;
        p[i] = (unsigned char)(x >> 33);
    }
    return (ssize_t)buflen;
}
