//! Structural type algebra ("Shape"), normalisation, reference denotation of Rust types,
//! conversion of parsed TypeScript types and Zod initialisers into Shapes.

use crate::gen::RTy;
use crate::ts::{self, ArrayElem, Expr, Member, ObjProp, PropKey, Type};
use std::collections::{BTreeMap, BTreeSet};

#[derive(Debug, Clone, PartialEq, Eq, PartialOrd, Ord, Hash)]
pub enum Shape {
    Str,
    Num,
    Bool,
    Null,
    Undef,
    Void,
    Unknown,
    Any,
    Never,
    /// string literal type
    Lit(String),
    LitNum(String),
    LitBool(bool),
    Arr(Box<Shape>),
    Rec(Box<Shape>, Box<Shape>),
    Tup(Vec<Shape>),
    Union(BTreeSet<Shape>),
    Inter(BTreeSet<Shape>),
    /// object type: key -> (shape, optional); plus optional index signature value
    Obj(BTreeMap<String, (Shape, bool)>, Option<Box<Shape>>),
    /// reference to a named type (qualifier `types.` stripped), with type arguments
    Ref(String, Vec<Shape>),
    /// JS Set / Map (not JSON-serialisable) - only from Zod's z.set / z.map
    Set(Box<Shape>),
    MapObj(Box<Shape>, Box<Shape>),
    Fn,
    /// z.custom<T>() / anything else we can name but not interpret
    Other(String),
}

impl Shape {
    pub fn union(items: impl IntoIterator<Item = Shape>) -> Shape {
        let mut set = BTreeSet::new();
        for i in items {
            match i {
                Shape::Union(inner) => set.extend(inner),
                other => {
                    set.insert(other);
                }
            }
        }
        if set.len() == 1 {
            set.into_iter().next().unwrap()
        } else {
            Shape::Union(set)
        }
    }
    pub fn nullable(s: Shape) -> Shape {
        Shape::union([s, Shape::Null])
    }
    pub fn show(&self) -> String {
        match self {
            Shape::Str => "string".into(),
            Shape::Num => "number".into(),
            Shape::Bool => "boolean".into(),
            Shape::Null => "null".into(),
            Shape::Undef => "undefined".into(),
            Shape::Void => "void".into(),
            Shape::Unknown => "unknown".into(),
            Shape::Any => "any".into(),
            Shape::Never => "never".into(),
            Shape::Lit(s) => format!("{:?}", s),
            Shape::LitNum(s) => s.clone(),
            Shape::LitBool(b) => b.to_string(),
            Shape::Arr(s) => format!("Arr({})", s.show()),
            Shape::Rec(k, v) => format!("Rec({}, {})", k.show(), v.show()),
            Shape::Tup(v) => format!("Tup[{}]", v.iter().map(|s| s.show()).collect::<Vec<_>>().join(", ")),
            Shape::Union(v) => format!("Union{{{}}}", v.iter().map(|s| s.show()).collect::<Vec<_>>().join(" | ")),
            Shape::Inter(v) => format!("Inter{{{}}}", v.iter().map(|s| s.show()).collect::<Vec<_>>().join(" & ")),
            Shape::Obj(m, idx) => format!(
                "Obj{{{}{}}}",
                m.iter().map(|(k, (s, o))| format!("{}{}: {}", k, if *o { "?" } else { "" }, s.show())).collect::<Vec<_>>().join("; "),
                idx.as_ref().map(|s| format!("; [k]: {}", s.show())).unwrap_or_default()
            ),
            Shape::Ref(n, a) => {
                if a.is_empty() {
                    format!("Ref({})", n)
                } else {
                    format!("Ref({}<{}>)", n, a.iter().map(|s| s.show()).collect::<Vec<_>>().join(", "))
                }
            }
            Shape::Set(s) => format!("JsSet({})", s.show()),
            Shape::MapObj(k, v) => format!("JsMap({}, {})", k.show(), v.show()),
            Shape::Fn => "Fn".into(),
            Shape::Other(s) => format!("Other({})", s),
        }
    }
    pub fn any_node(&self, f: &dyn Fn(&Shape) -> bool) -> bool {
        if f(self) {
            return true;
        }
        match self {
            Shape::Arr(s) | Shape::Set(s) => s.any_node(f),
            Shape::Rec(a, b) | Shape::MapObj(a, b) => a.any_node(f) || b.any_node(f),
            Shape::Tup(v) => v.iter().any(|s| s.any_node(f)),
            Shape::Union(v) | Shape::Inter(v) => v.iter().any(|s| s.any_node(f)),
            Shape::Obj(m, idx) => m.values().any(|(s, _)| s.any_node(f)) || idx.as_ref().is_some_and(|s| s.any_node(f)),
            Shape::Ref(_, a) => a.iter().any(|s| s.any_node(f)),
            _ => false,
        }
    }
    /// All `Ref` names mentioned.
    pub fn refs(&self, out: &mut BTreeSet<String>) {
        match self {
            Shape::Ref(n, a) => {
                out.insert(n.clone());
                for s in a {
                    s.refs(out);
                }
            }
            Shape::Arr(s) | Shape::Set(s) => s.refs(out),
            Shape::Rec(a, b) | Shape::MapObj(a, b) => {
                a.refs(out);
                b.refs(out);
            }
            Shape::Tup(v) => v.iter().for_each(|s| s.refs(out)),
            Shape::Union(v) | Shape::Inter(v) => v.iter().for_each(|s| s.refs(out)),
            Shape::Obj(m, idx) => {
                m.values().for_each(|(s, _)| s.refs(out));
                if let Some(s) = idx {
                    s.refs(out);
                }
            }
            _ => {}
        }
    }
    /// Substitute Ref(name) (no args) by `with`.
    pub fn subst_ref(&self, name: &str, with: &Shape) -> Shape {
        match self {
            Shape::Ref(n, a) if n == name && a.is_empty() => with.clone(),
            Shape::Ref(n, a) => Shape::Ref(n.clone(), a.iter().map(|s| s.subst_ref(name, with)).collect()),
            Shape::Arr(s) => Shape::Arr(Box::new(s.subst_ref(name, with))),
            Shape::Set(s) => Shape::Set(Box::new(s.subst_ref(name, with))),
            Shape::Rec(a, b) => Shape::Rec(Box::new(a.subst_ref(name, with)), Box::new(b.subst_ref(name, with))),
            Shape::MapObj(a, b) => Shape::MapObj(Box::new(a.subst_ref(name, with)), Box::new(b.subst_ref(name, with))),
            Shape::Tup(v) => Shape::Tup(v.iter().map(|s| s.subst_ref(name, with)).collect()),
            Shape::Union(v) => Shape::union(v.iter().map(|s| s.subst_ref(name, with))),
            Shape::Inter(v) => Shape::Inter(v.iter().map(|s| s.subst_ref(name, with)).collect()),
            Shape::Obj(m, idx) => Shape::Obj(
                m.iter().map(|(k, (s, o))| (k.clone(), (s.subst_ref(name, with), *o))).collect(),
                idx.as_ref().map(|s| Box::new(s.subst_ref(name, with))),
            ),
            other => other.clone(),
        }
    }
}

// ---------------------------------------------------------------------------------------------
// Reference denotation  [[.]] : RTy -> Shape   (README table applied compositionally)
// ---------------------------------------------------------------------------------------------

pub fn denote(t: &RTy) -> Shape {
    match t {
        RTy::Prim(p) => match p.as_str() {
            "String" | "&str" | "str" | "char" => Shape::Str,
            "bool" => Shape::Bool,
            "()" => Shape::Void,
            _ => Shape::Num,
        },
        RTy::Named(n) => Shape::Ref(n.rsplit("::").next().unwrap_or(n).to_string(), vec![]),
        RTy::Ref(t) => denote(t),
        RTy::Option(t) => Shape::nullable(denote(t)),
        RTy::Vec(t) | RTy::HashSet(t) | RTy::BTreeSet(t) => Shape::Arr(Box::new(denote(t))),
        RTy::HashMap(k, v) | RTy::BTreeMap(k, v) => Shape::Rec(Box::new(denote(k)), Box::new(denote(v))),
        RTy::Tuple(ts) => Shape::Tup(ts.iter().map(denote).collect()),
        RTy::Result2(t, _) | RTy::Result1(t) => denote(t),
    }
}

/// Is the JSON value `v` (as serde_json produces it) a member of the shape? Used by selftest to
/// bind the denotation table to real serde. `resolve` gives the shape of named types.
pub fn json_in_shape(v: &serde_json::Value, s: &Shape, resolve: &dyn Fn(&str) -> Option<Shape>) -> bool {
    use serde_json::Value as J;
    match s {
        Shape::Str => v.is_string(),
        Shape::Num => v.is_number(),
        Shape::Bool => v.is_boolean(),
        // serde serialises () as null; TypeScript's void position accepts undefined/null
        Shape::Null | Shape::Void | Shape::Undef => v.is_null(),
        Shape::Unknown | Shape::Any => true,
        Shape::Lit(l) => v.as_str() == Some(l.as_str()),
        Shape::Arr(e) => v.as_array().is_some_and(|a| a.iter().all(|x| json_in_shape(x, e, resolve))),
        Shape::Tup(es) => v
            .as_array()
            .is_some_and(|a| a.len() == es.len() && a.iter().zip(es).all(|(x, e)| json_in_shape(x, e, resolve))),
        Shape::Rec(k, val) => v.as_object().is_some_and(|o| {
            o.iter().all(|(key, x)| {
                let key_ok = match &**k {
                    Shape::Str => true,
                    Shape::Num => key.parse::<f64>().is_ok(),
                    Shape::Bool => key == "true" || key == "false",
                    other => json_in_shape(&J::String(key.clone()), other, resolve),
                };
                key_ok && json_in_shape(x, val, resolve)
            })
        }),
        Shape::Union(alts) => alts.iter().any(|a| json_in_shape(v, a, resolve)),
        Shape::Obj(fields, _) => v.as_object().is_some_and(|o| {
            fields.iter().all(|(k, (fs, opt))| match o.get(k) {
                Some(x) => json_in_shape(x, fs, resolve),
                None => *opt,
            })
        }),
        Shape::Ref(n, _) => match resolve(n) {
            Some(inner) => json_in_shape(v, &inner, resolve),
            None => false,
        },
        _ => false,
    }
}

// ---------------------------------------------------------------------------------------------
// TypeScript type -> Shape
// ---------------------------------------------------------------------------------------------

/// The property name a numeric-literal key denotes in JavaScript: `String(Number(literal))`
/// (`0x10` names "16", `1e3` names "1000", `1_000` names "1000").
pub fn js_number_key(lit: &str) -> String {
    let t: String = lit.chars().filter(|c| *c != '_').collect();
    let lower = t.to_ascii_lowercase();
    let v: Option<f64> = if let Some(h) = lower.strip_prefix("0x") {
        u128::from_str_radix(h, 16).ok().map(|x| x as f64)
    } else if let Some(o) = lower.strip_prefix("0o") {
        u128::from_str_radix(o, 8).ok().map(|x| x as f64)
    } else if let Some(b) = lower.strip_prefix("0b") {
        u128::from_str_radix(b, 2).ok().map(|x| x as f64)
    } else {
        lower.parse::<f64>().ok()
    };
    match v {
        Some(x) if x.is_finite() && x.fract() == 0.0 && x.abs() < 1e21 => format!("{}", x as i128),
        Some(x) => format!("{}", x),
        None => lit.to_string(),
    }
}

pub fn prop_key_string(k: &PropKey) -> String {
    match k {
        PropKey::Ident(s) | PropKey::Str(s) => s.clone(),
        PropKey::Num(s) => js_number_key(s),
        PropKey::Computed(_) => "<computed>".into(),
    }
}

pub fn members_to_shape(ms: &[Member]) -> Shape {
    let mut m = BTreeMap::new();
    let mut idx = None;
    for mem in ms {
        match mem {
            Member::Prop { key, optional, ty, .. } => {
                m.insert(prop_key_string(key), (from_ts(ty), *optional));
            }
            Member::Index { ty, .. } => idx = Some(Box::new(from_ts(ty))),
            Member::Method { key, optional, .. } => {
                m.insert(prop_key_string(key), (Shape::Fn, *optional));
            }
        }
    }
    Shape::Obj(m, idx)
}

/// Convert a parsed TypeScript type. A leading `types.` qualifier is stripped (name resolution is
/// C02's business); `Array<T>` == `T[]`; `Record<K,V>`; `{[k: string]: V}` == `Record<string,V>`.
pub fn from_ts(t: &Type) -> Shape {
    match t {
        Type::Keyword(k) => match k.as_str() {
            "string" => Shape::Str,
            "number" | "bigint" => Shape::Num,
            "boolean" => Shape::Bool,
            "void" => Shape::Void,
            "null" => Shape::Null,
            "undefined" => Shape::Undef,
            "unknown" => Shape::Unknown,
            "any" => Shape::Any,
            "never" => Shape::Never,
            other => Shape::Other(other.to_string()),
        },
        Type::LitStr(s) => Shape::Lit(s.clone()),
        Type::LitNum(s) => Shape::LitNum(s.clone()),
        Type::LitBool(b) => Shape::LitBool(*b),
        Type::Ref { name, args } => {
            let mut segs: Vec<&str> = name.iter().map(|s| s.as_str()).collect();
            if segs.len() > 1 && segs[0] == "types" {
                segs.remove(0);
            }
            let n = segs.join(".");
            let a: Vec<Shape> = args.iter().map(from_ts).collect();
            if name.len() > 1 && name[0] == "types" && a.is_empty() {
                // `types.string` & co: with the qualifier stripped the text reads as the keyword;
                // that the qualified name does not resolve is C02's finding, not a shape defect
                match n.as_str() {
                    "string" => return Shape::Str,
                    "number" => return Shape::Num,
                    "boolean" => return Shape::Bool,
                    "void" => return Shape::Void,
                    "null" => return Shape::Null,
                    "undefined" => return Shape::Undef,
                    "unknown" => return Shape::Unknown,
                    "any" => return Shape::Any,
                    _ => {}
                }
            }
            match (n.as_str(), a.len()) {
                ("Array", 1) | ("ReadonlyArray", 1) => Shape::Arr(Box::new(a[0].clone())),
                ("Record", 2) => Shape::Rec(Box::new(a[0].clone()), Box::new(a[1].clone())),
                ("Set", 1) => Shape::Set(Box::new(a[0].clone())),
                ("Map", 2) => Shape::MapObj(Box::new(a[0].clone()), Box::new(a[1].clone())),
                _ => Shape::Ref(n, a),
            }
        }
        Type::Array(e) => Shape::Arr(Box::new(from_ts(e))),
        Type::Indexed(a, _) => Shape::Other(format!("indexed({})", from_ts(a).show())),
        Type::Tuple(es) => Shape::Tup(es.iter().map(|e| from_ts(&e.ty)).collect()),
        Type::Object(ms) => {
            let s = members_to_shape(ms);
            if let Shape::Obj(m, Some(v)) = &s {
                if m.is_empty() {
                    return Shape::Rec(Box::new(Shape::Str), v.clone());
                }
            }
            s
        }
        Type::Union(ts) => Shape::union(ts.iter().map(from_ts)),
        Type::Intersection(ts) => Shape::Inter(ts.iter().map(from_ts).collect()),
        Type::Paren(t) => from_ts(t),
        Type::TypeOf(q) => Shape::Other(format!("typeof {}", q.join("."))),
        Type::KeyOf(_) => Shape::Other("keyof".into()),
        Type::Readonly(t) => from_ts(t),
        Type::Fn { .. } => Shape::Fn,
        Type::Cond { .. } => Shape::Other("conditional".into()),
    }
}

// ---------------------------------------------------------------------------------------------
// Zod initialiser -> schema tree
// ---------------------------------------------------------------------------------------------

#[derive(Debug, Clone, PartialEq)]
pub struct Constraint {
    /// min max length gte lte gt lt email url ...
    pub name: String,
    /// numeric literal argument (source text), if any
    pub value: Option<String>,
    /// message, JS-unescaped
    pub message: Option<String>,
}

#[derive(Debug, Clone, PartialEq)]
pub struct ZSchema {
    pub shape: Shape,
    pub constraints: Vec<Constraint>,
    pub coerce: bool,
    /// for z.object: per-key schema (keeps constraints of nested fields)
    pub fields: BTreeMap<String, ZSchema>,
    /// key order of z.object as written
    pub field_order: Vec<String>,
    /// constraints found on nested schemas (array elements, record values, tuple members ...)
    pub nested: Vec<Constraint>,
}

impl ZSchema {
    fn of(shape: Shape) -> ZSchema {
        ZSchema { shape, constraints: vec![], coerce: false, fields: BTreeMap::new(), field_order: vec![], nested: vec![] }
    }
    fn wrap(shape: Shape, children: &[&ZSchema]) -> ZSchema {
        let mut z = ZSchema::of(shape);
        for c in children {
            z.nested.extend(c.constraints.iter().cloned());
            z.nested.extend(c.nested.iter().cloned());
        }
        z
    }
}

fn callee_path(e: &Expr) -> Option<Vec<String>> {
    match e {
        Expr::Ident(n) => Some(vec![n.clone()]),
        Expr::Member { object, prop, .. } => {
            let mut p = callee_path(object)?;
            p.push(prop.clone());
            Some(p)
        }
        Expr::Paren(e) => callee_path(e),
        _ => None,
    }
}

fn arg_exprs(args: &[ArrayElem]) -> Vec<&Expr> {
    args.iter()
        .filter_map(|a| match a {
            ArrayElem::Item(e) => Some(e),
            _ => None,
        })
        .collect()
}

fn num_literal(e: &Expr) -> Option<String> {
    match e {
        Expr::Num(s) => Some(s.clone()),
        Expr::Unary(op, inner) if op == "-" => num_literal(inner).map(|s| format!("-{}", s)),
        Expr::Unary(op, inner) if op == "+" => num_literal(inner),
        Expr::Paren(e) => num_literal(e),
        _ => None,
    }
}

fn message_of(e: &Expr) -> Option<String> {
    match e {
        Expr::Str(s) => Some(s.clone()),
        Expr::Template(parts) if parts.len() == 1 => match &parts[0] {
            ts::TemplatePart::Str(s) => Some(s.clone()),
            _ => None,
        },
        Expr::Object(props) => props.iter().find_map(|p| match p {
            ObjProp::KeyValue(k, v) if prop_key_string(k) == "message" || prop_key_string(k) == "error" => message_of(v),
            _ => None,
        }),
        _ => None,
    }
}

/// Read a Zod schema expression. Returns Err(description) for anything outside Appendix B.
pub fn read_zod(e: &Expr) -> Result<ZSchema, String> {
    match e {
        Expr::Paren(inner) => read_zod(inner),
        Expr::Ident(name) => {
            if let Some(base) = name.strip_suffix("Schema") {
                Ok(ZSchema::of(Shape::Ref(base.to_string(), vec![])))
            } else {
                Err(format!("identifier {} is not a schema reference", name))
            }
        }
        Expr::Member { object, prop, .. } => {
            // types.XSchema
            if let Expr::Ident(ns) = &**object {
                if ns == "types" {
                    if let Some(base) = prop.strip_suffix("Schema") {
                        return Ok(ZSchema::of(Shape::Ref(base.to_string(), vec![])));
                    }
                }
            }
            Err(format!("member expression .{} is not a schema", prop))
        }
        Expr::Call { callee, args, type_args, .. } => {
            let args_e = arg_exprs(args);
            // z.xxx(...) constructors
            if let Some(path) = callee_path(callee) {
                if path.first().map(|s| s.as_str()) == Some("z") {
                    let rest: Vec<&str> = path[1..].iter().map(|s| s.as_str()).collect();
                    return read_zod_ctor(&rest, &args_e, type_args);
                }
            }
            // method chain: <schema>.method(args)
            if let Expr::Member { object, prop, .. } = &**callee {
                let mut base = read_zod(object)?;
                match prop.as_str() {
                    "optional" => {
                        base.shape = Shape::union([base.shape, Shape::Undef]);
                    }
                    "nullable" => {
                        base.shape = Shape::union([base.shape, Shape::Null]);
                    }
                    "nullish" => {
                        base.shape = Shape::union([base.shape, Shape::Null, Shape::Undef]);
                    }
                    "or" => {
                        let other = read_zod(args_e.first().ok_or("or() without argument")?)?;
                        base.shape = Shape::union([base.shape, other.shape]);
                    }
                    "array" => {
                        base = ZSchema::of(Shape::Arr(Box::new(base.shape)));
                    }
                    "strict" | "passthrough" | "strip" | "readonly" | "describe" | "brand" => {}
                    "default" | "catch" => {}
                    "min" | "max" | "length" | "gte" | "lte" | "gt" | "lt" | "email" | "url" | "uuid" | "regex" | "int" | "positive" | "negative" | "nonnegative" | "nonpositive" | "nonempty" | "finite" | "multipleOf" | "startsWith" | "endsWith" | "includes" | "datetime" | "trim" | "size" => {
                        let value = args_e.first().and_then(|a| num_literal(a));
                        let message = if value.is_some() {
                            args_e.get(1).and_then(|a| message_of(a))
                        } else {
                            args_e.first().and_then(|a| message_of(a))
                        };
                        if !args_e.is_empty() && value.is_none() && message.is_none() && !matches!(prop.as_str(), "regex" | "startsWith" | "endsWith" | "includes") {
                            return Err(format!(".{}() with an argument that is neither a numeric literal nor a message", prop));
                        }
                        base.constraints.push(Constraint { name: prop.clone(), value, message });
                    }
                    other => return Err(format!("unknown schema method .{}()", other)),
                }
                return Ok(base);
            }
            Err("call expression is not a zod schema".into())
        }
        other => Err(format!("expression is not a zod schema: {:?}", std::mem::discriminant(other))),
    }
}

fn read_zod_ctor(path: &[&str], args: &[&Expr], type_args: &[Type]) -> Result<ZSchema, String> {
    let prim = |s: Shape| Ok(ZSchema::of(s));
    match path {
        ["string"] => prim(Shape::Str),
        ["number"] | ["bigint"] => prim(Shape::Num),
        ["boolean"] => prim(Shape::Bool),
        ["void"] => prim(Shape::Void),
        ["null"] => prim(Shape::Null),
        ["undefined"] => prim(Shape::Undef),
        ["unknown"] => prim(Shape::Unknown),
        ["any"] => prim(Shape::Any),
        ["never"] => prim(Shape::Never),
        ["date"] => prim(Shape::Other("Date".into())),
        ["coerce", p] => {
            let mut z = read_zod_ctor(&[p], args, type_args)?;
            z.coerce = true;
            Ok(z)
        }
        ["array"] => {
            let inner = read_zod(args.first().ok_or("z.array() without argument")?)?;
            Ok(ZSchema::wrap(Shape::Arr(Box::new(inner.shape.clone())), &[&inner]))
        }
        ["set"] => {
            let inner = read_zod(args.first().ok_or("z.set() without argument")?)?;
            Ok(ZSchema::wrap(Shape::Set(Box::new(inner.shape.clone())), &[&inner]))
        }
        ["map"] => {
            if args.len() != 2 {
                return Err("z.map() needs two arguments".into());
            }
            Ok(ZSchema::of(Shape::MapObj(Box::new(read_zod(args[0])?.shape), Box::new(read_zod(args[1])?.shape))))
        }
        ["record"] => match args.len() {
            1 => {
                let v = read_zod(args[0])?;
                Ok(ZSchema::wrap(Shape::Rec(Box::new(Shape::Str), Box::new(v.shape.clone())), &[&v]))
            }
            2 => {
                let k = read_zod(args[0])?;
                let v = read_zod(args[1])?;
                Ok(ZSchema::wrap(Shape::Rec(Box::new(k.shape.clone()), Box::new(v.shape.clone())), &[&k, &v]))
            }
            _ => Err("z.record() needs one or two arguments".into()),
        },
        ["tuple"] => match args.first() {
            Some(Expr::Array(items)) => {
                let mut v = vec![];
                let mut kids = vec![];
                for it in items {
                    match it {
                        ArrayElem::Item(e) => {
                            let z = read_zod(e)?;
                            v.push(z.shape.clone());
                            kids.push(z);
                        }
                        _ => return Err("z.tuple() with spread/hole".into()),
                    }
                }
                Ok(ZSchema::wrap(Shape::Tup(v), &kids.iter().collect::<Vec<_>>()))
            }
            _ => Err("z.tuple() needs an array literal".into()),
        },
        ["union"] | ["discriminatedUnion"] => {
            let arr = if path[0] == "union" { args.first() } else { args.get(1) };
            match arr {
                Some(Expr::Array(items)) => {
                    let mut v = vec![];
                    for it in items {
                        match it {
                            ArrayElem::Item(e) => v.push(read_zod(e)?.shape),
                            _ => return Err("z.union() with spread/hole".into()),
                        }
                    }
                    Ok(ZSchema::of(Shape::union(v)))
                }
                _ => Err("z.union() needs an array literal".into()),
            }
        }
        ["enum"] => match args.first() {
            Some(Expr::Array(items)) => {
                let mut v = vec![];
                for it in items {
                    match it {
                        ArrayElem::Item(Expr::Str(s)) => v.push(Shape::Lit(s.clone())),
                        _ => return Err("z.enum() needs string literals".into()),
                    }
                }
                if v.is_empty() {
                    return Ok(ZSchema::of(Shape::Never));
                }
                Ok(ZSchema::of(Shape::union(v)))
            }
            _ => Err("z.enum() needs an array literal".into()),
        },
        ["literal"] => match args.first() {
            Some(Expr::Str(s)) => prim(Shape::Lit(s.clone())),
            Some(Expr::Bool(b)) => prim(Shape::LitBool(*b)),
            Some(Expr::Null) => prim(Shape::Null),
            Some(e) => num_literal(e).map(|n| ZSchema::of(Shape::LitNum(n))).ok_or_else(|| "z.literal() argument".to_string()),
            None => Err("z.literal() without argument".into()),
        },
        ["object"] | ["strictObject"] | ["looseObject"] => match args.first() {
            Some(Expr::Object(props)) => {
                let mut fields = BTreeMap::new();
                let mut order = vec![];
                let mut shape_fields = BTreeMap::new();
                for p in props {
                    match p {
                        ObjProp::KeyValue(k, v) => {
                            let key = prop_key_string(k);
                            let z = read_zod(v)?;
                            // a key whose schema admits undefined may be omitted
                            let optional = matches!(&z.shape, Shape::Union(u) if u.contains(&Shape::Undef)) || z.shape == Shape::Undef;
                            shape_fields.insert(key.clone(), (z.shape.clone(), optional));
                            if fields.insert(key.clone(), z).is_some() {
                                return Err(format!("duplicate key {} in z.object()", key));
                            }
                            order.push(key);
                        }
                        ObjProp::Shorthand(n) => return Err(format!("shorthand property {} in z.object()", n)),
                        _ => return Err("spread/method in z.object()".into()),
                    }
                }
                Ok(ZSchema { shape: Shape::Obj(shape_fields, None), constraints: vec![], coerce: false, fields, field_order: order, nested: vec![] })
            }
            _ => Err("z.object() needs an object literal".into()),
        },
        ["lazy"] => match args.first() {
            Some(Expr::Func(f)) => match &f.body {
                ts::FuncBody::Expr(e) => read_zod(e),
                ts::FuncBody::Block(stmts) => stmts
                    .iter()
                    .find_map(|s| match s {
                        ts::Stmt::Return(Some(e)) => Some(read_zod(e)),
                        _ => None,
                    })
                    .unwrap_or(Err("z.lazy() body without return".into())),
            },
            _ => Err("z.lazy() needs a function".into()),
        },
        ["custom"] => {
            let t = type_args.first().map(|t| from_ts(t)).unwrap_or(Shape::Unknown);
            Ok(ZSchema::of(t))
        }
        ["optional"] => {
            let inner = read_zod(args.first().ok_or("z.optional() without argument")?)?;
            Ok(ZSchema::of(Shape::union([inner.shape, Shape::Undef])))
        }
        ["nullable"] => {
            let inner = read_zod(args.first().ok_or("z.nullable() without argument")?)?;
            Ok(ZSchema::of(Shape::union([inner.shape, Shape::Null])))
        }
        other => Err(format!("unknown zod constructor z.{}", other.join("."))),
    }
}

/// Names of `XSchema` constants read by a schema expression *outside* any function body
/// (declaration-before-use, C09).
pub fn schema_refs_outside_functions(e: &Expr, out: &mut Vec<String>) {
    match e {
        Expr::Ident(n) => {
            if n.ends_with("Schema") {
                out.push(n.clone());
            }
        }
        Expr::Func(_) => {}
        Expr::Member { object, .. } => schema_refs_outside_functions(object, out),
        Expr::Index { object, index, .. } => {
            schema_refs_outside_functions(object, out);
            schema_refs_outside_functions(index, out);
        }
        Expr::Call { callee, args, .. } | Expr::New { callee, args, .. } => {
            schema_refs_outside_functions(callee, out);
            for a in args {
                match a {
                    ArrayElem::Item(e) | ArrayElem::Spread(e) => schema_refs_outside_functions(e, out),
                    ArrayElem::Hole => {}
                }
            }
        }
        Expr::Array(items) => {
            for a in items {
                match a {
                    ArrayElem::Item(e) | ArrayElem::Spread(e) => schema_refs_outside_functions(e, out),
                    ArrayElem::Hole => {}
                }
            }
        }
        Expr::Object(props) => {
            for p in props {
                match p {
                    ObjProp::KeyValue(k, v) => {
                        if let PropKey::Computed(c) = k {
                            schema_refs_outside_functions(c, out);
                        }
                        schema_refs_outside_functions(v, out);
                    }
                    ObjProp::Shorthand(n) => {
                        if n.ends_with("Schema") {
                            out.push(n.clone());
                        }
                    }
                    ObjProp::Spread(e) => schema_refs_outside_functions(e, out),
                    ObjProp::Method(..) => {}
                }
            }
        }
        Expr::Unary(_, e) | Expr::NonNull(e) | Expr::Paren(e) | Expr::As(e, _) => schema_refs_outside_functions(e, out),
        Expr::Binary(_, a, b) | Expr::Assign(_, a, b) => {
            schema_refs_outside_functions(a, out);
            schema_refs_outside_functions(b, out);
        }
        Expr::Cond(a, b, c) => {
            schema_refs_outside_functions(a, out);
            schema_refs_outside_functions(b, out);
            schema_refs_outside_functions(c, out);
        }
        Expr::Template(parts) => {
            for p in parts {
                if let ts::TemplatePart::Expr(e) = p {
                    schema_refs_outside_functions(e, out);
                }
            }
        }
        _ => {}
    }
}
