//! Recursive-descent parser for the TypeScript subset (DESIGN.md Appendix A).
//!
//! Verdict discipline: `Syntax` only for text tsc would reject as a syntax error; constructs
//! that are (or may be) valid TypeScript but lie outside the implemented grammar give
//! `Unsupported`. Speculation is bounded: arrow functions and function types are recognised by
//! looking at the token after the matching `)` (precomputed bracket table), call type arguments
//! by one memoised type-argument parse, and a global step budget caps everything else.

use super::ast::*;
use super::is_reserved_word;
use super::lexer::{line_col, tokenize, Tok, Token};
use std::collections::HashSet;

type PResult<T> = Result<T, ParseError>;

/// Maximum nesting of types / expressions / statements / patterns.
const MAX_DEPTH: usize = 200;
const NONE: usize = usize::MAX;
const TYPE_KEYWORDS: &[&str] = &[
    "string", "number", "boolean", "void", "null", "undefined", "unknown", "any", "never", "object",
    "bigint", "symbol",
];

#[derive(Clone, Copy, PartialEq)]
enum ArrowAhead {
    No,
    /// `( ... ) =>`
    Yes,
    /// `( ... ) : Type =>`
    WithRet,
}

pub struct Parser<'a> {
    src: &'a str,
    toks: Vec<Token>,
    pos: usize,
    depth: usize,
    steps: usize,
    max_steps: usize,
    /// index of the matching `)` for every `(` token (NONE when unbalanced)
    close: Vec<usize>,
    /// parsing the `a ? HERE : b` branch: `(x): T => y` needs a following `:` to be an arrow
    in_cond_true: bool,
    fn_depth: usize,
    /// `<` positions where a call type-argument list was tried and did not fit
    targ_fail: HashSet<usize>,
    /// `(` positions where `(x): T => y` in a conditional's true branch turned out not to be an arrow
    arrow_fail: HashSet<usize>,
    /// approximate stack address at construction and the number of bytes parsing may use below it
    stack_base: usize,
    stack_budget: usize,
    /// set when the stack budget (not the logical depth limit) stopped the parse
    pub stack_exhausted: bool,
}

fn stack_address() -> usize {
    let probe = 0u8;
    std::hint::black_box(&probe) as *const u8 as usize
}

impl<'a> Parser<'a> {
    /// `stack_budget`: bytes of stack the parser may consume before it gives up (see `ts::run`).
    pub fn new(src: &'a str, stack_budget: usize) -> Self {
        let toks = tokenize(src);
        let mut close = vec![NONE; toks.len()];
        let mut stack: Vec<(usize, char)> = Vec::new();
        for (i, t) in toks.iter().enumerate() {
            let (closes, opens) = match &t.tok {
                Tok::Punct("(") => (None, Some('(')),
                Tok::Punct("[") => (None, Some('[')),
                Tok::Punct("{") => (None, Some('{')),
                Tok::Punct(")") => (Some('('), None),
                Tok::Punct("]") => (Some('['), None),
                Tok::Punct("}") => (Some('{'), None),
                Tok::Template { head, tail, .. } => {
                    ((!*head).then_some('`'), (!*tail).then_some('`'))
                }
                _ => (None, None),
            };
            if let Some(c) = closes {
                match stack.pop() {
                    Some((j, o)) if o == c => {
                        if let Some(slot) = close.get_mut(j) {
                            *slot = i;
                        }
                    }
                    _ => stack.clear(), // unbalanced: the parser will hit the error itself
                }
            }
            if let Some(o) = opens {
                stack.push((i, o));
            }
        }
        let max_steps = toks.len() * 64 + 4096;
        Parser {
            src,
            toks,
            pos: 0,
            depth: 0,
            steps: 0,
            max_steps,
            close,
            in_cond_true: false,
            fn_depth: 0,
            targ_fail: HashSet::new(),
            arrow_fail: HashSet::new(),
            stack_base: stack_address(),
            stack_budget,
            stack_exhausted: false,
        }
    }

    // ---------------------------------------------------------------- token helpers

    fn tok_at(&self, i: usize) -> &Token {
        // the token list always ends with Eof or Error, and is never empty
        let last = self.toks.len().saturating_sub(1);
        &self.toks[i.min(last)]
    }

    fn cur(&self) -> &Token {
        self.tok_at(self.pos)
    }

    fn peek(&self, n: usize) -> &Tok {
        &self.tok_at(self.pos.saturating_add(n)).tok
    }

    fn bump(&mut self) {
        self.steps += 1;
        if self.pos + 1 < self.toks.len() {
            self.pos += 1;
        }
    }

    fn error_at<T>(&self, i: usize, kind: ParseErrorKind, msg: impl Into<String>) -> PResult<T> {
        let t = self.tok_at(i);
        let (kind, msg) = match &t.tok {
            Tok::Error(k, m) => (k.clone(), m.clone()),
            _ => (kind, msg.into()),
        };
        let (line, col) = line_col(self.src, t.start);
        Err(ParseError { kind, msg, line, col })
    }

    fn syntax<T>(&self, msg: impl Into<String>) -> PResult<T> {
        self.error_at(self.pos, ParseErrorKind::Syntax, msg)
    }

    fn unsupported<T>(&self, msg: impl Into<String>) -> PResult<T> {
        self.error_at(self.pos, ParseErrorKind::Unsupported, msg)
    }

    fn describe(&self) -> String {
        match &self.cur().tok {
            Tok::Ident(s) => format!("'{}'", s),
            Tok::Str(_) => "string literal".into(),
            Tok::Num(s) => format!("number {}", s),
            Tok::Template { .. } => "template literal".into(),
            Tok::Punct(p) => format!("'{}'", p),
            Tok::Eof => "end of input".into(),
            Tok::Error(_, m) => m.clone(),
        }
    }

    fn unexpected<T>(&self, wanted: &str) -> PResult<T> {
        self.syntax(format!("expected {}, found {}", wanted, self.describe()))
    }

    fn is_p(&self, p: &str) -> bool {
        matches!(&self.cur().tok, Tok::Punct(q) if *q == p)
    }

    fn is_kw(&self, k: &str) -> bool {
        matches!(&self.cur().tok, Tok::Ident(s) if s == k)
    }

    fn peek_is_p(&self, n: usize, p: &str) -> bool {
        matches!(self.peek(n), Tok::Punct(q) if *q == p)
    }

    fn peek_is_kw(&self, n: usize, k: &str) -> bool {
        matches!(self.peek(n), Tok::Ident(s) if s == k)
    }

    fn peek_nl(&self, n: usize) -> bool {
        self.tok_at(self.pos.saturating_add(n)).nl_before
    }

    fn eat_p(&mut self, p: &str) -> bool {
        let hit = self.is_p(p);
        if hit {
            self.bump();
        }
        hit
    }

    fn eat_kw(&mut self, k: &str) -> bool {
        let hit = self.is_kw(k);
        if hit {
            self.bump();
        }
        hit
    }

    fn expect_p(&mut self, p: &str) -> PResult<()> {
        if self.eat_p(p) {
            Ok(())
        } else {
            self.unexpected(&format!("'{}'", p))
        }
    }

    fn expect_kw(&mut self, k: &str) -> PResult<()> {
        if self.eat_kw(k) {
            Ok(())
        } else {
            self.unexpected(&format!("'{}'", k))
        }
    }

    /// Any IdentifierName (reserved words included).
    fn ident_name(&self) -> Option<String> {
        match &self.cur().tok {
            Tok::Ident(s) => Some(s.clone()),
            _ => None,
        }
    }

    fn expect_ident_name(&mut self, what: &str) -> PResult<String> {
        match self.ident_name() {
            Some(s) => {
                self.bump();
                Ok(s)
            }
            None => self.unexpected(what),
        }
    }

    /// An identifier that is not a reserved word (declared names and references).
    fn expect_ident(&mut self, what: &str) -> PResult<String> {
        match self.ident_name() {
            Some(s) if is_reserved_word(&s) => {
                self.syntax(format!("reserved word '{}' cannot be used as {}", s, what))
            }
            Some(s) => {
                self.bump();
                Ok(s)
            }
            None => self.unexpected(what),
        }
    }

    fn expect_str(&mut self, what: &str) -> PResult<String> {
        match &self.cur().tok {
            Tok::Str(s) => {
                let s = s.clone();
                self.bump();
                Ok(s)
            }
            _ => self.unexpected(what),
        }
    }

    /// `;`, or automatic semicolon insertion before `}` / EOF / a token on a new line.
    fn consume_semi(&mut self) -> PResult<()> {
        if self.eat_p(";") || self.is_p("}") || self.cur().tok == Tok::Eof || self.cur().nl_before {
            Ok(())
        } else {
            self.unexpected("';'")
        }
    }

    /// Runs `f` one nesting level deeper (depth guard + step budget).
    fn nest<T>(&mut self, f: impl FnOnce(&mut Self) -> PResult<T>) -> PResult<T> {
        if self.depth >= MAX_DEPTH {
            return self.syntax("nesting too deep");
        }
        if self.stack_base.abs_diff(stack_address()) > self.stack_budget {
            self.stack_exhausted = true;
            return self.unsupported("nesting too deep for the available stack");
        }
        if self.steps > self.max_steps {
            return self.unsupported("input too complex (speculation budget exhausted)");
        }
        self.depth += 1;
        let r = f(self);
        self.depth -= 1;
        r
    }

    /// Runs `f` inside brackets: the conditional-branch arrow restriction does not apply there.
    fn bracketed<T>(&mut self, f: impl FnOnce(&mut Self) -> PResult<T>) -> PResult<T> {
        let saved = std::mem::replace(&mut self.in_cond_true, false);
        let r = f(self);
        self.in_cond_true = saved;
        r
    }

    fn in_function<T>(&mut self, f: impl FnOnce(&mut Self) -> PResult<T>) -> PResult<T> {
        self.fn_depth += 1;
        let r = self.bracketed(f);
        self.fn_depth -= 1;
        r
    }

    fn expect_eof(&self) -> PResult<()> {
        if self.cur().tok == Tok::Eof {
            Ok(())
        } else {
            self.unexpected("end of input")
        }
    }

    // ---------------------------------------------------------------- entry points

    pub fn parse_module(&mut self) -> PResult<Module> {
        let mut items = Vec::new();
        while self.cur().tok != Tok::Eof {
            items.push(self.parse_item()?);
        }
        Ok(Module { items })
    }

    pub fn parse_type_only(&mut self) -> PResult<Type> {
        let t = self.parse_type()?;
        self.expect_eof()?;
        Ok(t)
    }

    pub fn parse_expr_only(&mut self) -> PResult<Expr> {
        let e = self.parse_assign()?;
        self.expect_eof()?;
        Ok(e)
    }

    // ---------------------------------------------------------------- module items

    fn parse_item(&mut self) -> PResult<Item> {
        if self.is_kw("import") && !self.peek_is_p(1, "(") && !self.peek_is_p(1, ".") {
            return self.parse_import();
        }
        if self.is_kw("export") {
            return self.parse_export();
        }
        self.parse_decl_item(false)
    }

    /// Interface / type alias / variable / function declaration, or any other statement.
    fn parse_decl_item(&mut self, exported: bool) -> PResult<Item> {
        if self.is_kw("interface") {
            return self.parse_interface(exported);
        }
        if self.at_type_alias() {
            return self.parse_type_alias(exported);
        }
        if exported {
            let is_decl = self.is_kw("const")
                || self.is_kw("let")
                || self.is_kw("var")
                || self.is_kw("function")
                || (self.is_kw("async") && self.peek_is_kw(1, "function") && !self.peek_nl(1));
            if !is_decl {
                return self.at_unsupported_decl().and_then(|_| self.unexpected("a declaration after 'export'"));
            }
        }
        Ok(match self.parse_stmt()? {
            Stmt::Var { kind, decls } => Item::Var { exported, kind, decls },
            Stmt::Func(func) => Item::Func { exported, func },
            other => Item::Stmt(other),
        })
    }

    fn at_type_alias(&self) -> bool {
        self.is_kw("type") && matches!(self.peek(1), Tok::Ident(_)) && !self.peek_nl(1)
    }

    /// Errors with `Unsupported` when a declaration form outside the grammar starts here.
    fn at_unsupported_decl(&self) -> PResult<()> {
        let next_is_name = matches!(self.peek(1), Tok::Ident(_) | Tok::Str(_)) && !self.peek_nl(1);
        let what = match &self.cur().tok {
            Tok::Punct("@") => "decorators",
            Tok::Ident(k) => match k.as_str() {
                "enum" => "enum declarations",
                "class" => "class declarations",
                "for" | "while" | "do" => "loops",
                "switch" | "break" | "continue" | "with" | "debugger" => "switch / break / continue / with / debugger statements",
                "abstract" if self.peek_is_kw(1, "class") => "class declarations",
                "const" if self.peek_is_kw(1, "enum") => "enum declarations",
                "function" if self.peek_is_p(1, "*") => "generator functions",
                "declare" | "namespace" | "module" if next_is_name => "ambient / namespace declarations",
                "global" if self.peek_is_p(1, "{") => "ambient / namespace declarations",
                _ => return Ok(()),
            },
            _ => return Ok(()),
        };
        self.unsupported(format!("outside the supported subset: {}", what))
    }

    fn parse_import(&mut self) -> PResult<Item> {
        self.expect_kw("import")?;
        if let Tok::Str(_) = self.cur().tok {
            let from = self.expect_str("module specifier")?;
            self.consume_semi()?;
            return Ok(Item::Import { type_only: false, default: None, namespace: None, named: vec![], from });
        }
        let type_only = self.is_kw("type")
            && match self.peek(1) {
                Tok::Punct("{") | Tok::Punct("*") => true,
                Tok::Ident(s) => s != "from" || self.peek_is_kw(2, "from"),
                _ => false,
            };
        if type_only {
            self.bump();
        }
        let (mut default, mut namespace, mut named) = (None, None, Vec::new());
        let mut need_clause = true;
        if let Tok::Ident(_) = self.cur().tok {
            default = Some(self.expect_ident("an import binding")?);
            if self.is_p("=") {
                return self.unsupported("import-equals declarations are outside the supported subset");
            }
            need_clause = self.eat_p(",");
        }
        if need_clause {
            if self.eat_p("*") {
                self.expect_kw("as")?;
                namespace = Some(self.expect_ident("a namespace import binding")?);
            } else if self.is_p("{") {
                named = self.parse_specifiers(true)?;
            } else {
                return self.unexpected("import bindings");
            }
        }
        self.expect_kw("from")?;
        let from = self.expect_str("module specifier")?;
        if (self.is_kw("with") || self.is_kw("assert")) && !self.cur().nl_before {
            return self.unsupported("import attributes are outside the supported subset");
        }
        self.consume_semi()?;
        Ok(Item::Import { type_only, default, namespace, named, from })
    }

    /// `{ a, b as c, type D, }`; for imports the local name must be a legal binding.
    fn parse_specifiers(&mut self, import: bool) -> PResult<Vec<ImportSpec>> {
        self.expect_p("{")?;
        let mut out = Vec::new();
        while !self.is_p("}") {
            if let Tok::Str(_) = self.cur().tok {
                return self.unsupported("string-named import/export specifiers are outside the supported subset");
            }
            let start = self.pos;
            let mut name = self.expect_ident_name("an import/export specifier")?;
            let (mut type_only, mut source) = (false, None);
            if name == "type" {
                if self.is_kw("as") {
                    self.bump();
                    if self.is_kw("as") {
                        self.bump();
                        if let Some(n) = self.ident_name() {
                            // `type as as n`
                            self.bump();
                            type_only = true;
                            source = Some("as".to_string());
                            name = n;
                        } else {
                            // `type as as`
                            source = Some("type".to_string());
                            name = "as".to_string();
                        }
                    } else if let Some(n) = self.ident_name() {
                        // `type as n`
                        self.bump();
                        source = Some("type".to_string());
                        name = n;
                    } else {
                        // `type as`
                        type_only = true;
                        name = "as".to_string();
                    }
                } else if let Some(n) = self.ident_name() {
                    self.bump();
                    type_only = true;
                    name = n;
                }
            }
            if source.is_none() && self.eat_kw("as") {
                source = Some(name);
                name = self.expect_ident_name("a name after 'as'")?;
            }
            if import && is_reserved_word(&name) {
                return self.error_at(
                    start,
                    ParseErrorKind::Syntax,
                    format!("reserved word '{}' cannot be used as an import binding", name),
                );
            }
            out.push(ImportSpec { imported: source.unwrap_or_else(|| name.clone()), local: name, type_only });
            if !self.eat_p(",") {
                break;
            }
        }
        self.expect_p("}")?;
        Ok(out)
    }

    fn parse_export(&mut self) -> PResult<Item> {
        let start = self.pos;
        self.expect_kw("export")?;
        if self.eat_p("*") {
            let alias = if self.eat_kw("as") { Some(self.expect_ident_name("an export name")?) } else { None };
            self.expect_kw("from")?;
            let from = self.expect_str("module specifier")?;
            self.consume_semi()?;
            return Ok(Item::ExportStar { alias, from });
        }
        let type_only = self.is_kw("type") && self.peek_is_p(1, "{");
        if type_only {
            self.bump();
        }
        if self.is_p("{") {
            let names = self.parse_specifiers(false)?;
            let from = if self.eat_kw("from") { Some(self.expect_str("module specifier")?) } else { None };
            if from.is_none() {
                if let Some(bad) = names.iter().find(|n| is_reserved_word(&n.imported)) {
                    return self.error_at(
                        start,
                        ParseErrorKind::Syntax,
                        format!("reserved word '{}' cannot be exported as a local binding", bad.imported),
                    );
                }
            }
            self.consume_semi()?;
            return Ok(Item::ExportNamed { type_only, names, from });
        }
        if self.eat_kw("default") {
            if self.is_p("@") || ["class", "abstract", "interface", "enum"].iter().any(|k| self.is_kw(k)) {
                return self.unsupported("this default export form is outside the supported subset");
            }
            let is_fn = self.is_kw("function")
                || (self.is_kw("async") && self.peek_is_kw(1, "function") && !self.peek_nl(1));
            let e = self.parse_assign()?;
            if !is_fn {
                self.consume_semi()?;
            }
            return Ok(Item::ExportDefault(e));
        }
        if self.is_p("=") || self.is_kw("import") || (self.is_kw("as") && self.peek_is_kw(1, "namespace")) {
            return self.unsupported("this export form is outside the supported subset");
        }
        if self.is_kw("type") && self.peek_is_p(1, "*") {
            return self.unsupported("'export type *' is outside the supported subset");
        }
        self.parse_decl_item(true)
    }

    fn parse_interface(&mut self, exported: bool) -> PResult<Item> {
        self.expect_kw("interface")?;
        let name = self.expect_ident("an interface name")?;
        let tparams = self.parse_tparams_opt()?;
        let mut extends = Vec::new();
        if self.eat_kw("extends") {
            loop {
                extends.push(self.parse_type_ref()?);
                if !self.eat_p(",") {
                    break;
                }
            }
        }
        if !self.is_p("{") {
            return self.unexpected("'{'");
        }
        let body = self.parse_obj_type()?;
        Ok(Item::Interface { exported, name, tparams, extends, body })
    }

    fn parse_type_alias(&mut self, exported: bool) -> PResult<Item> {
        self.expect_kw("type")?;
        let name = self.expect_ident("a type alias name")?;
        let tparams = self.parse_tparams_opt()?;
        self.expect_p("=")?;
        let ty = self.parse_type()?;
        self.consume_semi()?;
        Ok(Item::TypeAlias { exported, name, tparams, ty })
    }
}

// -------------------------------------------------------------------- statements
impl<'a> Parser<'a> {
    fn parse_block(&mut self) -> PResult<Vec<Stmt>> {
        self.expect_p("{")?;
        let mut out = Vec::new();
        while !self.is_p("}") {
            if self.cur().tok == Tok::Eof {
                return self.unexpected("'}'");
            }
            out.push(self.parse_stmt()?);
        }
        self.expect_p("}")?;
        Ok(out)
    }

    fn parse_stmt(&mut self) -> PResult<Stmt> {
        self.nest(|p| p.bracketed(|p| p.parse_stmt_inner()))
    }

    fn parse_stmt_inner(&mut self) -> PResult<Stmt> {
        self.at_unsupported_decl()?;
        if self.is_p("{") {
            return Ok(Stmt::Block(self.parse_block()?));
        }
        if self.eat_p(";") {
            return Ok(Stmt::Empty);
        }
        let kw = self.ident_name().unwrap_or_default();
        match kw.as_str() {
            "const" | "let" | "var" => return self.parse_var_stmt(),
            "function" => return Ok(Stmt::Func(self.parse_function(false)?)),
            "async" if self.peek_is_kw(1, "function") && !self.peek_nl(1) => {
                return Ok(Stmt::Func(self.parse_function(false)?));
            }
            "return" => {
                if self.fn_depth == 0 {
                    return self.syntax("'return' outside of a function body");
                }
                self.bump();
                let at_end = self.is_p(";") || self.is_p("}") || self.cur().tok == Tok::Eof || self.cur().nl_before;
                let value = if at_end { None } else { Some(self.parse_expression()?) };
                self.consume_semi()?;
                return Ok(Stmt::Return(value));
            }
            "throw" => {
                self.bump();
                if self.cur().nl_before {
                    return self.syntax("line terminator after 'throw'");
                }
                let value = self.parse_expression()?;
                self.consume_semi()?;
                return Ok(Stmt::Throw(value));
            }
            "if" => return self.parse_if(),
            "try" => return self.parse_try(),
            "interface" => return self.unsupported("interface declarations inside blocks are outside the supported subset"),
            "type" if self.at_type_alias() => {
                return self.unsupported("type aliases inside blocks are outside the supported subset");
            }
            "import" if !self.peek_is_p(1, "(") && !self.peek_is_p(1, ".") => {
                return self.syntax("import declarations are only allowed at the top level");
            }
            "export" => return self.syntax("export declarations are only allowed at the top level"),
            _ => {}
        }
        if !kw.is_empty() && !is_reserved_word(&kw) && self.peek_is_p(1, ":") {
            return self.unsupported("labelled statements are outside the supported subset");
        }
        let e = self.parse_expression()?;
        self.consume_semi()?;
        Ok(Stmt::Expr(e))
    }

    /// Expression in statement / parenthesis position: comma sequences are not part of the grammar.
    fn parse_expression(&mut self) -> PResult<Expr> {
        let e = self.parse_assign()?;
        if self.is_p(",") {
            return self.syntax("comma sequence expressions are not accepted");
        }
        Ok(e)
    }

    fn parse_var_stmt(&mut self) -> PResult<Stmt> {
        let kind = match self.expect_ident_name("'const', 'let' or 'var'")?.as_str() {
            "const" => VarKind::Const,
            "let" => VarKind::Let,
            _ => VarKind::Var,
        };
        let mut decls = Vec::new();
        loop {
            let pattern = self.parse_pattern()?;
            if self.is_p("!") && !self.cur().nl_before {
                return self.unsupported("definite assignment assertions are outside the supported subset");
            }
            let ty = if self.eat_p(":") { Some(self.parse_type()?) } else { None };
            let init = if self.eat_p("=") { Some(self.parse_assign()?) } else { None };
            if init.is_none() && kind == VarKind::Const {
                return self.syntax("'const' declarations must be initialised");
            }
            if init.is_none() && !matches!(pattern, Pattern::Ident(_)) {
                return self.syntax("a destructuring declaration must have an initialiser");
            }
            decls.push(VarDecl { pattern, ty, init });
            if !self.eat_p(",") {
                break;
            }
        }
        self.consume_semi()?;
        Ok(Stmt::Var { kind, decls })
    }

    fn parse_if(&mut self) -> PResult<Stmt> {
        self.expect_kw("if")?;
        self.expect_p("(")?;
        let cond = self.parse_expression()?;
        self.expect_p(")")?;
        let then = Box::new(self.parse_branch()?);
        let otherwise = if self.eat_kw("else") { Some(Box::new(self.parse_branch()?)) } else { None };
        Ok(Stmt::If { cond, then, otherwise })
    }

    fn parse_branch(&mut self) -> PResult<Stmt> {
        let start = self.pos;
        let s = self.parse_stmt()?;
        let bad = matches!(&s, Stmt::Func(_)) || matches!(&s, Stmt::Var { kind, .. } if *kind != VarKind::Var);
        if bad {
            return self.error_at(start, ParseErrorKind::Syntax, "declaration not allowed as the body of 'if'");
        }
        Ok(s)
    }

    fn parse_try(&mut self) -> PResult<Stmt> {
        self.expect_kw("try")?;
        let block = self.parse_block()?;
        let mut catch = None;
        if self.eat_kw("catch") {
            let mut binding = None;
            if self.eat_p("(") {
                if self.is_p("{") || self.is_p("[") {
                    return self.unsupported("destructuring catch bindings are outside the supported subset");
                }
                binding = Some(self.expect_ident("a catch binding")?);
                if self.eat_p(":") {
                    self.parse_type()?;
                }
                self.expect_p(")")?;
            }
            catch = Some((binding, self.parse_block()?));
        }
        let finally = if self.eat_kw("finally") { Some(self.parse_block()?) } else { None };
        if catch.is_none() && finally.is_none() {
            return self.unexpected("'catch' or 'finally'");
        }
        Ok(Stmt::Try { block, catch, finally })
    }

    // ---------------------------------------------------------------- functions, parameters, patterns

    /// `async? function name? <T>(params): R { body }`; `expr`: function expression (name optional).
    fn parse_function(&mut self, expr: bool) -> PResult<Function> {
        let is_async = self.eat_kw("async");
        self.expect_kw("function")?;
        if self.is_p("*") {
            return self.unsupported("generator functions are outside the supported subset");
        }
        let name = if expr && !matches!(self.cur().tok, Tok::Ident(_)) {
            None
        } else {
            Some(self.expect_ident("a function name")?)
        };
        let mut f = self.parse_function_rest(is_async)?;
        f.name = name;
        Ok(f)
    }

    /// `<T>(params): R { body }`
    fn parse_function_rest(&mut self, is_async: bool) -> PResult<Function> {
        let tparams = self.parse_tparams_opt()?;
        let params = self.parse_params()?;
        let ret = if self.eat_p(":") { Some(self.parse_return_type()?) } else { None };
        if !self.is_p("{") {
            if self.is_p(";") || self.cur().nl_before || self.cur().tok == Tok::Eof {
                return self.unsupported("function overload signatures are outside the supported subset");
            }
            return self.unexpected("'{'");
        }
        let body = self.in_function(|p| p.parse_block())?;
        Ok(Function { name: None, is_async, is_arrow: false, tparams, params, ret, body: FuncBody::Block(body) })
    }

    fn parse_return_type(&mut self) -> PResult<Type> {
        let same_line_name = matches!(self.peek(1), Tok::Ident(_)) && !self.peek_nl(1);
        if (self.is_kw("asserts") && same_line_name)
            || (matches!(self.cur().tok, Tok::Ident(_)) && self.peek_is_kw(1, "is") && !self.peek_nl(1))
        {
            return self.unsupported("type predicates are outside the supported subset");
        }
        self.parse_type()
    }

    /// `( '...'? Pattern '?'? (':' Type)? ('=' Assign)? ),*` including the parentheses.
    fn parse_params(&mut self) -> PResult<Vec<Param>> {
        self.expect_p("(")?;
        self.bracketed(|p| {
            let mut out = Vec::new();
            while !p.is_p(")") {
                if p.is_kw("this") && p.peek_is_p(1, ":") {
                    return p.unsupported("'this' parameters are outside the supported subset");
                }
                let rest = p.eat_p("...");
                let pattern = p.parse_pattern()?;
                let optional = p.eat_p("?");
                let ty = if p.eat_p(":") { Some(p.parse_type()?) } else { None };
                let default = if p.is_p("=") {
                    if optional || rest {
                        return p.syntax("an optional or rest parameter cannot have an initialiser");
                    }
                    p.bump();
                    Some(p.parse_assign()?)
                } else {
                    None
                };
                out.push(Param { pattern, rest, optional, ty, default });
                if rest && !p.is_p(")") {
                    return p.syntax("a rest parameter must be last and cannot be followed by a comma");
                }
                if !p.eat_p(",") {
                    break;
                }
            }
            p.expect_p(")")?;
            Ok(out)
        })
    }

    /// `<T extends X = Y, ...>`; only the names are kept.
    fn parse_tparams_opt(&mut self) -> PResult<Vec<String>> {
        let mut out = Vec::new();
        if !self.eat_p("<") {
            return Ok(out);
        }
        loop {
            if (self.is_kw("const") || self.is_kw("in") || self.is_kw("out")) && matches!(self.peek(1), Tok::Ident(_)) {
                return self.unsupported("type parameter modifiers are outside the supported subset");
            }
            out.push(self.expect_ident("a type parameter name")?);
            if self.eat_kw("extends") {
                self.parse_type()?;
            }
            if self.eat_p("=") {
                self.parse_type()?;
            }
            if !self.eat_p(",") || self.is_p(">") {
                break;
            }
        }
        self.expect_p(">")?;
        Ok(out)
    }

    fn parse_pattern(&mut self) -> PResult<Pattern> {
        self.nest(|p| p.parse_pattern_inner())
    }

    fn parse_pattern_inner(&mut self) -> PResult<Pattern> {
        if self.eat_p("{") {
            let (mut props, mut rest) = (Vec::new(), None);
            while !self.is_p("}") {
                if self.eat_p("...") {
                    rest = Some(self.expect_ident("a rest binding")?);
                    break;
                }
                if self.is_p("[") {
                    return self.unsupported("computed keys in binding patterns are outside the supported subset");
                }
                let start = self.pos;
                let (key, is_ident) = match self.cur().tok.clone() {
                    Tok::Ident(s) => (s, true),
                    Tok::Str(s) | Tok::Num(s) => (s, false),
                    _ => return self.unexpected("a property name"),
                };
                self.bump();
                let target = if self.eat_p(":") {
                    self.parse_pattern()?
                } else if !is_ident || is_reserved_word(&key) {
                    return self.error_at(start, ParseErrorKind::Syntax, "shorthand binding must be a legal identifier");
                } else {
                    Pattern::Ident(key.clone())
                };
                if self.eat_p("=") {
                    self.bracketed(|p| p.parse_assign())?;
                }
                props.push((key, target));
                if !self.eat_p(",") {
                    break;
                }
            }
            self.expect_p("}")?;
            return Ok(Pattern::Object(props, rest));
        }
        if self.eat_p("[") {
            let (mut elems, mut rest) = (Vec::new(), None);
            while !self.is_p("]") {
                if self.eat_p(",") {
                    elems.push(None);
                    continue;
                }
                if self.eat_p("...") {
                    if self.is_p("[") || self.is_p("{") {
                        return self.unsupported("nested rest patterns are outside the supported subset");
                    }
                    rest = Some(self.expect_ident("a rest binding")?);
                    break;
                }
                elems.push(Some(self.parse_pattern()?));
                if self.eat_p("=") {
                    self.bracketed(|p| p.parse_assign())?;
                }
                if !self.eat_p(",") {
                    break;
                }
            }
            self.expect_p("]")?;
            return Ok(Pattern::Array(elems, rest));
        }
        Ok(Pattern::Ident(self.expect_ident("a binding identifier")?))
    }
}

// -------------------------------------------------------------------- types
impl<'a> Parser<'a> {
    pub(crate) fn parse_type(&mut self) -> PResult<Type> {
        self.nest(|p| p.bracketed(|p| p.parse_type_inner()))
    }

    /// A function type starts here: `<T>(...) => R` or `(...) => R`.
    fn at_fn_type(&self) -> bool {
        if self.is_p("<") {
            return true;
        }
        self.is_p("(") && {
            let m = self.close.get(self.pos).copied().unwrap_or(NONE);
            m != NONE && matches!(self.tok_at(m + 1).tok, Tok::Punct("=>"))
        }
    }

    fn parse_fn_type(&mut self) -> PResult<Type> {
        let tparams = self.parse_tparams_opt()?;
        let params = self.parse_params()?;
        self.expect_p("=>")?;
        let ret = Box::new(self.parse_return_type()?);
        Ok(Type::Fn { tparams, params, ret })
    }

    fn parse_type_inner(&mut self) -> PResult<Type> {
        if self.at_fn_type() {
            return self.parse_fn_type();
        }
        if self.is_kw("new") || (self.is_kw("abstract") && self.peek_is_kw(1, "new")) {
            return self.unsupported("constructor types are outside the supported subset");
        }
        let check = self.parse_union()?;
        if !(self.is_kw("extends") && !self.cur().nl_before) {
            return Ok(check);
        }
        self.bump();
        let extends = if self.at_fn_type() { self.parse_fn_type()? } else { self.parse_union()? };
        self.expect_p("?")?;
        let then = self.parse_type()?;
        self.expect_p(":")?;
        let otherwise = self.parse_type()?;
        Ok(Type::Cond {
            check: Box::new(check),
            extends: Box::new(extends),
            then: Box::new(then),
            otherwise: Box::new(otherwise),
        })
    }

    fn parse_union(&mut self) -> PResult<Type> {
        self.eat_p("|");
        let mut parts = vec![self.parse_intersection()?];
        while self.eat_p("|") {
            parts.push(self.parse_intersection()?);
        }
        Ok(if parts.len() == 1 { parts.remove(0) } else { Type::Union(parts) })
    }

    fn parse_intersection(&mut self) -> PResult<Type> {
        self.eat_p("&");
        let mut parts = vec![self.parse_postfix_type()?];
        while self.eat_p("&") {
            parts.push(self.parse_postfix_type()?);
        }
        Ok(if parts.len() == 1 { parts.remove(0) } else { Type::Intersection(parts) })
    }

    fn parse_postfix_type(&mut self) -> PResult<Type> {
        let mut t = self.parse_prim_type()?;
        while self.is_p("[") && !self.cur().nl_before {
            self.bump();
            if self.eat_p("]") {
                t = Type::Array(Box::new(t));
            } else {
                let idx = self.parse_type()?;
                self.expect_p("]")?;
                t = Type::Indexed(Box::new(t), Box::new(idx));
            }
        }
        Ok(t)
    }

    fn parse_prim_type(&mut self) -> PResult<Type> {
        match self.cur().tok.clone() {
            Tok::Str(s) => {
                self.bump();
                Ok(Type::LitStr(s))
            }
            Tok::Num(n) => {
                self.bump();
                Ok(Type::LitNum(n))
            }
            Tok::Punct("-") => {
                self.bump();
                match self.cur().tok.clone() {
                    Tok::Num(n) => {
                        self.bump();
                        Ok(Type::LitNum(format!("-{}", n)))
                    }
                    _ => self.unexpected("a numeric literal after '-'"),
                }
            }
            Tok::Template { .. } => self.unsupported("template literal types are outside the supported subset"),
            Tok::Punct("(") => {
                self.bump();
                let inner = self.parse_type()?;
                self.expect_p(")")?;
                Ok(Type::Paren(Box::new(inner)))
            }
            Tok::Punct("[") => self.parse_tuple(),
            Tok::Punct("{") => Ok(Type::Object(self.parse_obj_type()?)),
            Tok::Ident(k) => match k.as_str() {
                "true" | "false" => {
                    self.bump();
                    Ok(Type::LitBool(k == "true"))
                }
                "typeof" => {
                    self.bump();
                    if self.is_kw("import") || self.is_kw("this") {
                        return self.unsupported("this 'typeof' operand is outside the supported subset");
                    }
                    Ok(Type::TypeOf(self.parse_qname()?))
                }
                "keyof" => {
                    self.bump();
                    Ok(Type::KeyOf(Box::new(self.nest(|p| p.parse_postfix_type())?)))
                }
                "readonly" => {
                    self.bump();
                    Ok(Type::Readonly(Box::new(self.nest(|p| p.parse_postfix_type())?)))
                }
                "unique" if self.peek_is_kw(1, "symbol") => self.unsupported("'unique symbol' is outside the supported subset"),
                "infer" if matches!(self.peek(1), Tok::Ident(_)) && !self.peek_nl(1) => {
                    self.unsupported("'infer' types are outside the supported subset")
                }
                "this" => self.unsupported("the 'this' type is outside the supported subset"),
                "import" => self.unsupported("import types are outside the supported subset"),
                _ if TYPE_KEYWORDS.contains(&k.as_str()) => {
                    self.bump();
                    Ok(Type::Keyword(k))
                }
                _ => self.parse_type_ref(),
            },
            _ => self.unexpected("a type"),
        }
    }

    /// `Ident ('.' IdentName)*`
    fn parse_qname(&mut self) -> PResult<Vec<String>> {
        let mut name = vec![self.expect_ident("a type or value name")?];
        while self.eat_p(".") {
            name.push(self.expect_ident_name("a name after '.'")?);
        }
        Ok(name)
    }

    fn parse_type_ref(&mut self) -> PResult<Type> {
        let name = self.parse_qname()?;
        let args = if self.is_p("<") && !self.cur().nl_before { self.parse_type_args()? } else { Vec::new() };
        Ok(Type::Ref { name, args })
    }

    /// `'<' Type (',' Type)* ','? '>'`
    fn parse_type_args(&mut self) -> PResult<Vec<Type>> {
        self.expect_p("<")?;
        let mut args = Vec::new();
        loop {
            args.push(self.parse_type()?);
            if !self.eat_p(",") || self.is_p(">") {
                break;
            }
        }
        self.expect_p(">")?;
        Ok(args)
    }

    fn parse_tuple(&mut self) -> PResult<Type> {
        self.expect_p("[")?;
        let mut elems = Vec::new();
        while !self.is_p("]") {
            let rest = self.eat_p("...");
            let named = matches!(self.cur().tok, Tok::Ident(_))
                && (self.peek_is_p(1, ":") || (self.peek_is_p(1, "?") && self.peek_is_p(2, ":")));
            let (mut name, mut optional) = (None, false);
            if named {
                name = Some(self.expect_ident_name("a tuple member name")?);
                optional = self.eat_p("?");
                self.expect_p(":")?;
            }
            let ty = self.parse_type()?;
            if !named {
                optional = self.eat_p("?");
            }
            elems.push(TupleElem { name, optional, rest, ty });
            if !self.eat_p(",") {
                break;
            }
        }
        self.expect_p("]")?;
        Ok(Type::Tuple(elems))
    }

    /// A property name token of an object type / object literal: IdentName, string or number.
    fn prop_key(&self, n: usize) -> Option<PropKey> {
        match self.peek(n) {
            Tok::Ident(s) => Some(PropKey::Ident(s.clone())),
            Tok::Str(s) => Some(PropKey::Str(s.clone())),
            Tok::Num(s) => Some(PropKey::Num(s.clone())),
            _ => None,
        }
    }

    fn parse_obj_type(&mut self) -> PResult<Vec<Member>> {
        self.expect_p("{")?;
        let mut members = Vec::new();
        while !self.is_p("}") {
            members.push(self.parse_member()?);
            // separator: ';' or ',' or a line break (ASI) or the closing brace
            if !(self.eat_p(";") || self.eat_p(",") || self.is_p("}") || self.cur().nl_before) {
                return self.unexpected("';', ',' or a line break between members");
            }
        }
        self.expect_p("}")?;
        Ok(members)
    }

    fn parse_member(&mut self) -> PResult<Member> {
        let starts_name = |p: &Self, n: usize| (p.prop_key(n).is_some() || p.peek_is_p(n, "[")) && !p.peek_nl(n);
        if (self.is_kw("get") || self.is_kw("set")) && starts_name(self, 1) {
            return self.unsupported("accessor signatures are outside the supported subset");
        }
        let readonly = self.is_kw("readonly") && starts_name(self, 1);
        if readonly {
            self.bump();
        }
        if self.is_p("[") {
            if matches!(self.peek(1), Tok::Ident(_)) && self.peek_is_kw(2, "in") {
                return self.unsupported("mapped types are outside the supported subset");
            }
            if !matches!(self.peek(1), Tok::Ident(_) | Tok::Str(_)) {
                self.bump();
                return self.unexpected("an index signature parameter");
            }
            if !self.peek_is_p(2, ":") {
                return self.unsupported("computed property names in types are outside the supported subset");
            }
            self.bump();
            let param = self.expect_ident("an index signature parameter")?;
            self.expect_p(":")?;
            let key_ty = self.parse_type()?;
            self.expect_p("]")?;
            self.expect_p(":")?;
            let ty = self.parse_type()?;
            return Ok(Member::Index { param, key_ty, ty });
        }
        if self.is_p("(") || self.is_p("<") || (self.is_kw("new") && (self.peek_is_p(1, "(") || self.peek_is_p(1, "<"))) {
            return self.unsupported("call / construct signatures are outside the supported subset");
        }
        if (self.is_p("+") || self.is_p("-")) && (self.peek_is_p(1, "[") || self.peek_is_kw(1, "readonly")) {
            return self.unsupported("mapped type modifiers are outside the supported subset");
        }
        let key = match self.prop_key(0) {
            Some(k) => k,
            None => return self.unexpected("a property name"),
        };
        self.bump();
        let optional = self.eat_p("?");
        let at_end = |p: &Self| p.is_p(";") || p.is_p(",") || p.is_p("}") || p.cur().nl_before;
        if self.is_p("(") || self.is_p("<") {
            let tparams = self.parse_tparams_opt()?;
            let params = self.parse_params()?;
            if !self.eat_p(":") {
                if at_end(self) {
                    return self.unsupported("method signatures without a return type are outside the supported subset");
                }
                return self.unexpected("':'");
            }
            let ret = self.parse_return_type()?;
            return Ok(Member::Method { key, optional, tparams, params, ret });
        }
        if !self.eat_p(":") {
            if at_end(self) {
                // `name;` / `name,` - a property signature without a type annotation is valid
                // TypeScript (implicitly `any`). Accept it, so that a later genuine syntax error in
                // the same file is still reported as such.
                return Ok(Member::Prop { key, optional, readonly, ty: Type::Keyword("any".into()) });
            }
            return self.unexpected("':'");
        }
        let ty = self.parse_type()?;
        Ok(Member::Prop { key, optional, readonly, ty })
    }
}

// -------------------------------------------------------------------- expressions
impl<'a> Parser<'a> {
    pub(crate) fn parse_assign(&mut self) -> PResult<Expr> {
        self.nest(|p| p.parse_assign_inner())
    }

    fn parse_assign_inner(&mut self) -> PResult<Expr> {
        if let Some(f) = self.try_arrow()? {
            return Ok(Expr::Func(Box::new(f)));
        }
        let start = self.pos;
        let lhs = self.parse_cond()?;
        let (op, ntoks): (&'static str, usize) = match &self.cur().tok {
            Tok::Punct(p @ ("=" | "+=" | "-=" | "*=" | "/=" | "%=" | "**=" | "<<=" | "&=" | "|=" | "^=" | "&&=" | "||=" | "??=")) => (*p, 1),
            Tok::Punct(">") => match self.gt_op() {
                (op @ (">>=" | ">>>="), n) => (op, n),
                _ => return Ok(lhs),
            },
            _ => return Ok(lhs),
        };
        if !Self::is_assign_target(&lhs, op == "=") {
            return self.error_at(start, ParseErrorKind::Syntax, "invalid assignment target");
        }
        for _ in 0..ntoks {
            self.bump();
        }
        let rhs = self.parse_assign()?;
        Ok(Expr::Assign(op.to_string(), Box::new(lhs), Box::new(rhs)))
    }

    fn is_assign_target(e: &Expr, allow_pattern: bool) -> bool {
        match e {
            Expr::Ident(_) | Expr::Member { optional: false, .. } | Expr::Index { optional: false, .. } => true,
            Expr::Paren(inner) | Expr::NonNull(inner) | Expr::As(inner, _) => Self::is_assign_target(inner, false),
            Expr::Object(_) | Expr::Array(_) => allow_pattern,
            _ => false,
        }
    }

    /// Operator formed by the `>` at the cursor and the tokens glued to it: (operator, token count).
    fn gt_op(&self) -> (&'static str, usize) {
        let glued = |n: usize, p: &str| self.peek_is_p(n, p) && self.tok_at(self.pos + n).start == self.tok_at(self.pos + n - 1).end;
        let mut n = 1;
        while n < 3 && glued(n, ">") {
            n += 1;
        }
        let eq = glued(n, "=");
        match (n, eq) {
            (1, false) => (">", 1),
            (1, true) => (">=", 2),
            (2, false) => (">>", 2),
            (2, true) => (">>=", 3),
            (_, false) => (">>>", 3),
            (_, true) => (">>>=", 4),
        }
    }

    /// Classifies the parenthesis at token `i` by what follows its matching `)`.
    fn arrow_ahead_at(&mut self, i: usize) -> ArrowAhead {
        let m = self.close.get(i).copied().unwrap_or(NONE);
        if m == NONE || self.tok_at(m + 1).nl_before && matches!(self.tok_at(m + 1).tok, Tok::Punct("=>")) {
            return ArrowAhead::No;
        }
        match self.tok_at(m + 1).tok {
            Tok::Punct("=>") => ArrowAhead::Yes,
            Tok::Punct(":") => {
                // `(...) : Type =>` — types contain no expressions, so this look-ahead is cheap
                let saved = self.pos;
                self.pos = m + 2;
                let ok = self.parse_return_type().is_ok() && self.is_p("=>") && !self.cur().nl_before;
                self.pos = saved;
                if ok {
                    ArrowAhead::WithRet
                } else {
                    ArrowAhead::No
                }
            }
            _ => ArrowAhead::No,
        }
    }

    /// Arrow function at the start of an assignment expression, if there is one.
    fn try_arrow(&mut self) -> PResult<Option<Function>> {
        let mut at = self.pos; // where the parameter list would start
        let mut is_async = false;
        if let Tok::Ident(name) = &self.cur().tok {
            if is_reserved_word(name) {
                return Ok(None);
            }
            if self.peek_is_p(1, "=>") {
                return self.parse_arrow(false).map(Some);
            }
            if name != "async" || self.peek_nl(1) {
                return Ok(None);
            }
            if matches!(self.peek(1), Tok::Ident(_)) && self.peek_is_p(2, "=>") {
                return self.parse_arrow(true).map(Some);
            }
            is_async = true;
            at += 1;
        }
        let saved = self.pos;
        if matches!(self.tok_at(at).tok, Tok::Punct("<")) {
            // generic arrow: skip the type parameter list speculatively
            self.pos = at;
            let ok = self.parse_tparams_opt().is_ok() && self.is_p("(");
            at = self.pos;
            self.pos = saved;
            if !ok {
                return Ok(None);
            }
        }
        if !matches!(self.tok_at(at).tok, Tok::Punct("(")) {
            return Ok(None);
        }
        match self.arrow_ahead_at(at) {
            ArrowAhead::No => Ok(None),
            ArrowAhead::WithRet if self.in_cond_true => {
                // `c ? (x): T => y : z` — only an arrow when the conditional's ':' still follows
                if self.arrow_fail.contains(&saved) {
                    return Ok(None);
                }
                match self.parse_arrow(is_async) {
                    Ok(f) if self.is_p(":") => Ok(Some(f)),
                    _ => {
                        self.pos = saved;
                        self.arrow_fail.insert(saved);
                        Ok(None)
                    }
                }
            }
            _ => self.parse_arrow(is_async).map(Some),
        }
    }

    /// Parses an arrow function whose presence has been established; cursor at `async` / params.
    fn parse_arrow(&mut self, is_async: bool) -> PResult<Function> {
        if is_async {
            self.expect_kw("async")?;
        }
        let (mut tparams, mut ret) = (Vec::new(), None);
        let params = if let Tok::Ident(_) = self.cur().tok {
            let pattern = Pattern::Ident(self.expect_ident("a parameter name")?);
            vec![Param { pattern, rest: false, optional: false, ty: None, default: None }]
        } else {
            tparams = self.parse_tparams_opt()?;
            let params = self.parse_params()?;
            if self.eat_p(":") {
                ret = Some(self.parse_return_type()?);
            }
            params
        };
        if self.is_p("=>") && self.cur().nl_before {
            return self.syntax("line terminator before '=>'");
        }
        self.expect_p("=>")?;
        let body = if self.is_p("{") {
            FuncBody::Block(self.in_function(|p| p.parse_block())?)
        } else {
            self.fn_depth += 1;
            let e = self.parse_assign();
            self.fn_depth -= 1;
            FuncBody::Expr(Box::new(e?))
        };
        Ok(Function { name: None, is_async, is_arrow: true, tparams, params, ret, body })
    }

    fn parse_cond(&mut self) -> PResult<Expr> {
        let cond = self.parse_binary(1)?;
        if !self.eat_p("?") {
            return Ok(cond);
        }
        let saved = std::mem::replace(&mut self.in_cond_true, true);
        let then = self.parse_assign();
        self.in_cond_true = saved;
        let then = then?;
        self.expect_p(":")?;
        let otherwise = self.parse_assign()?;
        Ok(Expr::Cond(Box::new(cond), Box::new(then), Box::new(otherwise)))
    }

    /// Binary operator at the cursor: (operator, precedence, token count).
    fn peek_binop(&self) -> Option<(&'static str, u8, usize)> {
        let (op, n): (&'static str, usize) = match &self.cur().tok {
            Tok::Punct(">") => self.gt_op(),
            Tok::Punct(p) => (*p, 1),
            Tok::Ident(k) if k == "instanceof" => ("instanceof", 1),
            Tok::Ident(k) if k == "in" => ("in", 1),
            _ => return None,
        };
        let prec = match op {
            "??" => 1,
            "||" => 2,
            "&&" => 3,
            "|" => 4,
            "^" => 5,
            "&" => 6,
            "==" | "!=" | "===" | "!==" => 7,
            "<" | ">" | "<=" | ">=" | "instanceof" | "in" => 8,
            "<<" | ">>" | ">>>" => 9,
            "+" | "-" => 10,
            "*" | "/" | "%" => 11,
            "**" => 12,
            _ => return None,
        };
        Some((op, prec, n))
    }

    fn parse_binary(&mut self, min_prec: u8) -> PResult<Expr> {
        let mut left = self.parse_unary()?;
        loop {
            if (self.is_kw("as") || self.is_kw("satisfies")) && !self.cur().nl_before && min_prec <= 8 {
                if self.is_kw("satisfies") {
                    return self.unsupported("'satisfies' is outside the supported subset");
                }
                self.bump();
                let ty = if self.eat_kw("const") {
                    Type::Ref { name: vec!["const".to_string()], args: Vec::new() }
                } else {
                    self.parse_type()?
                };
                left = Expr::As(Box::new(left), ty);
                continue;
            }
            let (op, prec, ntoks) = match self.peek_binop() {
                Some(b) if b.1 >= min_prec => b,
                _ => return Ok(left),
            };
            let op_pos = self.pos;
            for _ in 0..ntoks {
                self.bump();
            }
            // left-associative operators recurse at most once per precedence level; `**` nests
            let right = if op == "**" { self.nest(|p| p.parse_binary(prec))? } else { self.parse_binary(prec + 1)? };
            let is_logical = |e: &Expr, ops: &[&str]| matches!(e, Expr::Binary(o, _, _) if ops.contains(&o.as_str()));
            let mixed = match op {
                "??" => is_logical(&left, &["||", "&&"]) || is_logical(&right, &["||", "&&"]),
                "||" | "&&" => is_logical(&left, &["??"]) || is_logical(&right, &["??"]),
                _ => false,
            };
            if mixed {
                return self.error_at(op_pos, ParseErrorKind::Syntax, "'??' cannot be mixed with '||' or '&&' without parentheses");
            }
            left = Expr::Binary(op.to_string(), Box::new(left), Box::new(right));
        }
    }

    fn parse_unary(&mut self) -> PResult<Expr> {
        let op = match &self.cur().tok {
            Tok::Punct(p @ ("!" | "-" | "+" | "~")) => *p,
            Tok::Ident(k) => match k.as_str() {
                "typeof" => "typeof",
                "void" => "void",
                "delete" => "delete",
                "await" => "await",
                _ => return self.parse_postfix(),
            },
            Tok::Punct("++" | "--") => return self.unsupported("update expressions are outside the supported subset"),
            Tok::Punct("<") => return self.unsupported("JSX / angle-bracket type assertions are outside the supported subset"),
            _ => return self.parse_postfix(),
        };
        self.bump();
        let operand = self.nest(|p| p.parse_unary())?;
        if self.is_p("**") {
            return self.syntax("unary operator directly before '**' (parenthesise the operand)");
        }
        Ok(Expr::Unary(op.to_string(), Box::new(operand)))
    }

    fn parse_args(&mut self) -> PResult<Vec<ArrayElem>> {
        self.expect_p("(")?;
        self.bracketed(|p| {
            let mut args = Vec::new();
            while !p.is_p(")") {
                if p.eat_p("...") {
                    args.push(ArrayElem::Spread(p.parse_assign()?));
                } else {
                    args.push(ArrayElem::Item(p.parse_assign()?));
                }
                if !p.eat_p(",") {
                    break;
                }
            }
            p.expect_p(")")?;
            Ok(args)
        })
    }

    /// Call type arguments `<T, ...>` directly followed by `(`; restores the cursor when they do not fit.
    fn try_call_type_args(&mut self) -> Option<Vec<Type>> {
        if !self.is_p("<") || self.targ_fail.contains(&self.pos) {
            return None;
        }
        let saved = self.pos;
        match self.parse_type_args() {
            Ok(args) if self.is_p("(") => Some(args),
            _ => {
                self.pos = saved;
                self.targ_fail.insert(saved);
                None
            }
        }
    }

    fn at_expression_end(&self) -> bool {
        self.cur().nl_before
            || self.cur().tok == Tok::Eof
            || [";", ")", "]", "}", ",", ":"].iter().any(|p| self.is_p(p))
    }

    fn parse_index(&mut self) -> PResult<Expr> {
        self.expect_p("[")?;
        let e = self.bracketed(|p| p.parse_expression())?;
        self.expect_p("]")?;
        Ok(e)
    }

    fn parse_new(&mut self) -> PResult<Expr> {
        self.expect_kw("new")?;
        if self.is_p(".") {
            return self.unsupported("'new.target' is outside the supported subset");
        }
        let mut callee = if self.is_kw("new") { self.nest(|p| p.parse_new())? } else { self.parse_primary()? };
        loop {
            if self.eat_p(".") {
                if self.is_p("#") {
                    return self.unsupported("private names are outside the supported subset");
                }
                let prop = self.expect_ident_name("a property name after '.'")?;
                callee = Expr::Member { object: Box::new(callee), prop, optional: false };
            } else if self.is_p("[") {
                let index = self.parse_index()?;
                callee = Expr::Index { object: Box::new(callee), index: Box::new(index), optional: false };
            } else if self.is_p("!") && !self.cur().nl_before {
                self.bump();
                callee = Expr::NonNull(Box::new(callee));
            } else {
                break;
            }
        }
        if self.is_p("?.") {
            return self.syntax("optional chain in the callee of 'new'");
        }
        let mut type_args = self.try_call_type_args().unwrap_or_default();
        if type_args.is_empty() && self.is_p("<") {
            // `new X<T>` without an argument list: only when the expression plainly ends there
            let saved = self.pos;
            match self.parse_type_args() {
                Ok(args) if self.at_expression_end() => type_args = args,
                _ => self.pos = saved,
            }
        }
        let args = if self.is_p("(") { self.parse_args()? } else { Vec::new() };
        Ok(Expr::New { callee: Box::new(callee), type_args, args })
    }

    /// Member / call chain with postfix `!`.
    fn parse_postfix(&mut self) -> PResult<Expr> {
        let mut e = if self.is_kw("new") { self.parse_new()? } else { self.parse_primary()? };
        loop {
            match &self.cur().tok {
                Tok::Punct(".") => {
                    self.bump();
                    if self.is_p("#") {
                        return self.unsupported("private names are outside the supported subset");
                    }
                    let prop = self.expect_ident_name("a property name after '.'")?;
                    e = Expr::Member { object: Box::new(e), prop, optional: false };
                }
                Tok::Punct("?.") => {
                    self.bump();
                    if self.is_p("(") {
                        let args = self.parse_args()?;
                        e = Expr::Call { callee: Box::new(e), type_args: Vec::new(), args, optional: true };
                    } else if self.is_p("[") {
                        let index = self.parse_index()?;
                        e = Expr::Index { object: Box::new(e), index: Box::new(index), optional: true };
                    } else if self.is_p("#") || self.is_p("<") {
                        return self.unsupported("this optional chain form is outside the supported subset");
                    } else {
                        let prop = self.expect_ident_name("a property name, '(' or '[' after '?.'")?;
                        e = Expr::Member { object: Box::new(e), prop, optional: true };
                    }
                }
                Tok::Punct("[") => {
                    let index = self.parse_index()?;
                    e = Expr::Index { object: Box::new(e), index: Box::new(index), optional: false };
                }
                Tok::Punct("(") => {
                    let args = self.parse_args()?;
                    e = Expr::Call { callee: Box::new(e), type_args: Vec::new(), args, optional: false };
                }
                Tok::Punct("<") => match self.try_call_type_args() {
                    Some(type_args) => {
                        let args = self.parse_args()?;
                        e = Expr::Call { callee: Box::new(e), type_args, args, optional: false };
                    }
                    None => return Ok(e),
                },
                Tok::Punct("!") if !self.cur().nl_before => {
                    self.bump();
                    e = Expr::NonNull(Box::new(e));
                }
                Tok::Punct("++" | "--") if !self.cur().nl_before => {
                    return self.unsupported("update expressions are outside the supported subset");
                }
                Tok::Template { head: true, .. } => {
                    return self.unsupported("tagged templates are outside the supported subset");
                }
                _ => return Ok(e),
            }
        }
    }

    fn parse_primary(&mut self) -> PResult<Expr> {
        match self.cur().tok.clone() {
            Tok::Num(n) => {
                self.bump();
                Ok(Expr::Num(n))
            }
            Tok::Str(s) => {
                self.bump();
                Ok(Expr::Str(s))
            }
            Tok::Template { head: true, .. } => self.parse_template(),
            Tok::Punct("(") => {
                self.bump();
                let inner = self.bracketed(|p| p.parse_expression())?;
                self.expect_p(")")?;
                Ok(Expr::Paren(Box::new(inner)))
            }
            Tok::Punct("[") => self.parse_array_literal(),
            Tok::Punct("{") => self.parse_object_literal(),
            Tok::Punct("/" | "/=") => self.unsupported("regular expression literals are outside the supported subset"),
            Tok::Punct("#") => self.unsupported("private names are outside the supported subset"),
            Tok::Ident(k) => {
                let simple = match k.as_str() {
                    "this" => Some(Expr::This),
                    "null" => Some(Expr::Null),
                    "true" => Some(Expr::Bool(true)),
                    "false" => Some(Expr::Bool(false)),
                    "undefined" => Some(Expr::Undefined),
                    _ => None,
                };
                if let Some(e) = simple {
                    self.bump();
                    return Ok(e);
                }
                match k.as_str() {
                    "function" => Ok(Expr::Func(Box::new(self.parse_function(true)?))),
                    "async" if self.peek_is_kw(1, "function") && !self.peek_nl(1) => {
                        Ok(Expr::Func(Box::new(self.parse_function(true)?)))
                    }
                    "class" => self.unsupported("class expressions are outside the supported subset"),
                    "import" => self.unsupported("dynamic import / import.meta are outside the supported subset"),
                    "yield" => self.unsupported("'yield' is outside the supported subset"),
                    _ => Ok(Expr::Ident(self.expect_ident("an expression")?)),
                }
            }
            _ => self.unexpected("an expression"),
        }
    }

    fn parse_template(&mut self) -> PResult<Expr> {
        let mut parts = Vec::new();
        loop {
            match self.cur().tok.clone() {
                Tok::Template { cooked, head, tail } if head == parts.is_empty() => {
                    self.bump();
                    parts.push(TemplatePart::Str(cooked));
                    if tail {
                        return Ok(Expr::Template(parts));
                    }
                }
                _ => return self.unexpected("'}' continuing the template literal"),
            }
            parts.push(TemplatePart::Expr(self.bracketed(|p| p.parse_expression())?));
        }
    }

    fn parse_array_literal(&mut self) -> PResult<Expr> {
        self.expect_p("[")?;
        let elems = self.bracketed(|p| {
            let mut elems = Vec::new();
            while !p.is_p("]") {
                if p.eat_p(",") {
                    elems.push(ArrayElem::Hole);
                    continue;
                }
                if p.eat_p("...") {
                    elems.push(ArrayElem::Spread(p.parse_assign()?));
                } else {
                    elems.push(ArrayElem::Item(p.parse_assign()?));
                }
                if !p.eat_p(",") {
                    break;
                }
            }
            Ok(elems)
        })?;
        self.expect_p("]")?;
        Ok(Expr::Array(elems))
    }

    fn parse_object_literal(&mut self) -> PResult<Expr> {
        self.expect_p("{")?;
        let props = self.bracketed(|p| {
            let mut props = Vec::new();
            while !p.is_p("}") {
                props.push(p.parse_object_prop()?);
                if !p.eat_p(",") {
                    break;
                }
            }
            Ok(props)
        })?;
        self.expect_p("}")?;
        Ok(Expr::Object(props))
    }

    fn parse_object_prop(&mut self) -> PResult<ObjProp> {
        if self.eat_p("...") {
            return Ok(ObjProp::Spread(self.parse_assign()?));
        }
        if self.is_p("*") {
            return self.unsupported("generator methods are outside the supported subset");
        }
        let starts_key = |p: &Self, n: usize| p.prop_key(n).is_some() || p.peek_is_p(n, "[") || p.peek_is_p(n, "*");
        if (self.is_kw("get") || self.is_kw("set")) && starts_key(self, 1) {
            return self.unsupported("getters / setters are outside the supported subset");
        }
        let is_async = self.is_kw("async") && starts_key(self, 1) && !self.peek_nl(1);
        if is_async {
            self.bump();
            if self.is_p("*") {
                return self.unsupported("generator methods are outside the supported subset");
            }
        }
        let start = self.pos;
        let key = if self.is_p("[") {
            self.bump();
            let k = self.bracketed(|p| p.parse_assign())?;
            self.expect_p("]")?;
            PropKey::Computed(Box::new(k))
        } else {
            match self.prop_key(0) {
                Some(k) => {
                    self.bump();
                    k
                }
                None => return self.unexpected("a property name"),
            }
        };
        if self.is_p("(") || self.is_p("<") {
            return Ok(ObjProp::Method(key, self.parse_function_rest(is_async)?));
        }
        if is_async {
            return self.unexpected("'(' after the async method name");
        }
        if self.eat_p(":") {
            return Ok(ObjProp::KeyValue(key, self.parse_assign()?));
        }
        match key {
            PropKey::Ident(name) if self.is_p(",") || self.is_p("}") => {
                if is_reserved_word(&name) {
                    return self.error_at(start, ParseErrorKind::Syntax, format!("reserved word '{}' cannot be a shorthand property", name));
                }
                Ok(ObjProp::Shorthand(name))
            }
            PropKey::Ident(name) if self.is_p("=") && !is_reserved_word(&name) => {
                self.unsupported("destructuring assignment defaults are outside the supported subset")
            }
            _ => self.unexpected("':' after the property name"),
        }
    }
}
