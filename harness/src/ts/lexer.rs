//! Lexer for the TypeScript subset (DESIGN.md Appendix A).
//!
//! The whole input is tokenised up front. A lexical error does not abort: it becomes a final
//! `Tok::Error` token so that the parser reports whichever problem comes first in the text.
//! `>` is always emitted as a single-character token (and an `=` glued to it as a single `=`);
//! the expression parser re-assembles `>=`, `>>`, `>>>`, `>>=`, `>>>=` from adjacent tokens,
//! which lets `Array<Array<T>>` work in type position without rescanning.

use super::ast::ParseErrorKind;

#[derive(Debug, Clone, PartialEq)]
pub enum Tok {
    /// IdentifierName, reserved words included
    Ident(String),
    /// string literal, cooked value
    Str(String),
    /// numeric literal, source text
    Num(String),
    /// template chunk with cooked text; `head`: opened by a backtick (else by `}`),
    /// `tail`: closed by a backtick (else by `${`)
    Template { cooked: String, head: bool, tail: bool },
    Punct(&'static str),
    Eof,
    /// lexical error; always the last token
    Error(ParseErrorKind, String),
}

#[derive(Debug, Clone, PartialEq)]
pub struct Token {
    pub tok: Tok,
    /// byte offsets into the source
    pub start: usize,
    pub end: usize,
    /// a line terminator occurs between the previous token and this one
    pub nl_before: bool,
}

const PUNCTS: &[&str] = &[
    "...", "===", "!==", "**=", "<<=", "&&=", "||=", "??=", "=>", "==", "!=", "<=", "&&", "||", "??",
    "?.", "++", "--", "+=", "-=", "*=", "/=", "%=", "&=", "|=", "^=", "**", "<<", "{", "}", "(", ")",
    "[", "]", ";", ",", "<", ">", "+", "-", "*", "/", "%", "&", "|", "^", "!", "~", "?", ":", "=", ".",
    "@", "#",
];

pub fn is_line_terminator(c: char) -> bool {
    matches!(c, '\n' | '\r' | '\u{2028}' | '\u{2029}')
}

fn is_whitespace(c: char) -> bool {
    matches!(
        c,
        '\t' | '\u{b}' | '\u{c}' | ' ' | '\u{a0}' | '\u{feff}' | '\u{1680}' | '\u{2000}'..='\u{200a}'
            | '\u{202f}' | '\u{205f}' | '\u{3000}'
    )
}

pub fn is_id_start(c: char) -> bool {
    c == '$' || c == '_' || unicode_ident::is_xid_start(c)
}

pub fn is_id_continue(c: char) -> bool {
    c == '$' || c == '\u{200c}' || c == '\u{200d}' || unicode_ident::is_xid_continue(c)
}

/// 1-based line and column (in characters) of a byte offset.
pub fn line_col(src: &str, offset: usize) -> (usize, usize) {
    let (mut line, mut col, mut prev_cr) = (1, 1, false);
    for (i, c) in src.char_indices() {
        if i >= offset {
            break;
        }
        if c == '\n' && prev_cr {
            prev_cr = false; // CRLF counts once
            continue;
        }
        prev_cr = c == '\r';
        if is_line_terminator(c) {
            line += 1;
            col = 1;
        } else {
            col += 1;
        }
    }
    (line, col)
}

type LResult<T> = Result<T, (ParseErrorKind, String)>;

fn syntax<T>(msg: impl Into<String>) -> LResult<T> {
    Err((ParseErrorKind::Syntax, msg.into()))
}

struct Lexer<'a> {
    src: &'a str,
    pos: usize,
    /// number of currently open `{` punctuators
    brace_depth: usize,
    /// brace depth at each open `${` substitution
    templates: Vec<usize>,
}

pub fn tokenize(src: &str) -> Vec<Token> {
    let mut lx = Lexer { src, pos: 0, brace_depth: 0, templates: Vec::new() };
    let mut out: Vec<Token> = Vec::new();
    if src.starts_with("#!") {
        while lx.peek().is_some_and(|c| !is_line_terminator(c)) {
            lx.advance();
        }
    }
    loop {
        let mut nl_before = false;
        if let Err((kind, msg)) = lx.skip_trivia(&mut nl_before) {
            out.push(Token { tok: Tok::Error(kind, msg), start: lx.pos, end: lx.pos, nl_before });
            return out;
        }
        let start = lx.pos;
        let after_gt = matches!(out.last(), Some(t) if t.tok == Tok::Punct(">") && t.end == start);
        match lx.next_token(after_gt) {
            Ok(tok) => {
                let eof = tok == Tok::Eof;
                out.push(Token { tok, start, end: lx.pos, nl_before });
                if eof {
                    return out;
                }
            }
            Err((kind, msg)) => {
                out.push(Token { tok: Tok::Error(kind, msg), start, end: start, nl_before });
                return out;
            }
        }
    }
}

impl<'a> Lexer<'a> {
    fn peek(&self) -> Option<char> {
        self.src.get(self.pos..).and_then(|s| s.chars().next())
    }

    fn peek_at(&self, n: usize) -> Option<char> {
        self.src.get(self.pos..).and_then(|s| s.chars().nth(n))
    }

    fn advance(&mut self) -> Option<char> {
        let c = self.peek()?;
        self.pos += c.len_utf8();
        Some(c)
    }

    fn rest(&self) -> &'a str {
        self.src.get(self.pos..).unwrap_or("")
    }

    fn skip_trivia(&mut self, nl: &mut bool) -> LResult<()> {
        loop {
            match self.peek() {
                Some(c) if is_line_terminator(c) => {
                    *nl = true;
                    self.advance();
                }
                Some(c) if is_whitespace(c) => {
                    self.advance();
                }
                Some('/') if self.peek_at(1) == Some('/') => {
                    while self.peek().is_some_and(|c| !is_line_terminator(c)) {
                        self.advance();
                    }
                }
                Some('/') if self.peek_at(1) == Some('*') => {
                    self.pos += 2;
                    loop {
                        if self.rest().starts_with("*/") {
                            self.pos += 2;
                            break;
                        }
                        match self.advance() {
                            Some(c) if is_line_terminator(c) => *nl = true,
                            Some(_) => {}
                            None => return syntax("unterminated block comment"),
                        }
                    }
                }
                _ => return Ok(()),
            }
        }
    }

    fn next_token(&mut self, after_gt: bool) -> LResult<Tok> {
        let c = match self.peek() {
            None => return Ok(Tok::Eof),
            Some(c) => c,
        };
        if is_id_start(c) {
            let start = self.pos;
            while self.peek().is_some_and(is_id_continue) {
                self.advance();
            }
            if self.peek() == Some('\\') {
                // only `\uXXXX` / `\u{...}` can continue an identifier; any other backslash is a
                // plain syntax error
                if self.src.get(self.pos + 1..).is_some_and(|r| r.starts_with('u')) {
                    return Err((ParseErrorKind::Unsupported, "unicode escape in identifier".into()));
                }
                return Err((ParseErrorKind::Syntax, "stray backslash".into()));
            }
            return Ok(Tok::Ident(self.src.get(start..self.pos).unwrap_or("").to_string()));
        }
        if c == '\\' {
            if !self.src.get(self.pos + 1..).is_some_and(|r| r.starts_with('u')) {
                return Err((ParseErrorKind::Syntax, "stray backslash".into()));
            }
            return Err((ParseErrorKind::Unsupported, "unicode escape in identifier".into()));
        }
        if c.is_ascii_digit() || (c == '.' && self.peek_at(1).is_some_and(|d| d.is_ascii_digit())) {
            return self.number();
        }
        if c == '"' || c == '\'' {
            self.advance();
            return self.string(c);
        }
        if c == '`' {
            self.advance();
            return self.template_chunk(true);
        }
        if c == '}' && self.templates.last() == Some(&self.brace_depth) {
            self.templates.pop();
            self.advance();
            return self.template_chunk(false);
        }
        let rest = self.rest();
        let p = match PUNCTS.iter().find(|p| rest.starts_with(**p)) {
            Some(p) => *p,
            None => return syntax(format!("unexpected character {:?}", c)),
        };
        // `=` glued to a `>` stays a single token so that `>=`, `>>=`, `>>>=` can be re-assembled
        let p = if after_gt && c == '=' { "=" } else { p };
        // `a?.5:b` is a conditional, not an optional chain
        let p = if p == "?." && self.peek_at(2).is_some_and(|d| d.is_ascii_digit()) { "?" } else { p };
        self.pos += p.len();
        match p {
            "{" => self.brace_depth += 1,
            "}" => self.brace_depth = self.brace_depth.saturating_sub(1),
            _ => {}
        }
        Ok(Tok::Punct(p))
    }

    /// Reads digits of the given radix with numeric separators; returns the digit count.
    fn digits(&mut self, radix: u32) -> LResult<usize> {
        let (mut n, mut last_sep) = (0, false);
        loop {
            match self.peek() {
                Some(c) if c.is_digit(radix) => {
                    n += 1;
                    last_sep = false;
                    self.advance();
                }
                Some('_') => {
                    if n == 0 || last_sep {
                        return syntax("numeric separator not allowed here");
                    }
                    last_sep = true;
                    self.advance();
                }
                _ => break,
            }
        }
        if last_sep {
            return syntax("numeric separator not allowed at the end of a number");
        }
        Ok(n)
    }

    fn number(&mut self) -> LResult<Tok> {
        let start = self.pos;
        let radix = match (self.peek(), self.peek_at(1)) {
            (Some('0'), Some('x' | 'X')) => 16,
            (Some('0'), Some('o' | 'O')) => 8,
            (Some('0'), Some('b' | 'B')) => 2,
            _ => 10,
        };
        if radix != 10 {
            self.pos += 2;
            if self.digits(radix)? == 0 {
                return syntax("digits expected after radix prefix");
            }
            if self.peek() == Some('n') {
                self.advance();
            }
        } else {
            let mut integer = true;
            if self.peek() == Some('0') && self.peek_at(1).is_some_and(|c| c.is_ascii_digit() || c == '_') {
                return syntax("legacy octal or zero-prefixed literal");
            }
            if self.peek() != Some('.') {
                self.digits(10)?;
            }
            if self.peek() == Some('.') {
                integer = false;
                self.advance();
                if self.peek() == Some('_') {
                    return syntax("numeric separator not allowed here");
                }
                self.digits(10)?;
            }
            if matches!(self.peek(), Some('e' | 'E')) {
                integer = false;
                self.advance();
                if matches!(self.peek(), Some('+' | '-')) {
                    self.advance();
                }
                if self.digits(10)? == 0 {
                    return syntax("digits expected in exponent");
                }
            }
            if integer && self.peek() == Some('n') {
                self.advance();
            }
        }
        if self.peek().is_some_and(|c| is_id_start(c) || c.is_ascii_digit() || c == '\\') {
            return syntax("identifier or digit directly after numeric literal");
        }
        Ok(Tok::Num(self.src.get(start..self.pos).unwrap_or("").to_string()))
    }

    fn hex(&mut self, n: usize) -> LResult<u32> {
        let mut v = 0u32;
        for _ in 0..n {
            match self.advance().and_then(|c| c.to_digit(16)) {
                Some(d) => v = v * 16 + d,
                None => return syntax("invalid hexadecimal escape sequence"),
            }
        }
        Ok(v)
    }

    fn unicode_escape(&mut self) -> LResult<u32> {
        if self.peek() != Some('{') {
            return self.hex(4);
        }
        self.advance();
        let (mut v, mut n) = (0u32, 0);
        loop {
            match self.advance() {
                Some('}') if n > 0 => return Ok(v),
                Some(c) if c.is_ascii_hexdigit() => {
                    v = v * 16 + c.to_digit(16).unwrap_or(0);
                    n += 1;
                    if v > 0x10FFFF {
                        return syntax("unicode escape out of range");
                    }
                }
                _ => return syntax("invalid unicode escape sequence"),
            }
        }
    }

    /// Cooks the escape sequence after a backslash into `out`.
    fn escape(&mut self, out: &mut String) -> LResult<()> {
        let c = match self.advance() {
            Some(c) => c,
            None => return syntax("unterminated literal"),
        };
        match c {
            '\r' => {
                if self.peek() == Some('\n') {
                    self.advance();
                }
            }
            '\n' | '\u{2028}' | '\u{2029}' => {}
            'n' => out.push('\n'),
            'r' => out.push('\r'),
            't' => out.push('\t'),
            'b' => out.push('\u{8}'),
            'f' => out.push('\u{c}'),
            'v' => out.push('\u{b}'),
            '0' if !self.peek().is_some_and(|d| d.is_ascii_digit()) => out.push('\0'),
            '0'..='9' => return syntax("octal or decimal escape sequence"),
            'x' => {
                let v = self.hex(2)?;
                out.push(char::from_u32(v).unwrap_or('\u{fffd}'));
            }
            'u' => {
                let mut v = self.unicode_escape()?;
                if (0xD800..0xDC00).contains(&v) && self.rest().starts_with("\\u") {
                    // surrogate pair written as two escapes
                    let save = self.pos;
                    self.pos += 2;
                    match self.unicode_escape() {
                        Ok(lo) if (0xDC00..0xE000).contains(&lo) => {
                            v = 0x10000 + ((v - 0xD800) << 10) + (lo - 0xDC00)
                        }
                        _ => self.pos = save,
                    }
                }
                out.push(char::from_u32(v).unwrap_or('\u{fffd}'));
            }
            other => out.push(other),
        }
        Ok(())
    }

    fn string(&mut self, quote: char) -> LResult<Tok> {
        let mut out = String::new();
        loop {
            match self.advance() {
                None => return syntax("unterminated string literal"),
                Some(c) if c == quote => return Ok(Tok::Str(out)),
                Some('\n' | '\r') => return syntax("line terminator in string literal"),
                Some('\\') => self.escape(&mut out)?,
                Some(c) => out.push(c),
            }
        }
    }

    fn template_chunk(&mut self, head: bool) -> LResult<Tok> {
        let mut cooked = String::new();
        loop {
            match self.advance() {
                None => return syntax("unterminated template literal"),
                Some('`') => return Ok(Tok::Template { cooked, head, tail: true }),
                Some('$') if self.peek() == Some('{') => {
                    self.advance();
                    self.templates.push(self.brace_depth);
                    return Ok(Tok::Template { cooked, head, tail: false });
                }
                Some('\\') => self.escape(&mut cooked)?,
                Some('\r') => {
                    if self.peek() == Some('\n') {
                        self.advance();
                    }
                    cooked.push('\n');
                }
                Some(c) => cooked.push(c),
            }
        }
    }
}
