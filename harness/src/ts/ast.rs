//! AST for the TypeScript subset accepted by the output parser (DESIGN.md Appendix A).

#[derive(Debug, Clone, PartialEq)]
pub struct Module {
    pub items: Vec<Item>,
}

#[derive(Debug, Clone, PartialEq)]
pub struct ImportSpec {
    /// name as exported by the source module
    pub imported: String,
    /// local binding name
    pub local: String,
    pub type_only: bool,
}

#[derive(Debug, Clone, PartialEq)]
pub enum Item {
    /// `import Default, { a as b, type C } from 'm';` / `import * as ns from 'm';` / `import 'm';`
    Import {
        type_only: bool,
        default: Option<String>,
        namespace: Option<String>,
        named: Vec<ImportSpec>,
        from: String,
    },
    /// `export * from 'm';` / `export * as ns from 'm';`
    ExportStar { alias: Option<String>, from: String },
    /// `export { a, b as c };` / `export { a } from 'm';` (`imported` = source name, `local` = exported name)
    ExportNamed {
        type_only: bool,
        names: Vec<ImportSpec>,
        from: Option<String>,
    },
    /// `export default <expr>;`
    ExportDefault(Expr),
    Interface {
        exported: bool,
        name: String,
        tparams: Vec<String>,
        extends: Vec<Type>,
        body: Vec<Member>,
    },
    TypeAlias {
        exported: bool,
        name: String,
        tparams: Vec<String>,
        ty: Type,
    },
    Var {
        exported: bool,
        kind: VarKind,
        decls: Vec<VarDecl>,
    },
    Func {
        exported: bool,
        func: Function,
    },
    /// any other top-level statement
    Stmt(Stmt),
}

#[derive(Debug, Clone, Copy, PartialEq, Eq)]
pub enum VarKind {
    Const,
    Let,
    Var,
}

#[derive(Debug, Clone, PartialEq)]
pub struct VarDecl {
    pub pattern: Pattern,
    pub ty: Option<Type>,
    pub init: Option<Expr>,
}

#[derive(Debug, Clone, PartialEq)]
pub enum Pattern {
    Ident(String),
    /// `{ a, b: c, ...rest }` - (key, binding pattern)
    Object(Vec<(String, Pattern)>, Option<String>),
    /// `[a, , b, ...rest]`
    Array(Vec<Option<Pattern>>, Option<String>),
}

#[derive(Debug, Clone, PartialEq)]
pub struct Param {
    pub pattern: Pattern,
    pub rest: bool,
    pub optional: bool,
    pub ty: Option<Type>,
    pub default: Option<Expr>,
}

#[derive(Debug, Clone, PartialEq)]
pub struct Function {
    /// None for anonymous function expressions / arrows
    pub name: Option<String>,
    pub is_async: bool,
    pub is_arrow: bool,
    pub tparams: Vec<String>,
    pub params: Vec<Param>,
    pub ret: Option<Type>,
    pub body: FuncBody,
}

#[derive(Debug, Clone, PartialEq)]
pub enum FuncBody {
    Block(Vec<Stmt>),
    Expr(Box<Expr>),
}

#[derive(Debug, Clone, PartialEq)]
pub enum PropKey {
    /// identifier or reserved word used as a bare key
    Ident(String),
    /// quoted key (value after unescaping)
    Str(String),
    /// numeric key (source text)
    Num(String),
    /// `[expr]` computed key (expression contexts only)
    Computed(Box<Expr>),
}

#[derive(Debug, Clone, PartialEq)]
pub enum Member {
    Prop {
        key: PropKey,
        optional: bool,
        readonly: bool,
        ty: Type,
    },
    /// `[k: string]: T`
    Index {
        param: String,
        key_ty: Type,
        ty: Type,
    },
    Method {
        key: PropKey,
        optional: bool,
        tparams: Vec<String>,
        params: Vec<Param>,
        ret: Type,
    },
}

#[derive(Debug, Clone, PartialEq)]
pub struct TupleElem {
    pub name: Option<String>,
    pub optional: bool,
    pub rest: bool,
    pub ty: Type,
}

#[derive(Debug, Clone, PartialEq)]
pub enum Type {
    /// string number boolean void null undefined unknown any never object bigint symbol
    Keyword(String),
    LitStr(String),
    LitNum(String),
    LitBool(bool),
    /// qualified name with optional type arguments: `types.User`, `Record<string, T>`
    Ref { name: Vec<String>, args: Vec<Type> },
    /// `T[]`
    Array(Box<Type>),
    /// `T[K]`
    Indexed(Box<Type>, Box<Type>),
    Tuple(Vec<TupleElem>),
    Object(Vec<Member>),
    Union(Vec<Type>),
    Intersection(Vec<Type>),
    Paren(Box<Type>),
    /// `typeof a.b`
    TypeOf(Vec<String>),
    KeyOf(Box<Type>),
    Readonly(Box<Type>),
    Fn {
        tparams: Vec<String>,
        params: Vec<Param>,
        ret: Box<Type>,
    },
    Cond {
        check: Box<Type>,
        extends: Box<Type>,
        then: Box<Type>,
        otherwise: Box<Type>,
    },
}

#[derive(Debug, Clone, PartialEq)]
pub enum Stmt {
    Block(Vec<Stmt>),
    Var { kind: VarKind, decls: Vec<VarDecl> },
    Func(Function),
    Return(Option<Expr>),
    Throw(Expr),
    If {
        cond: Expr,
        then: Box<Stmt>,
        otherwise: Option<Box<Stmt>>,
    },
    Try {
        block: Vec<Stmt>,
        /// (binding name, optional type annotation, block)
        catch: Option<(Option<String>, Vec<Stmt>)>,
        finally: Option<Vec<Stmt>>,
    },
    Expr(Expr),
    Empty,
}

#[derive(Debug, Clone, PartialEq)]
pub enum ObjProp {
    /// `key: value`
    KeyValue(PropKey, Expr),
    /// `name` shorthand
    Shorthand(String),
    /// `...expr`
    Spread(Expr),
    /// `name(params) { ... }` method
    Method(PropKey, Function),
}

#[derive(Debug, Clone, PartialEq)]
pub enum TemplatePart {
    /// cooked text
    Str(String),
    Expr(Expr),
}

#[derive(Debug, Clone, PartialEq)]
pub enum Expr {
    Ident(String),
    /// string literal, value after unescaping
    Str(String),
    /// numeric literal, source text
    Num(String),
    Bool(bool),
    Null,
    Undefined,
    This,
    Template(Vec<TemplatePart>),
    Array(Vec<ArrayElem>),
    Object(Vec<ObjProp>),
    Func(Box<Function>),
    /// `a.b` / `a?.b`
    Member {
        object: Box<Expr>,
        prop: String,
        optional: bool,
    },
    /// `a[b]` / `a?.[b]`
    Index {
        object: Box<Expr>,
        index: Box<Expr>,
        optional: bool,
    },
    /// `f<T>(args)` / `f?.(args)`
    Call {
        callee: Box<Expr>,
        type_args: Vec<Type>,
        args: Vec<ArrayElem>,
        optional: bool,
    },
    New {
        callee: Box<Expr>,
        type_args: Vec<Type>,
        args: Vec<ArrayElem>,
    },
    /// prefix unary: ! - + ~ typeof void delete await
    Unary(String, Box<Expr>),
    /// postfix `!` (non-null assertion)
    NonNull(Box<Expr>),
    Binary(String, Box<Expr>, Box<Expr>),
    Assign(String, Box<Expr>, Box<Expr>),
    Cond(Box<Expr>, Box<Expr>, Box<Expr>),
    As(Box<Expr>, Type),
    Paren(Box<Expr>),
}

#[derive(Debug, Clone, PartialEq)]
pub enum ArrayElem {
    Item(Expr),
    Spread(Expr),
    /// elision in array literals
    Hole,
}

/// Why a text was not accepted.
#[derive(Debug, Clone, PartialEq)]
pub enum ParseErrorKind {
    /// The text is not valid under the grammar: a syntax error of the generated file.
    Syntax,
    /// The text opens a construct outside the grammar the oracle implements (enum, namespace,
    /// class, decorators, loops, switch, regex literals, JSX, mapped types ...): the oracle
    /// cannot judge it (machinery exit 2, never a verdict).
    Unsupported,
}

#[derive(Debug, Clone, PartialEq)]
pub struct ParseError {
    pub kind: ParseErrorKind,
    pub msg: String,
    pub line: usize,
    pub col: usize,
}

impl std::fmt::Display for ParseError {
    fn fmt(&self, f: &mut std::fmt::Formatter<'_>) -> std::fmt::Result {
        write!(
            f,
            "{:?} at {}:{}: {}",
            self.kind, self.line, self.col, self.msg
        )
    }
}
