use super::*;
use ParseErrorKind::{Syntax, Unsupported};

fn ok(src: &str) -> Module {
    match parse_module(src) {
        Ok(m) => m,
        Err(e) => panic!("expected accept, got {} for:\n{}", e, src),
    }
}

fn bad(src: &str, kind: ParseErrorKind) -> ParseError {
    match parse_module(src) {
        Ok(_) => panic!("expected {:?}, got accept for:\n{}", kind, src),
        Err(e) => {
            assert_eq!(e.kind, kind, "wrong kind ({}) for:\n{}", e, src);
            e
        }
    }
}

fn ty(src: &str) -> Type {
    parse_type(src).unwrap_or_else(|e| panic!("type {:?}: {}", src, e))
}

fn ex(src: &str) -> Expr {
    parse_expr(src).unwrap_or_else(|e| panic!("expr {:?}: {}", src, e))
}

fn kw(s: &str) -> Type {
    Type::Keyword(s.into())
}

fn rf(s: &str) -> Type {
    Type::Ref { name: s.split('.').map(String::from).collect(), args: vec![] }
}

fn id(s: &str) -> Box<Expr> {
    Box::new(Expr::Ident(s.into()))
}

fn bin(op: &str, l: Box<Expr>, r: Box<Expr>) -> Box<Expr> {
    Box::new(Expr::Binary(op.into(), l, r))
}

#[test]
fn must_reject_as_syntax() {
    let cases = [
        "export async function delete() {}",
        "export interface Foo { user-id: string; }",
        "export interface Foo { 2x: string; }",
        "export const S = z.object({ user-id: z.string(), });",
        "export async function onUser:created(h: () => void) {}",
        "export async function onA/b() {}",
        "function f(r#type: string) {}",
        "export interface P { r#type: string; }",
        "type T = string | null[",
        "type T = Promise<types.HashMap<String>;",
        "type T = types.(User;",
        "type T = tauri::Webview;",
        "type T = Vec<(A, B)>Schema;",
        "const x = 'it's';",
        "const x = \"a",
        "type T = [string, ;",
        "export type E = \"A\" | ;",
        "type T = ;",
        "interface I { a: string b: number }",
        "const s = \"\\u{110000}\";",
        "const a = 1 2;",
        // more of the same family
        "const x = 3px;",
        "const x;",
        "const { a };",
        "let class = 1;",
        "const a = new;",
        "function f(...a, b) {}",
        "function f(...a,) {}",
        "function f(a? = 1) {}",
        "const f = (a, b)\n=> a;",
        "throw\nnew Error('x');",
        "return 1;",
        "const x = (a, b);",
        "a, b;",
        "const x = a ?? b || c;",
        "const x = a || b ?? c;",
        "const x = -a ** b;",
        "a + b = c;",
        "const o = { delete };",
        "const o = { 'a' };",
        "const o = { a: 1 b: 2 };",
        "import { delete } from 'm';",
        "import { a as delete } from 'm';",
        "import a, b from 'm';",
        "import { a } 'm';",
        "export { delete };",
        "export foo;",
        "type delete = string;",
        "interface void {}",
        "type T<> = string;",
        "type T = A<>;",
        "type T = string | (a: string) => void;",
        "type T = { a: string",
        "type T = [a: string;",
        "type T = typeof delete;",
        "let x: = 1;",
        "try { }",
        "if (a) const b = 1;",
        "if (a) function f() {}",
        "if a { }",
        "function f() { return 1 2; }",
        "const s = '\\1';",
        "const s = '\\08';",
        "const s = '\\xZZ';",
        "const s = '\\u12';",
        "const s = 'a\nb';",
        "const n = 017;",
        "const n = 1__0;",
        "const n = 1_;",
        "const n = 0x;",
        "const n = 1e;",
        "const n = 1.5n;",
        "const t = `abc;",
        "const t = `a${b`;",
        "const t = `\\u{110000}`;",
        "/* never closed",
        "const x = a ? b;",
        "const x = a.;",
        "const x = a?.;",
        "const x = f(a b);",
        "const x = [1 2];",
        "const x = delete;",
        "const x = new a?.b();",
        "x => ;",
        "function () {}",
        "async function () {}",
        "export default ;",
        "const a = 1 }",
        "} const a = 1;",
        "const x = (1;",
        "const x = 1);",
        "function f() { import a from 'b'; }",
        "function f() { export const a = 1; }",
        "const x = a ¤ b;",
        "const x = y as;",
        "export * as from 'm';",
        "export * from;",
    ];
    for c in cases {
        bad(c, Syntax);
    }
}

#[test]
fn must_accept() {
    let cases = [
        "export interface Foo { \"user-id\": string; 'a b'?: number; delete: boolean; 2: string; [key: string]: unknown; }",
        "export type Status = \"Active\" | \"In-Progress\";",
        "export type P = z.infer<typeof PSchema>;",
        "export interface X extends z.infer<typeof XSchema> { onProgress: Channel<number>; }",
        "async function f() { const data = await invoke<types.User[]>('get_user', { ...result.data, ch: params.ch }); }",
        "hooks?.onValidationError?.(result.error);",
        "if (!(error instanceof ZodError)) { hooks?.onInvokeError?.(error); }",
        "export const ASchema = z.object({ \"user-id\": z.string().min(1, { message: \"é\\\"\\\\\" }), n: z.coerce.number().min(-1.5).max(1e3), });",
        "export const LSchema: z.ZodType<L> = z.lazy(() => z.object({ next: LSchema.optional() }));",
        "function g() { return listen<types.User | null>('a:b/c', (event) => { handler(event.payload); }); }",
        "export * from './types';",
        "interface I { a; b?, c }",
        "import { listen, type UnlistenFn, type Event } from '@tauri-apps/api/event';",
        "import * as types from './types';",
        "type F = (payload: [string, number][]) => void;",
        "type R = Record<string, (string | null)[]>;",
        "type T = { a: string }[] | null;",
        "export async function f<T extends object = {}>(a?: T, ...rest: string[]): Promise<void> {}",
        "const f = async <T,>(x: T) => x;",
        "const o = { a, 'b-c': 1, [k]: 2, ...rest, m() { return 1; }, async n() {} };",
        "const t = `a${b + `c${d}`}e`;",
        "let x = a ? b : c ?? d;",
        "x = y as unknown as string[];",
        "const n = 0x1F + 1_000 + 1e-3 + .5 + 5. + 10n;",
        // more
        "",
        "// only a comment",
        "/** doc */\nexport interface A {}\n",
        "#!/usr/bin/env node\nconst a = 1;",
        "\u{feff}export const a = 1;",
        "import 'side-effect';",
        "import def from 'm';",
        "import def, { a as b, type C, } from 'm';",
        "import def, * as ns from 'm';",
        "import type { A } from 'm';",
        "import type Def from 'm';",
        "import type from 'm';",
        "import { type } from 'm';",
        "import { type as } from 'm';",
        "import { type as as as } from 'm';",
        "import { type as foo } from 'm';",
        "import { default as d } from 'm';",
        "export * as ns from './m';",
        "export { a, b as c, d as default };",
        "export { default } from './m';",
        "export { default as x, type T } from './m';",
        "export type { A, B } from './m';",
        "export default { a: 1 };",
        "export default function () {}",
        "export default async function named() {}\nconst after = 1;",
        "export default (a: number) => a + 1;",
        "export const a = 1, b: string = 'x';",
        "export let u;",
        "var v, w = 2;",
        "const { a, b: { c }, 'd-e': f, 3: g, h = 1, ...rest } = obj;",
        "const [p, , q = 2, ...others] = arr;",
        "function f({ a, b }: Opts, [c, d]: number[] = [1, 2]) {}",
        "interface I<T, U extends keyof T = keyof T> extends A, B.C<T> { }",
        "interface I { m(a: string): void; n?<T>(x: T): T, readonly r: string\n readonly [k: string]: unknown }",
        "interface I {\n  a: string\n  b: number\n  [key: string]: unknown\n}",
        "interface I { readonly: string; get: number; set?: boolean; type: string; new: number }",
        "type T = {\n  a: string,\n  b?: number;\n  c(): void\n};",
        "type U = | 'a' | 'b';",
        "type V = & A & B;",
        "type W = -1 | 0 | 1 | 10n | 1e3 | true | false | null | undefined;",
        "type Fn = <T>(x: T, ...rest: T[]) => Promise<T>;",
        "type Fn2 = () => () => void;",
        "type Fn3 = (a: number, b?: string) => void;",
        "type Tup = [a: string, b?: number, ...rest: boolean[]];",
        "type Tup2 = [string, number?, ...string[],];",
        "type Tup3 = [];",
        "type Idx = T['a'][number];",
        "type Q = typeof a.b.c;",
        "type C = A extends B ? C : D extends E ? F : G;",
        "type C2 = A extends (x: infer_) => void ? 1 : 2;",
        "type RO = readonly string[];",
        "type K = keyof typeof obj;",
        "type G = Map<string, Array<Array<number>>>;",
        "type G2 = A<B<C<D>>>;",
        "type G3 = A<B,>;",
        "type P = (string);",
        "type KW = { string: string; number: number; delete: boolean; class: string };",
        "let a: Array<number>= [];",
        "type string_ = string;",
        "type = 5;",
        "type\nFoo = string;",
        "async function f() { try { await g(); } catch { } }",
        "async function f() { try { await g(); } catch (e: unknown) { throw e; } finally { done(); } }",
        "function f() { try { g(); } finally { } }",
        "function f() { if (a) return; else if (b) { return 1; } else throw new Error('x'); }",
        "function f() { return\n1; }",
        "function f() { ;;; {} }",
        "function f() { function inner() {} const g = function named<T>(this_: T) {}; }",
        "const f = function () {};",
        "const f = async function () {};",
        "const f = async () => {};",
        "const f = async x => x;",
        "const f = x => y => x + y;",
        "const f = (x): number => x;",
        "const f = (x: number, { a, b }: O = {}, ...r: string[]): Promise<void> => { return; };",
        "const f = <T extends object>(x: T): T => x;",
        "const f = async <T>(x: T) => x;",
        "const g = async(1, 2);",
        "const g = async;",
        "const x = a ? (b) : c;",
        "const x = a ? (b) : c => d;",
        "const x = a ? (b): T => c : d;",
        "const x = a ? (b, c) => d : e;",
        "const x = a ? b : (c): T => d;",
        "const x = (a);",
        "const x = ((a)) + ((b));",
        "const x = a < b;",
        "const x = a < b > c;",
        "const x = a < b && c > d;",
        "const x = f<A, B>(1);",
        "const x = f<A<B>>(1);",
        "const x = a >> 1 >>> 2 >= 3 > 4;",
        "x >>= 1; x >>>= 2; x <<= 3; x **= 2; x &&= y; x ||= y; x ??= y;",
        "x = y = z;",
        "(x as any) = 1;",
        "x!.y = 1;",
        "[a, b] = [b, a];",
        "({ a, b } = c);",
        "const x = new Foo;",
        "const x = new Foo();",
        "const x = new a.b.C<T>(1, ...rest);",
        "const x = new Map<string, number[]>();",
        "const x = new (getClass())();",
        "const x = new new X()();",
        "const x = new X().y.z();",
        "const x = a!.b![0]!();",
        "const x = a?.b?.[c]?.(d);",
        "const x = a ? .5 : 1;",
        "const x = a?.5:1;",
        "const x = typeof a === 'string' && !(b in c) || void 0 === d;",
        "const x = (-a) ** b ** c;",
        "const x = a ** -b;",
        "const x = (a ?? b) || c;",
        "const x = a ?? b ?? c;",
        "const x = a as const;",
        "const x = [1, 2] as const;",
        "const x = <T,>() => 1;",
        "const x = y as T<U>;",
        "const x = y as string | number;",
        "const x = a as T;",
        "const x = [, a, , ...b, ];",
        "const x = { };",
        "const x = { a: 1, };",
        "const x = { get: 1, set: 2, async: 3, get, set, async };",
        "const x = { async, };",
        "const x = { 1: 'a', 1.5: 'b', 'k': 'c', class: 1, delete: 2, undefined, };",
        "const x = { async [k]() {} };",
        "const x = { m<T>(a: T): T { return a; } };",
        "const x = `plain`;",
        "const x = `a${1}b${2}c`;",
        "const x = `${a}${b}`;",
        "const x = `a${{ b: `c${d}` }.b}e`;",
        "const x = `line1\nline2 ${ a /* c */ } \\` \\${ }`;",
        "const x = 'a\\\nb';",
        "const x = \"\\u{1F600}\\uD83D\\uDE00\\x41\\0\";",
        "const x = 1..toString();",
        "const x = 1.5.toFixed();",
        "const x = 0b1010 | 0o17 | 0XFF | 0n | 0 | 0.5 | 0e0 | 1_0.0_1e1_0;",
        "const a = 1\nconst b = 2\nfoo()\n",
        "const a = 1; const b = 2",
        "function f() { return 1 }",
        "a\n!b",
        "let x = a\n+ b",
        "let interface_ = 1, of = 2, from = 3, as = 4, readonly = 5, keyof = 6, declare = 7, namespace = 8, module = 9, abstract = 10, get = 11, set = 12, any = 13, string = 14, infer = 15, is = 16, asserts = 17, satisfies = 18, constructor = 19, require = 20, global = 21, unique = 22, out = 23, override = 24, accessor = 25, number = 26, async = 27, type = 28;",
        "module.exports = 1;",
        "declare;",
        "const ünï$_\u{200d}x = 1;",
        "a\u{2028}b\u{2029}c;",
        "const s = 'a\u{2028}b';",
    ];
    for c in cases {
        ok(c);
    }
}

#[test]
fn must_be_unsupported() {
    let cases = [
        "enum E { A }",
        "export enum E { A }",
        "const enum E { A }",
        "export const enum E { A }",
        "namespace N { }",
        "module M { }",
        "declare module 'x' { }",
        "declare const x: number;",
        "export declare function f(): void;",
        "class A {}",
        "export class A {}",
        "export default class {}",
        "abstract class A {}",
        "@dec class A {}",
        "export @dec class A {}",
        "for (;;) {}",
        "while (a) {}",
        "do {} while (a);",
        "switch (a) {}",
        "function f() { break; }",
        "function f() { continue; }",
        "lbl: a;",
        "function* g() {}",
        "const g = function* () {};",
        "with (a) {}",
        "debugger;",
        "const r = /ab+c/g;",
        "const r = a + /'/;",
        "f(/=/);",
        "const j = <div />;",
        "const j = <T>x;",
        "type M = { [K in keyof T]: T[K] };",
        "type M = { readonly [K in A]: B };",
        "type M = { -readonly [K in A]?: B };",
        "type T = `a${string}`;",
        "type T = A extends Array<infer U> ? U : never;",
        "function f(x: unknown): asserts x is string {}",
        "function f(x: unknown): x is string { return true; }",
        "const x = y satisfies T;",
        "const o = { get x() { return 1; } };",
        "const o = { set x(v) {} };",
        "const o = { *g() {} };",
        "const o = { async *g() {} };",
        "interface I { get x(): number; }",
        "interface I { (a: string): void; }",
        "interface I { new (a: string): I; }",
        "interface I { m() }",
        "interface I { [Symbol.iterator]: string }",
        "const m = import('./m');",
        "const u = import.meta.url;",
        "import x = require('x');",
        "export = x;",
        "export as namespace N;",
        "export import a = b.c;",
        "export type * from './m';",
        "import a from 'm' with { type: 'json' };",
        "import { 'a b' as c } from 'm';",
        "type T = unique symbol;",
        "type T = new () => A;",
        "type T = this;",
        "type T = import('m').A;",
        "type T = typeof import('m');",
        "const x = a.#b;",
        "x++;",
        "--x;",
        "const x = tag`a`;",
        "function f(this: Foo) {}",
        "function f(): void;",
        "let x!: number;",
        "function f() { interface I {} }",
        "function f() { type A = string; }",
        "try {} catch ({ message }) {}",
        "const \\u0061 = 1;",
        "const x = { a = 1 };",
        "function f<const T>() {}",
        "function f() { yield; }",
    ];
    for c in cases {
        bad(c, Unsupported);
    }
}

#[test]
fn type_precedence() {
    assert_eq!(ty("string | null[]"), Type::Union(vec![kw("string"), Type::Array(Box::new(kw("null")))]));
    assert_eq!(
        ty("(string | null)[]"),
        Type::Array(Box::new(Type::Paren(Box::new(Type::Union(vec![kw("string"), kw("null")])))))
    );
    assert_eq!(ty("a | b & c"), Type::Union(vec![rf("a"), Type::Intersection(vec![rf("b"), rf("c")])]));
    assert_eq!(ty("a & b | c"), Type::Union(vec![Type::Intersection(vec![rf("a"), rf("b")]), rf("c")]));
    assert_eq!(ty("typeof X[]"), Type::Array(Box::new(Type::TypeOf(vec!["X".into()]))));
    assert_eq!(ty("keyof T[]"), Type::KeyOf(Box::new(Type::Array(Box::new(rf("T"))))));
    assert_eq!(ty("readonly T[]"), Type::Readonly(Box::new(Type::Array(Box::new(rf("T"))))));
    assert_eq!(
        ty("keyof A | B"),
        Type::Union(vec![Type::KeyOf(Box::new(rf("A"))), rf("B")])
    );
    assert_eq!(
        ty("A extends B ? C : D"),
        Type::Cond {
            check: Box::new(rf("A")),
            extends: Box::new(rf("B")),
            then: Box::new(rf("C")),
            otherwise: Box::new(rf("D")),
        }
    );
    assert_eq!(
        ty("() => A | B"),
        Type::Fn { tparams: vec![], params: vec![], ret: Box::new(Type::Union(vec![rf("A"), rf("B")])) }
    );
    assert_eq!(ty("T[K][]"), Type::Array(Box::new(Type::Indexed(Box::new(rf("T")), Box::new(rf("K"))))));
    assert_eq!(
        ty("types.Map<string, A.B[]>"),
        Type::Ref {
            name: vec!["types".into(), "Map".into()],
            args: vec![kw("string"), Type::Array(Box::new(rf("A.B")))],
        }
    );
    assert_eq!(ty("| 'a'"), Type::LitStr("a".into()));
    assert_eq!(ty("-1.5"), Type::LitNum("-1.5".into()));
    assert_eq!(
        ty("[a: string, b?: number, ...c: X[]]"),
        Type::Tuple(vec![
            TupleElem { name: Some("a".into()), optional: false, rest: false, ty: kw("string") },
            TupleElem { name: Some("b".into()), optional: true, rest: false, ty: kw("number") },
            TupleElem { name: Some("c".into()), optional: false, rest: true, ty: Type::Array(Box::new(rf("X"))) },
        ])
    );
    assert_eq!(
        ty("{ readonly a?: string; [k: string]: unknown; 'x-y'(n: number): void }"),
        Type::Object(vec![
            Member::Prop { key: PropKey::Ident("a".into()), optional: true, readonly: true, ty: kw("string") },
            Member::Index { param: "k".into(), key_ty: kw("string"), ty: kw("unknown") },
            Member::Method {
                key: PropKey::Str("x-y".into()),
                optional: false,
                tparams: vec![],
                params: vec![Param {
                    pattern: Pattern::Ident("n".into()),
                    rest: false,
                    optional: false,
                    ty: Some(kw("number")),
                    default: None
                }],
                ret: kw("void"),
            },
        ])
    );
    // array suffix must be on the same line (interface members separated by newlines)
    assert!(parse_type("string\n[]").is_err());
    assert!(parse_type("string extra").is_err());
    assert!(parse_type("").is_err());
}

#[test]
fn expr_precedence() {
    assert_eq!(ex("a + b * c"), *bin("+", id("a"), bin("*", id("b"), id("c"))));
    assert_eq!(ex("a * b + c"), *bin("+", bin("*", id("a"), id("b")), id("c")));
    assert_eq!(ex("a - b - c"), *bin("-", bin("-", id("a"), id("b")), id("c")));
    assert_eq!(ex("a ** b ** c"), *bin("**", id("a"), bin("**", id("b"), id("c"))));
    assert_eq!(ex("a || b && c"), *bin("||", id("a"), bin("&&", id("b"), id("c"))));
    assert_eq!(ex("a | b ^ c & d"), *bin("|", id("a"), bin("^", id("b"), bin("&", id("c"), id("d")))));
    assert_eq!(ex("a == b < c"), *bin("==", id("a"), bin("<", id("b"), id("c"))));
    assert_eq!(ex("a < b << c"), *bin("<", id("a"), bin("<<", id("b"), id("c"))));
    assert_eq!(ex("a >> b >= c"), *bin(">=", bin(">>", id("a"), id("b")), id("c")));
    assert_eq!(ex("a >>> b"), *bin(">>>", id("a"), id("b")));
    assert_eq!(ex("a instanceof B in c"), *bin("in", bin("instanceof", id("a"), id("B")), id("c")));
    assert_eq!(
        ex("a ? b : c ?? d"),
        Expr::Cond(id("a"), id("b"), bin("??", id("c"), id("d")))
    );
    assert_eq!(
        ex("a ? b : c ? d : e"),
        Expr::Cond(id("a"), id("b"), Box::new(Expr::Cond(id("c"), id("d"), id("e"))))
    );
    assert_eq!(
        ex("x = y ? 1 : 2"),
        Expr::Assign(
            "=".into(),
            id("x"),
            Box::new(Expr::Cond(id("y"), Box::new(Expr::Num("1".into())), Box::new(Expr::Num("2".into()))))
        )
    );
    assert_eq!(ex("x >>>= y"), Expr::Assign(">>>=".into(), id("x"), id("y")));
    assert_eq!(ex("!a.b"), Expr::Unary("!".into(), Box::new(Expr::Member { object: id("a"), prop: "b".into(), optional: false })));
    assert_eq!(
        ex("-a + b"),
        *bin("+", Box::new(Expr::Unary("-".into(), id("a"))), id("b"))
    );
    assert_eq!(
        ex("await f()"),
        Expr::Unary("await".into(), Box::new(Expr::Call { callee: id("f"), type_args: vec![], args: vec![], optional: false }))
    );
    assert_eq!(
        ex("y as unknown as string[]"),
        Expr::As(Box::new(Expr::As(id("y"), kw("unknown"))), Type::Array(Box::new(kw("string"))))
    );
    assert_eq!(
        ex("a + b as T"),
        Expr::As(bin("+", id("a"), id("b")), rf("T"))
    );
    assert_eq!(ex("a == b as T"), *bin("==", id("a"), Box::new(Expr::As(id("b"), rf("T")))));
    assert_eq!(ex("x as const"), Expr::As(id("x"), rf("const")));
    assert_eq!(ex("a!"), Expr::NonNull(id("a")));
    assert_eq!(ex("undefined"), Expr::Undefined);
    assert_eq!(
        ex("f<A>(b)"),
        Expr::Call { callee: id("f"), type_args: vec![rf("A")], args: vec![ArrayElem::Item(*id("b"))], optional: false }
    );
    assert_eq!(ex("a < b > c"), *bin(">", bin("<", id("a"), id("b")), id("c")));
    assert_eq!(
        ex("a?.(b)"),
        Expr::Call { callee: id("a"), type_args: vec![], args: vec![ArrayElem::Item(*id("b"))], optional: true }
    );
    assert_eq!(
        ex("new A.B(c).d"),
        Expr::Member {
            object: Box::new(Expr::New {
                callee: Box::new(Expr::Member { object: id("A"), prop: "B".into(), optional: false }),
                type_args: vec![],
                args: vec![ArrayElem::Item(*id("c"))],
            }),
            prop: "d".into(),
            optional: false,
        }
    );
    // conditional with a parenthesised true branch is not an arrow function
    assert_eq!(
        ex("a ? (b) : c"),
        Expr::Cond(id("a"), Box::new(Expr::Paren(id("b"))), id("c"))
    );
    match ex("a ? (b) : c => d") {
        Expr::Cond(_, t, f) => {
            assert_eq!(*t, Expr::Paren(id("b")));
            assert!(matches!(*f, Expr::Func(_)));
        }
        other => panic!("{:?}", other),
    }
    match ex("a ? (b): T => c : d") {
        Expr::Cond(_, t, f) => {
            assert!(matches!(*t, Expr::Func(ref g) if g.ret == Some(rf("T"))));
            assert_eq!(f, id("d"));
        }
        other => panic!("{:?}", other),
    }
    match ex("async <T,>(x: T, ...r: T[]): Promise<T> => { return x; }") {
        Expr::Func(f) => {
            assert!(f.is_async && f.is_arrow);
            assert_eq!(f.tparams, vec!["T".to_string()]);
            assert_eq!(f.params.len(), 2);
            assert!(f.params[1].rest);
            assert!(matches!(f.body, FuncBody::Block(ref b) if b.len() == 1));
        }
        other => panic!("{:?}", other),
    }
    assert!(parse_expr("a, b").is_err());
    assert!(parse_expr("").is_err());
    assert!(parse_expr("a b").is_err());
}

#[test]
fn asi_rules() {
    let m = ok("const a = 1\nconst b = 2\nexport type T = string\nexport * from './x'\nfoo()");
    assert_eq!(m.items.len(), 5);
    // no ASI when the next line continues the expression
    let m = ok("const a = b\n(c)\n");
    assert_eq!(m.items.len(), 1);
    let m = ok("const a = b\n.c\n");
    assert_eq!(m.items.len(), 1);
    // `!` / `as` on a new line start a new statement / are not postfix
    let m = ok("a\n!b");
    assert_eq!(m.items.len(), 2);
    // return followed by newline returns nothing
    let m = ok("function f() { return\n1 }");
    match &m.items[0] {
        Item::Func { func, .. } => {
            assert_eq!(func.body, FuncBody::Block(vec![Stmt::Return(None), Stmt::Expr(Expr::Num("1".into()))]))
        }
        other => panic!("{:?}", other),
    }
    bad("const a = 1 const b = 2", Syntax);
    bad("type A = string type B = number", Syntax);
    bad("export * from './a' export * from './b'", Syntax);
    bad("foo() bar()", Syntax);
    bad("function f() { throw\nx }", Syntax);
    bad("import a from 'a' import b from 'b'", Syntax);
    ok("interface I { a: string } interface J { }");
    ok("function f() {} function g() {}");
    ok("if (a) { } b;");
    ok("{ a }");
    ok("function f() { return }");
    ok("function f() { if (a) return\nelse throw b }");
}

#[test]
fn string_cooking() {
    let cooked = |src: &str| match ex(src) {
        Expr::Str(s) => s,
        other => panic!("{:?}", other),
    };
    assert_eq!(cooked(r#"'a\'b\"c\\d\`'"#), "a'b\"c\\d`");
    assert_eq!(cooked(r#""\n\r\t\b\f\v\0""#), "\n\r\t\u{8}\u{c}\u{b}\0");
    assert_eq!(cooked(r#""\x41\u0042\u{43}\u{1F600}\uD83D\uDE00""#), "ABC\u{1F600}\u{1F600}");
    assert_eq!(cooked(r#""\q\-\ é""#), "q- é");
    assert_eq!(cooked("'a\\\nb\\\r\nc\\\u{2028}d'"), "abcd");
    assert_eq!(cooked("\"it's\""), "it's");
    assert_eq!(cooked(r#"'\u{10FFFF}'"#), "\u{10FFFF}");
    assert_eq!(cooked(r#"'\uD800x'"#), "\u{fffd}x");
    for badsrc in [r#"'\1'"#, r#"'\9'"#, r#"'\00'"#, r#"'\x4'"#, r#"'\u{}'"#, r#"'\u{110000}'"#, r#"'\u00G0'"#, "'a", "'a\nb'", "'a\rb'"] {
        let e = parse_expr(badsrc).expect_err(badsrc);
        assert_eq!(e.kind, Syntax, "{}", badsrc);
    }
}

#[test]
fn template_nesting() {
    use TemplatePart as P;
    assert_eq!(ex("`abc`"), Expr::Template(vec![P::Str("abc".into())]));
    assert_eq!(
        ex("`a${b + `c${d}`}e`"),
        Expr::Template(vec![
            P::Str("a".into()),
            P::Expr(*bin(
                "+",
                id("b"),
                Box::new(Expr::Template(vec![P::Str("c".into()), P::Expr(*id("d")), P::Str("".into())]))
            )),
            P::Str("e".into()),
        ])
    );
    assert_eq!(
        ex("`${{ a: { b } }.a}`"),
        Expr::Template(vec![
            P::Str("".into()),
            P::Expr(Expr::Member {
                object: Box::new(Expr::Object(vec![ObjProp::KeyValue(
                    PropKey::Ident("a".into()),
                    Expr::Object(vec![ObjProp::Shorthand("b".into())])
                )])),
                prop: "a".into(),
                optional: false
            }),
            P::Str("".into()),
        ])
    );
    assert_eq!(ex("`\\n\\${x}\\`\r\n`"), Expr::Template(vec![P::Str("\n${x}`\n".into())]));
    assert!(parse_expr("`a${}`").is_err());
    assert!(parse_expr("`a${b c}`").is_err());
    assert!(parse_expr("`a${b}").is_err());
    assert!(parse_expr("`\\1`").is_err());
}

#[test]
fn module_ast_shapes() {
    let m = ok("import Def, { a as b, type C } from 'm';\nexport { x as y };\nexport * as ns from './n';");
    assert_eq!(
        m.items[0],
        Item::Import {
            type_only: false,
            default: Some("Def".into()),
            namespace: None,
            named: vec![
                ImportSpec { imported: "a".into(), local: "b".into(), type_only: false },
                ImportSpec { imported: "C".into(), local: "C".into(), type_only: true },
            ],
            from: "m".into(),
        }
    );
    assert_eq!(
        m.items[1],
        Item::ExportNamed {
            type_only: false,
            names: vec![ImportSpec { imported: "x".into(), local: "y".into(), type_only: false }],
            from: None
        }
    );
    assert_eq!(m.items[2], Item::ExportStar { alias: Some("ns".into()), from: "./n".into() });
    let m = ok("export interface A<T> extends B { 'k-1'?: T }\nexport type S = 'a' | 'b';\nexport async function f(p: types.P): Promise<void> { return invoke('f', p); }");
    assert_eq!(
        m.items[0],
        Item::Interface {
            exported: true,
            name: "A".into(),
            tparams: vec!["T".into()],
            extends: vec![rf("B")],
            body: vec![Member::Prop { key: PropKey::Str("k-1".into()), optional: true, readonly: false, ty: rf("T") }],
        }
    );
    assert_eq!(
        m.items[1],
        Item::TypeAlias {
            exported: true,
            name: "S".into(),
            tparams: vec![],
            ty: Type::Union(vec![Type::LitStr("a".into()), Type::LitStr("b".into())])
        }
    );
    match &m.items[2] {
        Item::Func { exported: true, func } => {
            assert_eq!(func.name.as_deref(), Some("f"));
            assert!(func.is_async && !func.is_arrow);
            assert_eq!(func.ret, Some(Type::Ref { name: vec!["Promise".into()], args: vec![kw("void")] }));
        }
        other => panic!("{:?}", other),
    }
    let m = ok("try { a(); } catch (e) { b(); } finally { c(); }");
    assert!(matches!(&m.items[0], Item::Stmt(Stmt::Try { catch: Some((Some(n), _)), finally: Some(_), .. }) if n == "e"));
}

#[test]
fn error_positions() {
    let e = bad("const a = 1;\nexport interface Foo {\n  user-id: string;\n}", Syntax);
    assert_eq!((e.line, e.col), (3, 7));
    let e = bad("const é = 'ü' +;\r\n", Syntax);
    assert_eq!((e.line, e.col), (1, 16));
    let e = bad("a;\r\nb;\r\n  'x", Syntax);
    assert_eq!((e.line, e.col), (3, 3));
    // the first problem in the text wins, also when the lexer trips later
    let e = bad("const a = 1 2; const s = 'x", Syntax);
    assert_eq!((e.line, e.col), (1, 13));
    let e = bad("enum E {} const s = 'x", Unsupported);
    assert_eq!((e.line, e.col), (1, 1));
    bad("const s = 'x\nenum E {}", Syntax);
}

#[test]
fn word_predicates() {
    for w in ["delete", "class", "await", "let", "static", "interface", "yield", "enum", "null", "true", "this"] {
        assert!(is_reserved_word(w), "{}", w);
        assert!(is_identifier_name(w));
        assert!(!is_legal_binding_identifier(w));
    }
    for w in ["type", "as", "from", "of", "async", "readonly", "string", "undefined", "$", "_", "a1", "ünï", "a\u{200d}b", "constructor"] {
        assert!(!is_reserved_word(w), "{}", w);
        assert!(is_legal_binding_identifier(w), "{}", w);
    }
    for w in ["", "1a", "a-b", "a b", "r#type", "a.b", "a:b", "\u{200d}a", " a", "a\\u0061"] {
        assert!(!is_identifier_name(w), "{:?}", w);
        assert!(!is_legal_binding_identifier(w));
    }
}

#[test]
fn depth_guard_and_robustness() {
    // runs on the 2 MiB test thread: deep nesting must error out, not overflow the stack
    for (open, close) in [("(", ")"), ("[", "]"), ("{a:", "}"), ("f(", ")"), ("`${", "}`"), ("!", ""), ("a**", ""), ("new ", ""), ("x=>", ""), ("a?b:", "")] {
        let src = format!("x = {}1{};", open.repeat(5000), close.repeat(5000));
        let e = bad(&src, Syntax);
        assert!(e.msg.contains("nesting too deep"), "{}: {}", open, e);
        let src = format!("x = {}1{};", open.repeat(150), close.repeat(150));
        ok(&src);
    }
    for (open, close) in [("(", ")"), ("A<", ">"), ("[", "]"), ("{a:", "}"), ("keyof ", ""), ("() => ", ""), ("(a: ", ") => void")] {
        let src = format!("type T = {}X{};", open.repeat(5000), close.repeat(5000));
        let e = bad(&src, Syntax);
        assert!(e.msg.contains("nesting too deep"), "{}: {}", open, e);
        let src = format!("type T = {}X{};", open.repeat(150), close.repeat(150));
        ok(&src);
    }
    let e = bad(&format!("{}{}", "{".repeat(5000), "}".repeat(5000)), Syntax);
    assert!(e.msg.contains("nesting too deep"));
    let e = bad(&format!("const {}a{} = b;", "[".repeat(5000), "]".repeat(5000)), Syntax);
    assert!(e.msg.contains("nesting too deep"));
    bad(&format!("if (a) {}", "if (a) ".repeat(5000)), Syntax);
    // speculation stays cheap on adversarial nests
    let n = 120;
    let src = format!("x = {}1{};", "(a = ".repeat(n), "): T => 2)".repeat(n).replacen("): T => 2)", ")", 1));
    let _ = parse_module(&src);
    let src = format!("x = {}1{};", "a ? (b = ".repeat(n), ") : c".repeat(n));
    let _ = parse_module(&src);
    // valid but exponential for naive backtracking: must come back quickly (accept or "too complex")
    let t0 = std::time::Instant::now();
    for n in [4, 40, 400] {
        let src = format!("x = {}1;", "a ? (b): T => ".repeat(n));
        match parse_module(&src) {
            Ok(_) => {}
            Err(e) => assert!(e.kind == Unsupported || e.msg.contains("nesting too deep"), "{}", e),
        }
        let src = format!("x = {}1{};", "(a = (b): T => ".repeat(n), ")".repeat(n));
        let _ = parse_module(&src);
    }
    ok("x = a ? (b): T => a ? (b): T => a ? (b): T => 1;");
    assert!(t0.elapsed() < std::time::Duration::from_secs(5));
    ok("x = new Foo<T>;");
    ok("x = [new Foo<T>, new Bar<U>];");
    let src = format!("x = a{};", " < b".repeat(2000));
    ok(&src);
    let src = format!("x = f<{}X{}>(1);", "A<".repeat(100), ">".repeat(100));
    ok(&src);
}

#[test]
fn garbage_never_panics() {
    let seeds = [
        "export interface Foo { \"a\": string; b?: number[]; [key: string]: unknown; }",
        "export const S = z.object({ a: z.string().min(1, { message: \"x\" }), b: z.array(z.number()).optional(), });",
        "export async function f(params: types.P, hooks?: CommandHooks<void>): Promise<void> { try { const r = await invoke<void>('f', { ...params }); hooks?.onSuccess?.(r); return r; } catch (e) { throw e; } finally { hooks?.onSettled?.(); } }",
        "const t = `a${b + `c${d}`}e` as const; type X = A extends B ? [a: C, ...D[]] : (x: E) => F<G>;",
        "import { a, type B } from 'm'; export * from './x'; const n = 0x1F + 1e3 + .5; x >>>= y ?? (z || w);",
    ];
    let junk = ["", "(", ")", "{", "}", "[", "]", "<", ">", "`", "${", "'", "\"", "\\", "/", "/*", "//", "=>", "?.", ":", ",", ";", "#", "@", "\n", "\u{2028}", "0", "1e", "0x", "é", "\u{1F600}", "as", "delete", "...", ">>>=", "?"];
    // deterministic mutations: delete / insert / replace at every char boundary
    for seed in seeds {
        let idx: Vec<usize> = seed.char_indices().map(|(i, _)| i).chain([seed.len()]).collect();
        for (n, &i) in idx.iter().enumerate() {
            for (k, j) in junk.iter().enumerate() {
                let inserted = format!("{}{}{}", &seed[..i], j, &seed[i..]);
                let _ = parse_module(&inserted);
                if (n + k) % 7 == 0 {
                    let _ = parse_type(&inserted);
                    let _ = parse_expr(&inserted);
                }
            }
            if let Some(&next) = idx.get(n + 1) {
                let deleted = format!("{}{}", &seed[..i], &seed[next..]);
                let _ = parse_module(&deleted);
                let _ = parse_module(&seed[..i]);
                let _ = parse_module(&seed[next..]);
            }
        }
    }
}

fn corpus_files(dir: &str) -> Vec<std::path::PathBuf> {
    let root = std::path::Path::new(env!("CARGO_MANIFEST_DIR")).join(dir);
    let mut files: Vec<_> = std::fs::read_dir(&root)
        .unwrap_or_else(|e| panic!("{}: {}", root.display(), e))
        .filter_map(|e| e.ok().map(|e| e.path()))
        .filter(|p| p.extension().is_some_and(|x| x == "ts"))
        .collect();
    files.sort();
    files
}

#[test]
fn corpus_positive() {
    let files = corpus_files("corpus/pos");
    assert!(files.len() >= 12, "only {} positive corpus files", files.len());
    for f in files {
        let src = std::fs::read_to_string(&f).unwrap();
        match parse_module(&src) {
            Ok(m) => assert!(!m.items.is_empty(), "{}: no items", f.display()),
            Err(e) => panic!("{}: {}", f.display(), e),
        }
    }
}

#[test]
fn corpus_negative() {
    let files = corpus_files("corpus/neg");
    assert!(files.len() >= 40, "only {} negative corpus files", files.len());
    for f in files {
        let src = std::fs::read_to_string(&f).unwrap();
        let first = src.lines().next().unwrap_or("");
        let want = match first.trim() {
            "// expect: Syntax" => Syntax,
            "// expect: Unsupported" => Unsupported,
            other => panic!("{}: bad header {:?}", f.display(), other),
        };
        match parse_module(&src) {
            Ok(_) => panic!("{}: accepted, expected {:?}", f.display(), want),
            Err(e) => assert_eq!(e.kind, want, "{}: {}", f.display(), e),
        }
    }
}


#[test]
fn token_soup_never_panics() {
    let atoms = [
        "a", "b", "T", "type", "interface", "export", "import", "from", "as", "async", "function", "const", "return", "if", "else",
        "try", "catch", "finally", "throw", "new", "typeof", "keyof", "readonly", "extends", "await", "delete", "in", "z", "1", "1.5", "0x1F",
        "'s'", "\"d\"", "`t`", "`a${", "}b`", "}m${", "(", ")", "[", "]", "{", "}", "<", ">", ">>", ">=", "=", "=>", "==", "?", "?.", "??", ":",
        ";", ",", ".", "...", "|", "&", "||", "&&", "!", "+", "-", "*", "**", "/", "%", "\n", " ", "#", "@", "/*c*/", "//c\n", "é", "\\",
    ];
    let mut state = 0x2545F4914F6CDD1Du64;
    let mut next = move || {
        state ^= state << 13;
        state ^= state >> 7;
        state ^= state << 17;
        state
    };
    let t0 = std::time::Instant::now();
    for _ in 0..20000 {
        let len = (next() % 40) as usize;
        let mut src = String::new();
        for _ in 0..len {
            src.push_str(atoms[(next() % atoms.len() as u64) as usize]);
            if next() % 3 != 0 {
                src.push(' ');
            }
        }
        let _ = parse_module(&src);
        let _ = parse_type(&src);
        let _ = parse_expr(&src);
    }
    assert!(t0.elapsed() < std::time::Duration::from_secs(60));
}
