//! Strict parser for the TypeScript subset emitted by the generator (DESIGN.md Appendix A).

pub mod ast;
pub mod lexer;
pub mod parser;

pub use ast::*;

/// Stack the parser may use on the caller's thread (fits the 2 MiB default of spawned threads).
const FAST_STACK: usize = 512 << 10;
/// Stack of the fallback thread used for deeply nested input.
const BIG_STACK: usize = 128 << 20;

/// Runs `f` on the current thread; if the input nests so deeply that the stack budget runs out,
/// runs it again on a thread with a big stack, so that only the logical depth limit of the
/// parser (and never the build profile or the caller's stack) decides the verdict.
fn run<T: Send>(src: &str, f: fn(&mut parser::Parser) -> Result<T, ParseError>) -> Result<T, ParseError> {
    let mut p = parser::Parser::new(src, FAST_STACK);
    let r = f(&mut p);
    if !p.stack_exhausted {
        return r;
    }
    let retried = std::thread::scope(|scope| {
        std::thread::Builder::new()
            .stack_size(BIG_STACK)
            .spawn_scoped(scope, || f(&mut parser::Parser::new(src, BIG_STACK - (4 << 20))))
            .ok()
            .and_then(|h| h.join().ok())
    });
    retried.unwrap_or(r)
}

/// Parses a whole module (a generated `.ts` file).
pub fn parse_module(src: &str) -> Result<Module, ParseError> {
    run(src, |p| p.parse_module())
}

/// Parses a single type expression; the whole input must be consumed.
pub fn parse_type(src: &str) -> Result<Type, ParseError> {
    run(src, |p| p.parse_type_only())
}

/// Parses a single assignment-level expression; the whole input must be consumed.
pub fn parse_expr(src: &str) -> Result<Expr, ParseError> {
    run(src, |p| p.parse_expr_only())
}

/// ECMAScript reserved words plus the strict-mode / module ones.
pub fn is_reserved_word(s: &str) -> bool {
    matches!(
        s,
        "break" | "case" | "catch" | "class" | "const" | "continue" | "debugger" | "default" | "delete"
            | "do" | "else" | "enum" | "export" | "extends" | "false" | "finally" | "for" | "function"
            | "if" | "import" | "in" | "instanceof" | "new" | "null" | "return" | "super" | "switch"
            | "this" | "throw" | "true" | "try" | "typeof" | "var" | "void" | "while" | "with" | "yield"
            | "let" | "static" | "implements" | "interface" | "package" | "private" | "protected"
            | "public" | "await"
    )
}

/// IdentifierName lexical form (may be a reserved word); no unicode escapes.
pub fn is_identifier_name(s: &str) -> bool {
    let mut chars = s.chars();
    chars.next().is_some_and(lexer::is_id_start) && chars.all(lexer::is_id_continue)
}

/// IdentifierName that is not reserved: usable as a declared name or identifier reference.
pub fn is_legal_binding_identifier(s: &str) -> bool {
    is_identifier_name(s) && !is_reserved_word(s)
}

#[cfg(test)]
mod tests;
