pub mod ast;
pub use ast::*;
