//! Seam S: the build-script path. Runs `BuildSystem::generate_at_build_time()` with the current
//! working directory as the place a build script would run in.
fn main() {
    match tauri_typegen::BuildSystem::generate_at_build_time() {
        Ok(()) => {}
        Err(e) => {
            eprintln!("Error: {}", e);
            std::process::exit(1);
        }
    }
}
