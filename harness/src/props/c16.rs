//! C16 - only the tool's own files in the output directory are ever written or removed.
//! Histories of runs over pre-populated output directories; whole-sandbox snapshots before/after
//! every action, plus a syscall monitor (strace) for transient writes outside the output dir.

use crate::core::*;
use crate::gen::Project;
use crate::projects;
use crate::run::{self, snapshot_tree, Spawn};
use crate::sbx::{self, FileCfg, RunOpts, Seam};
use rayon::prelude::*;
use serde::{Deserialize, Serialize};
use serde_json::{json, Value};
use std::collections::BTreeSet;
use std::path::{Path, PathBuf};

pub const FOREIGN: [&str; 19] = [
    "notes.md",
    "types.ts.bak",
    "Types.ts",
    "mytypes.ts",
    "types.tsx",
    "index.js",
    ".typecache.old",
    ".write_test",
    "types.tmp",
    "commands.tmp",
    "sub/types.ts",
    "generated/keep.txt",
    "events.d.tsx",
    "commands.test.ts",
    "types.spec.ts",
    "index.mock.ts",
    "bindings.backup.ts",
    "schemas.ts.orig",
    "models.js",
];
/// the subset whose names sit closest to what the tool writes, probes or cleans
pub const NEAR: [&str; 9] = ["types.ts.bak", "Types.ts", ".write_test", "types.tmp", "sub/types.ts", "mytypes.ts", "commands.test.ts", "types.spec.ts", "index.mock.ts"];

pub fn is_reserved_name(name: &str) -> bool {
    const R: [&str; 7] = ["types", "commands", "events", "index", "schemas", "models", "bindings"];
    for r in R {
        if name == format!("{}.ts", r) || name == format!("{}.d.ts", r) {
            return true;
        }
    }
    name == ".typecache"
        || name == "dependency-graph.txt"
        || name == "dependency-graph.dot"
        || name.starts_with("generated_")
        || name.contains("_generated")
}

#[derive(Debug, Clone, Copy, PartialEq, Eq, Hash, PartialOrd, Ord, Serialize, Deserialize)]
pub enum Placement {
    Beside,      // ./gen
    Inside,      // ./src-tauri/gen
    ParentRel,   // ../gen  (cwd is <sb>/w)
    Absolute,    // <sb>/abs/gen
    Nested,      // ./a/b/gen
    DefaultDir,  // ./src/generated (the built-in default spelled out)
    /// ./ui/../gen-link where ./ui is a symbolic link to <sb>/packages/ui: the operating system
    /// resolves it to <sb>/packages/gen-link (not to ./gen-link beside the link)
    ThroughLink,
}
pub const PLACEMENTS: [Placement; 6] = [Placement::Beside, Placement::Inside, Placement::ParentRel, Placement::Absolute, Placement::Nested, Placement::DefaultDir];

impl Placement {
    fn output_path(self, sb_root: &Path) -> String {
        match self {
            Placement::Beside => "./gen".into(),
            Placement::Inside => "./src-tauri/gen".into(),
            Placement::ParentRel => "../gen".into(),
            Placement::Absolute => sb_root.join("abs/gen").to_string_lossy().to_string(),
            Placement::Nested => "./a/b/gen".into(),
            Placement::DefaultDir => "./src/generated".into(),
            Placement::ThroughLink => "./ui/../gen-link".into(),
        }
    }
    fn abs(self, sb_root: &Path) -> PathBuf {
        match self {
            Placement::Beside => sb_root.join("w/gen"),
            Placement::Inside => sb_root.join("w/src-tauri/gen"),
            Placement::ParentRel => sb_root.join("gen"),
            Placement::Absolute => sb_root.join("abs/gen"),
            Placement::Nested => sb_root.join("w/a/b/gen"),
            Placement::DefaultDir => sb_root.join("w/src/generated"),
            Placement::ThroughLink => sb_root.join("packages/gen-link"),
        }
    }
}

#[derive(Debug, Clone, Copy, PartialEq, Eq, Hash, PartialOrd, Ord, Serialize, Deserialize)]
pub enum Act {
    Gen,
    GenForce,
    Build,
    Init,
    /// remove every command from the sources, then generate
    EmptyThenGen,
    /// remove every emit call from the sources, then generate
    NoEventsThenGen,
    NoEventsThenBuild,
    /// generate with `-p` / `-o` flags while a discovered ./tauri.conf.json names another output
    /// directory (which holds checked-in files): the flags decide where anything is written
    GenFlagsOverConf,
    /// `init -o ./tauri.conf.json` (spelled with the leading `./`) from a directory that has such a
    /// file, while the project path holds a tauri.conf.json of its own: only the file that was
    /// pointed at may change
    InitAtRootConf,
}
pub const ACTS: [Act; 8] = [Act::Gen, Act::GenForce, Act::Build, Act::Init, Act::EmptyThenGen, Act::NoEventsThenGen, Act::NoEventsThenBuild, Act::GenFlagsOverConf];

#[derive(Debug, Clone, Serialize, Deserialize)]
pub struct Case {
    pub placement: Placement,
    pub foreign: Vec<String>,
    pub preexisting_outdir: bool,
    pub zod: bool,
    pub visualize: bool,
    pub history: Vec<Act>,
    pub strace: bool,
}

fn strip_commands(p: &Project) -> Project {
    Project {
        files: p
            .files
            .iter()
            .map(|(n, c)| (n.clone(), c.replace("#[tauri::command]", "").replace("#[command]", "")))
            .collect(),
        links: vec![],
    }
}
fn strip_events(p: &Project) -> Project {
    Project {
        files: p
            .files
            .iter()
            .map(|(n, c)| (n.clone(), c.replace(".emit(", ".emit_not(")))
            .collect(),
        links: vec![],
    }
}

fn allowed_change(rel: &str, out_rel: &str, act: Act) -> bool {
    // rel and out_rel are relative to the sandbox root; directories end with '/'
    let out_dir_entry = format!("{}/", out_rel);
    if rel == out_dir_entry {
        return true;
    }
    // ancestors of the output directory being created
    if rel.ends_with('/') && out_dir_entry.starts_with(rel) {
        return true;
    }
    if let Some(rest) = rel.strip_prefix(&out_dir_entry) {
        if !rest.contains('/') && is_reserved_name(rest) {
            return true;
        }
        return false;
    }
    if act == Act::Init && rel == "w/src-tauri/tauri.conf.json" {
        return true;
    }
    if act == Act::InitAtRootConf && rel == "w/tauri.conf.json" {
        return true;
    }
    false
}

const MUTATING: &str = "trace=openat,open,creat,rename,renameat,renameat2,unlink,unlinkat,mkdir,mkdirat,rmdir,truncate,chmod,fchmodat,link,linkat,symlink,symlinkat";

/// Parse an strace log for paths opened for writing / created / renamed / removed.
fn mutated_paths(log: &str, cwd: &Path) -> Vec<(String, PathBuf)> {
    let mut v = vec![];
    for line in log.lines() {
        // strip pid prefix of -f output
        let l = line.trim_start_matches(|c: char| c.is_ascii_digit() || c == ' ');
        let Some(paren) = l.find('(') else { continue };
        let call = &l[..paren];
        if l.contains("= -1 ") {
            continue; // failed call mutated nothing
        }
        let args = &l[paren + 1..];
        let strs: Vec<String> = quoted_strings(args);
        let writes = match call {
            "openat" | "open" => args.contains("O_WRONLY") || args.contains("O_RDWR") || args.contains("O_CREAT") || args.contains("O_TRUNC"),
            "creat" | "rename" | "renameat" | "renameat2" | "unlink" | "unlinkat" | "mkdir" | "mkdirat" | "rmdir" | "truncate" | "chmod" | "fchmodat" | "link" | "linkat" | "symlink" | "symlinkat" => true,
            _ => false,
        };
        if !writes {
            continue;
        }
        for s in strs {
            // (./ui is a link to ../packages/ui in the ThroughLink placement: ui/.. is ../packages)
            let s = s.replacen("ui/../", "../packages/", 1);
            let p = if Path::new(&s).is_absolute() { PathBuf::from(&s) } else { cwd.join(&s) };
            v.push((call.to_string(), normalize(&p)));
        }
    }
    v
}

fn quoted_strings(s: &str) -> Vec<String> {
    let mut out = vec![];
    let mut cur = String::new();
    let mut inq = false;
    let mut esc = false;
    for c in s.chars() {
        if inq {
            if esc {
                cur.push(c);
                esc = false;
            } else if c == '\\' {
                esc = true;
            } else if c == '"' {
                inq = false;
                out.push(std::mem::take(&mut cur));
            } else {
                cur.push(c);
            }
        } else if c == '"' {
            inq = true;
        }
    }
    out
}

fn normalize(p: &Path) -> PathBuf {
    let mut out = PathBuf::new();
    for c in p.components() {
        match c {
            std::path::Component::ParentDir => {
                out.pop();
            }
            std::path::Component::CurDir => {}
            other => out.push(other.as_os_str()),
        }
    }
    out
}

pub fn eval(case: &Case) -> (Vec<Violation>, u64, Vec<String>) {
    let sb = run::Sandbox::new();
    let w = sb.path("w");
    std::fs::create_dir_all(&w).unwrap();
    let base = projects::base_b0();
    let cfg = FileCfg {
        zod: case.zod,
        visualize_deps: case.visualize,
        output_path: case.placement.output_path(&sb.root),
        ..Default::default()
    };
    sbx::write_sources(&w, &base, &cfg);
    // init needs a tauri.conf.json inside the project path; give it unrelated content
    std::fs::write(w.join("src-tauri/tauri.conf.json"), "{\n  \"productName\": \"demo\",\n  \"plugins\": { \"shell\": { \"open\": true } }\n}\n").unwrap();
    // bystanders outside the output directory
    std::fs::create_dir_all(sb.path("outside")).unwrap();
    std::fs::write(sb.path("outside/types.ts"), "// not yours\n").unwrap();
    std::fs::write(w.join("types.ts"), "// project-root bystander\n").unwrap();
    std::fs::write(w.join(".typecache"), "bystander").unwrap();
    std::fs::create_dir_all(w.join("conf-out")).unwrap();
    std::fs::write(w.join("conf-out/index.ts"), "// checked in by hand\n").unwrap();
    std::fs::write(w.join("conf-out/types.ts"), "// checked in by hand\n").unwrap();
    if case.placement == Placement::ThroughLink {
        std::fs::create_dir_all(sb.path("packages/ui")).unwrap();
        std::fs::write(sb.path("packages/ui/button.ts"), "// a component\n").unwrap();
        std::os::unix::fs::symlink("../packages/ui", w.join("ui")).unwrap();
        // what a path folded as text would hit instead
        std::fs::create_dir_all(w.join("gen-link")).unwrap();
        std::fs::write(w.join("gen-link/index.ts"), "// written by hand, beside the link\n").unwrap();
        std::fs::write(w.join("gen-link/types.ts"), "// written by hand, beside the link\n").unwrap();
    }
    let od = case.placement.abs(&sb.root);
    if case.preexisting_outdir || !case.foreign.is_empty() {
        std::fs::create_dir_all(&od).unwrap();
    }
    for f in &case.foreign {
        let p = od.join(f);
        std::fs::create_dir_all(p.parent().unwrap()).unwrap();
        std::fs::write(&p, format!("foreign content of {}\n", f)).unwrap();
    }
    let out_rel = od.strip_prefix(&sb.root).unwrap().to_string_lossy().to_string();
    let mut vs = vec![];
    let mut runs = 0u64;
    let mut outcomes = vec![];
    let mut project = base.clone();
    for (step, act) in case.history.iter().enumerate() {
        match act {
            Act::EmptyThenGen => project = strip_commands(&project),
            Act::NoEventsThenGen | Act::NoEventsThenBuild => project = strip_events(&project),
            _ => {}
        }
        let _ = std::fs::remove_file(w.join("tauri.conf.json")); // left by an InitAtRootConf step
        // rewrite sources (keeps tauri.conf.json of init intact: write_sources wipes src-tauri, so restore it)
        let conf = std::fs::read(w.join("src-tauri/tauri.conf.json")).unwrap_or_default();
        // preserve an output directory nested inside the project
        let inside_backup = if case.placement == Placement::Inside && od.exists() {
            let b = sb.path("inside_backup");
            let _ = std::fs::remove_dir_all(&b);
            run::copy_tree(&od, &b).ok();
            Some(b)
        } else {
            None
        };
        sbx::write_sources(&w, &project, &cfg);
        std::fs::write(w.join("src-tauri/tauri.conf.json"), conf).unwrap();
        if let Some(b) = inside_backup {
            run::copy_tree(&b, &od).ok();
            let _ = std::fs::remove_dir_all(&b);
        }
        let before = snapshot_tree(&sb.root);
        let strace_log = sb.path("strace.log");
        let strace = if case.strace {
            Some(vec!["-f".to_string(), "-e".to_string(), MUTATING.to_string(), "-o".to_string(), strace_log.to_string_lossy().to_string()])
        } else {
            None
        };
        let r = match act {
            Act::Gen | Act::EmptyThenGen | Act::NoEventsThenGen => sbx::run_generate(&w, Seam::Cli, &RunOpts { strace: strace.clone(), ..Default::default() }),
            Act::GenForce => sbx::run_generate(&w, Seam::Cli, &RunOpts { force_flag: true, strace: strace.clone(), ..Default::default() }),
            Act::Build | Act::NoEventsThenBuild => sbx::run_generate(&w, Seam::Build, &RunOpts { strace: strace.clone(), ..Default::default() }),
            Act::GenFlagsOverConf => {
                let conf = w.join("tauri.conf.json");
                std::fs::write(&conf, format!("{{\"productName\":\"demo\",\"plugins\":{{\"typegen\":{{\"projectPath\":\"./src-tauri\",\"outputPath\":\"./conf-out\",\"validationLibrary\":\"{}\"}}}}}}", cfg.mode_name())).unwrap();
                let args: Vec<String> = vec!["tauri-typegen".into(), "generate".into(), "-p".into(), "./src-tauri".into(), "-o".into(), cfg.output_path.clone()];
                let r = run::spawn(Spawn { program: run::cli_binary(), args, cwd: &w, schedule_env: None, trace_file: None, strace: strace.clone() , hash_seed: None, fsize_limit: None});
                let _ = std::fs::remove_file(&conf);
                r
            }
            Act::InitAtRootConf => {
                let conf = w.join("tauri.conf.json");
                std::fs::write(&conf, "{\n  \"productName\": \"workspace\",\n  \"plugins\": { \"fs\": { \"scope\": [\"$APP\"] } }\n}\n").unwrap();
                let mut args: Vec<String> = vec!["tauri-typegen".into(), "init".into(), "-p".into(), "./src-tauri".into(), "-o".into(), "./tauri.conf.json".into(), "-g".into(), cfg.output_path.clone(), "-v".into(), cfg.mode_name().into()];
                if case.visualize {
                    args.push("--visualize-deps".into());
                }
                // (the file exists before the snapshot is compared: taken again here)
                let r = run::spawn(Spawn { program: run::cli_binary(), args, cwd: &w, schedule_env: None, trace_file: None, strace: strace.clone(), hash_seed: None, fsize_limit: None });
                r
            }
            Act::Init => {
                let mut args: Vec<String> = vec!["tauri-typegen".into(), "init".into(), "-p".into(), "./src-tauri".into(), "-g".into(), cfg.output_path.clone(), "-v".into(), cfg.mode_name().into()];
                if case.visualize {
                    args.push("--visualize-deps".into());
                }
                run::spawn(Spawn { program: run::cli_binary(), args, cwd: &w, schedule_env: None, trace_file: None, strace: strace.clone() , hash_seed: None, fsize_limit: None})
            }
        };
        runs += 1;
        outcomes.push(format!("{:?}:{}", act, r.status_string()));
        let mut after = snapshot_tree(&sb.root);
        after.remove("strace.log");
        let mut bad: Vec<String> = vec![];
        for (p, b) in &before {
            match after.get(p) {
                None => {
                    if !allowed_change(p, &out_rel, *act) {
                        bad.push(format!("deleted {}", p));
                    }
                }
                Some(a) if a != b => {
                    if !allowed_change(p, &out_rel, *act) {
                        bad.push(format!("modified {}", p));
                    }
                }
                _ => {}
            }
        }
        for p in after.keys() {
            if !before.contains_key(p) && !allowed_change(p, &out_rel, *act) {
                bad.push(format!("created {}", p));
            }
        }
        if case.strace {
            let log = std::fs::read_to_string(&strace_log).unwrap_or_default();
            let _ = std::fs::remove_file(&strace_log);
            let conf_path = w.join("src-tauri/tauri.conf.json");
            for (call, p) in mutated_paths(&log, &w) {
                let ok = p.starts_with(&od)
                    || od.starts_with(&p) // creating the output dir or its ancestors
                    || p.starts_with("/dev")
                    || p.starts_with("/proc")
                    || p == strace_log
                    || (*act == Act::Init && p == conf_path)
                    || (*act == Act::InitAtRootConf && p == w.join("tauri.conf.json"));
                if !ok {
                    bad.push(format!("syscall {} on {} (outside the output directory)", call, p.display()));
                }
            }
        }
        bad.sort();
        bad.dedup();
        if !bad.is_empty() {
            let mut fields_foreign: Vec<String> = vec![];
            for b in &bad {
                for f in FOREIGN {
                    if b.ends_with(&format!("/{}", f)) && !fields_foreign.contains(&f.to_string()) {
                        fields_foreign.push(f.to_string());
                    }
                }
            }
            vs.push(
                Violation::new(
                    "C16",
                    "foreign-file-touched",
                    format!(
                        "output dir {:?} pre-populated with {:?}; history {:?}; step {} ({:?}, {}) -> {}",
                        case.placement, case.foreign, case.history, step, act, r.status_string(), bad.join("; ")
                    ),
                    serde_json::to_value(case).unwrap(),
                )
                .field("action", format!("{:?}", act))
                .field("touched", if fields_foreign.is_empty() { bad.iter().map(|b| b.split('/').last().unwrap_or("").to_string()).collect::<BTreeSet<_>>().into_iter().collect::<Vec<_>>().join(",") } else { fields_foreign.join(",") })
                .field("mode", cfg.mode_name())
                .field("placement", format!("{:?}", case.placement))
                .rank((case.history.len() * 100 + case.foreign.len()) as u64),
            );
            break;
        }
    }
    (vs, runs, outcomes)
}

pub fn replay(case: &Value) -> Vec<Violation> {
    match serde_json::from_value::<Case>(case.clone()) {
        Ok(c) => eval(&c).0,
        Err(_) => vec![],
    }
}

fn histories(max_len: usize) -> Vec<Vec<Act>> {
    let mut out: Vec<Vec<Act>> = vec![];
    let mut level: Vec<Vec<Act>> = vec![vec![]];
    for _ in 0..max_len {
        let mut next = vec![];
        for h in &level {
            for a in ACTS {
                let mut h2 = h.clone();
                h2.push(a);
                next.push(h2);
            }
        }
        out.extend(next.iter().cloned());
        level = next;
    }
    out
}

pub fn run(tier: Tier) -> CheckResult {
    let mut res = CheckResult::new("C16", "model_checking");
    let deadline = tier_deadline(tier);
    let all: Vec<String> = FOREIGN.iter().map(|s| s.to_string()).collect();
    let mut foreign_sets: Vec<Vec<String>> = vec![vec![], all.clone()];
    for f in FOREIGN {
        foreign_sets.push(vec![f.to_string()]);
    }
    let pair_pool: Vec<&str> = if tier == Tier::Quick { NEAR.to_vec() } else { FOREIGN.to_vec() };
    for i in 0..pair_pool.len() {
        for j in i + 1..pair_pool.len() {
            foreign_sets.push(vec![pair_pool[i].to_string(), pair_pool[j].to_string()]);
        }
    }
    if tier == Tier::Thorough {
        for i in 0..NEAR.len() {
            for j in i + 1..NEAR.len() {
                for k in j + 1..NEAR.len() {
                    foreign_sets.push(vec![NEAR[i].into(), NEAR[j].into(), NEAR[k].into()]);
                }
            }
        }
    }
    let hist = histories(if tier == Tier::Quick { 2 } else { 3 });
    let mut cases: Vec<Case> = vec![];
    for (pi, placement) in PLACEMENTS.iter().enumerate() {
        for (fi, foreign) in foreign_sets.iter().enumerate() {
            for (hi, h) in hist.iter().enumerate() {
                // length-3 histories only on the full foreign set and the empty set
                if h.len() == 3 && !(foreign.is_empty() || foreign.len() == FOREIGN.len()) {
                    continue;
                }
                // quick: length-2 histories only for the empty set, the full set and singletons;
                // thorough: also for pairs of the names closest to the reserved ones
                if h.len() == 2 && foreign.len() == 2 && (tier == Tier::Quick || !foreign.iter().all(|f| NEAR.contains(&f.as_str()))) {
                    continue;
                }
                for zod in [false, true] {
                    // zod only changes file contents: quick runs zod on two placements
                    if tier == Tier::Quick && zod && pi >= 2 {
                        continue;
                    }
                    let visualize = (pi + fi + hi) % 4 == 0;
                    let strace = match tier {
                        Tier::Quick => (pi + fi + hi) % 7 == 0,
                        Tier::Thorough => (pi + fi + hi) % 2 == 0,
                    };
                    cases.push(Case {
                        placement: *placement,
                        foreign: foreign.clone(),
                        preexisting_outdir: (fi + hi) % 2 == 0,
                        zod,
                        visualize,
                        history: h.clone(),
                        strace,
                    });
                }
            }
        }
    }
    // init pointed at ./tauri.conf.json while the project path has one of its own
    for (pi, placement) in PLACEMENTS.iter().enumerate() {
        for h in [vec![Act::InitAtRootConf], vec![Act::Gen, Act::InitAtRootConf], vec![Act::InitAtRootConf, Act::Gen]] {
            for zod in [false, true] {
                cases.push(Case { placement: *placement, foreign: if pi % 2 == 0 { vec![] } else { all.clone() }, preexisting_outdir: pi % 2 == 1, zod, visualize: pi % 3 == 0, history: h.clone(), strace: zod });
            }
        }
    }
    // the output path runs through a symbolic link and back out of it
    for (fi, foreign) in foreign_sets.iter().enumerate().filter(|(_, f)| f.len() != 2) {
        for (hi, h) in hist.iter().enumerate().filter(|(_, h)| h.len() == 1 || (h.len() == 2 && tier == Tier::Thorough)) {
            for zod in [false, true] {
                if zod && (fi + hi) % 3 != 0 {
                    continue;
                }
                cases.push(Case { placement: Placement::ThroughLink, foreign: foreign.clone(), preexisting_outdir: (fi + hi) % 2 == 0, zod, visualize: (fi + hi) % 4 == 0, history: h.clone(), strace: (fi + hi) % 3 == 0 });
            }
        }
    }
    let results: Vec<Option<(Vec<Violation>, u64, Vec<String>)>> = cases
        .par_iter()
        .map(|c| if deadline.passed() { None } else { Some(eval(c)) })
        .collect();
    let mut runs = 0u64;
    let mut done = 0u64;
    let mut straced = 0u64;
    let mut outcomes: BTreeSet<String> = BTreeSet::new();
    let mut all_v = vec![];
    let mut exhaustive = true;
    for (c, r) in cases.iter().zip(results) {
        match r {
            None => exhaustive = false,
            Some((v, n, o)) => {
                runs += n;
                done += 1;
                if c.strace {
                    straced += n;
                }
                outcomes.extend(o);
                all_v.extend(v);
            }
        }
    }
    // primary: per (action, touched, mode) keep the simplest case
    all_v.sort_by_key(|v| v.rank);
    let mut seen = BTreeSet::new();
    for v in all_v {
        let k = format!("{}|{}|{}", v.fields["action"], v.fields["touched"], v.fields["mode"]);
        if seen.insert(k) {
            // placement is not part of the identity of the finding
            let mut v = v;
            v.fields.remove("placement");
            res.violations.push(v);
        } else {
            res.derived += 1;
        }
    }
    let nontrivial = cases.iter().filter(|c| !c.foreign.is_empty()).count() as u64;
    res.coverage.set("states", done);
    res.coverage.set("transitions", runs);
    res.coverage.set("traces_validated_against_impl", runs);
    res.coverage.set("evaluations", runs);
    res.coverage.set("distinct_nontrivial", nontrivial);
    res.coverage.set("runs_under_syscall_monitor", straced);
    res.coverage.set("distinct_outcomes", outcomes.len() as u64);
    res.coverage.set("outcomes", json!(outcomes));
    res.coverage.set("exhaustive", exhaustive);
    res.coverage.set("foreign_sets", foreign_sets.len() as u64);
    res.coverage.set("histories", hist.len() as u64);
    let mut sample_cases: Vec<&Case> = cases
        .iter()
        .filter(|c| c.history.len() >= 2 && !c.foreign.is_empty() && c.foreign.len() <= 2)
        .step_by(97)
        .take(3)
        .collect();
    if sample_cases.is_empty() {
        sample_cases = cases.iter().take(2).collect();
    }
    res.coverage.set("samples", json!(sample_cases));
    res.coverage.set("rule", "[round 7: output path ./ui/../gen-link through a symbolic link (the resolved directory is the output directory, a hand-written directory sits where the text-folded path points); init -o ./tauri.conf.json beside a project path with a tauri.conf.json of its own] state = whole sandbox tree (project, config files, bystanders, output directory pre-populated with a set of foreign entries); transition = one action of {generate, generate --force, build-script run, init, remove all commands + generate, remove all events + generate/build, generate with -p/-o flags against a discovered tauri.conf.json that names another directory} executed by the real binary / build path; invariant after every transition: every created/modified/deleted path lies directly in the output directory and bears a reserved generated name (or is the output directory / its ancestors being created, or the config file given to init); on a subset of runs a syscall monitor (strace) additionally requires every mutating syscall to address a path inside the output directory; a case is non-trivial when the output directory held at least one foreign entry");
    res.assumptions = vec!["reserved names as listed in the property statement".into(), "strace path resolution assumes the tool does not chdir (it does not)".into()];
    res
}
