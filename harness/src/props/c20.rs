//! C20 - dependency ordering routines are correct on every graph (seam F, exhaustive small scope).

use crate::core::*;
use crate::run::{explore_schedules, with_schedule, ChoicePoint, Schedule};
use rayon::prelude::*;
use serde_json::{json, Value};
use std::collections::{BTreeSet, HashSet};
use std::sync::atomic::{AtomicU64, Ordering};
use tauri_typegen::analysis::dependency_graph::TypeDependencyGraph;
use tauri_typegen::build::dependency_resolver::{
    Dependency, DependencyError, DependencyNode, DependencyNodeType, DependencyResolver,
    DependencyType,
};

const NAMES: [&str; 8] = ["A", "B", "C", "D", "E", "F", "G", "H"];

/// adjacency as bit matrix: bit (u*n+v) set = u depends on v
fn edges_of(n: usize, mask: u64) -> Vec<(usize, usize)> {
    let mut v = vec![];
    for u in 0..n {
        for w in 0..n {
            if mask >> (u * n + w) & 1 == 1 {
                v.push((u, w));
            }
        }
    }
    v
}

fn build_graph(n: usize, mask: u64) -> TypeDependencyGraph {
    let mut g = TypeDependencyGraph::new();
    for u in 0..n {
        let deps: HashSet<String> = (0..n)
            .filter(|w| mask >> (u * n + w) & 1 == 1)
            .map(|w| NAMES[w].to_string())
            .collect();
        if !deps.is_empty() {
            g.add_dependencies(NAMES[u].to_string(), deps);
        }
    }
    g
}

/// Tarjan-free SCC: with <= 5 nodes, reachability closure is simplest and obviously right.
fn reach(n: usize, mask: u64) -> Vec<u64> {
    // r[u] = bitset of nodes reachable from u by >= 1 edge
    let mut r: Vec<u64> = (0..n)
        .map(|u| (0..n).fold(0u64, |a, w| a | ((mask >> (u * n + w) & 1) << w)))
        .collect();
    loop {
        let mut changed = false;
        for u in 0..n {
            let mut nu = r[u];
            for w in 0..n {
                if r[u] >> w & 1 == 1 {
                    nu |= r[w];
                }
            }
            if nu != r[u] {
                r[u] = nu;
                changed = true;
            }
        }
        if !changed {
            break;
        }
    }
    r
}

fn check_topo(n: usize, mask: u64, requested: u64, result: &[String]) -> Option<String> {
    let r = reach(n, mask);
    let mut expected: u64 = 0;
    for u in 0..n {
        if requested >> u & 1 == 1 {
            expected |= 1 << u;
            expected |= r[u];
        }
    }
    let mut pos = vec![usize::MAX; n];
    for (i, name) in result.iter().enumerate() {
        let Some(idx) = NAMES.iter().position(|x| x == name) else {
            return Some(format!("unknown name {} in result", name));
        };
        if idx >= n {
            return Some(format!("foreign name {} in result", name));
        }
        if pos[idx] != usize::MAX {
            return Some(format!("{} appears twice", name));
        }
        pos[idx] = i;
    }
    for u in 0..n {
        let inres = pos[u] != usize::MAX;
        let exp = expected >> u & 1 == 1;
        if inres && !exp {
            return Some(format!("{} returned but neither requested nor reachable", NAMES[u]));
        }
        if !inres && exp {
            return Some(format!("{} requested/reachable but missing", NAMES[u]));
        }
    }
    for (u, v) in edges_of(n, mask) {
        if u == v || pos[u] == usize::MAX || pos[v] == usize::MAX {
            continue;
        }
        let same_scc = (r[u] >> v & 1 == 1) && (r[v] >> u & 1 == 1);
        if !same_scc && pos[v] >= pos[u] {
            return Some(format!(
                "{} depends on {} (not on a common cycle) but {} is ordered first",
                NAMES[u], NAMES[v], NAMES[u]
            ));
        }
    }
    None
}

fn run_topo(n: usize, mask: u64, requested: u64, s: &Schedule) -> (Vec<String>, Vec<ChoicePoint>) {
    let g = build_graph(n, mask);
    let req: HashSet<String> = (0..n)
        .filter(|u| requested >> u & 1 == 1)
        .map(|u| NAMES[u].to_string())
        .collect();
    with_schedule(s, || g.topological_sort_types(&req))
}

fn topo_case(n: usize, mask: u64, requested: u64, s: &Schedule) -> Value {
    json!({"routine":"topological_sort_types","n":n,"mask":mask,"requested":requested,"schedule":s.0,
           "edges": edges_of(n,mask).iter().map(|(u,v)| format!("{}->{}",NAMES[*u],NAMES[*v])).collect::<Vec<_>>()})
}

fn viol_topo(n: usize, mask: u64, requested: u64, s: &Schedule, msg: String, result: &[String]) -> Violation {
    Violation::new(
        "C20",
        "bad-type-order",
        format!(
            "edges {:?} requested {:?} schedule {:?}: result {:?}: {}",
            edges_of(n, mask)
                .iter()
                .map(|(u, v)| format!("{}->{}", NAMES[*u], NAMES[*v]))
                .collect::<Vec<_>>(),
            (0..n).filter(|u| requested >> u & 1 == 1).map(|u| NAMES[u]).collect::<Vec<_>>(),
            s.0,
            result,
            msg
        ),
        topo_case(n, mask, requested, s),
    )
    .field("routine", "topological_sort_types")
    .field("graph", format!("n{}m{}r{}", n, mask, requested))
    .rank((n as u64) * 1000 + (mask.count_ones() as u64) * 10 + s.0.len() as u64)
}

// ------------------------------- resolver -----------------------------------------------------

fn node(i: usize) -> DependencyNode {
    DependencyNode {
        name: NAMES[i].to_string(),
        path: format!("src/{}.rs", NAMES[i].to_lowercase()),
        node_type: if i % 2 == 0 {
            DependencyNodeType::Struct
        } else {
            DependencyNodeType::Enum
        },
    }
}

/// mult[(u*n+v)] in {0,1,2}: number of parallel edges u->v (u uses v)
fn run_resolver(
    n: usize,
    mult: &[u8],
    reversed_insertion: bool,
    s: &Schedule,
) -> (Result<Vec<DependencyNode>, DependencyError>, Vec<ChoicePoint>) {
    let mut r = DependencyResolver::new();
    for i in 0..n {
        r.add_node(node(i));
    }
    let mut deps = vec![];
    for u in 0..n {
        for v in 0..n {
            for _ in 0..mult[u * n + v] {
                deps.push(Dependency {
                    from: node(u),
                    to: node(v),
                    dependency_type: DependencyType::Field,
                });
            }
        }
    }
    if reversed_insertion {
        deps.reverse();
    }
    for d in deps {
        r.add_dependency(d);
    }
    with_schedule(s, || r.resolve_build_order())
}

fn check_resolver(
    n: usize,
    mult: &[u8],
    res: &Result<Vec<DependencyNode>, DependencyError>,
) -> Option<String> {
    let mask = (0..n * n).fold(0u64, |a, i| a | (((mult[i] > 0) as u64) << i));
    let r = reach(n, mask);
    let cyclic = (0..n).any(|u| r[u] >> u & 1 == 1);
    match res {
        Ok(order) => {
            if cyclic {
                return Some("graph is cyclic but an order was returned".into());
            }
            let mut pos = vec![usize::MAX; n];
            for (i, nd) in order.iter().enumerate() {
                let Some(idx) = NAMES.iter().position(|x| *x == nd.name) else {
                    return Some(format!("foreign node {}", nd.name));
                };
                if idx >= n || *nd != node(idx) {
                    return Some(format!("foreign node {}", nd.name));
                }
                if pos[idx] != usize::MAX {
                    return Some(format!("{} appears twice", nd.name));
                }
                pos[idx] = i;
            }
            if let Some(m) = (0..n).find(|i| pos[*i] == usize::MAX) {
                return Some(format!("{} missing from order", NAMES[m]));
            }
            for (u, v) in edges_of(n, mask) {
                if pos[v] >= pos[u] {
                    return Some(format!(
                        "{} uses {} but is ordered before it",
                        NAMES[u], NAMES[v]
                    ));
                }
            }
            None
        }
        Err(DependencyError::CircularDependency(_)) => {
            if cyclic {
                None
            } else {
                Some("graph is acyclic but CircularDependency was reported".into())
            }
        }
        Err(e) => Some(format!("unexpected error {}", e)),
    }
}

fn resolver_case(n: usize, mult: &[u8], rev: bool, s: &Schedule) -> Value {
    json!({"routine":"resolve_build_order","n":n,"mult":mult,"reversed_insertion":rev,"schedule":s.0})
}

fn viol_resolver(n: usize, mult: &[u8], rev: bool, s: &Schedule, msg: String, res: &Result<Vec<DependencyNode>, DependencyError>) -> Violation {
    let shown = match res {
        Ok(o) => format!("Ok({:?})", o.iter().map(|n| n.name.clone()).collect::<Vec<_>>()),
        Err(e) => format!("Err({})", e),
    };
    Violation::new(
        "C20",
        "bad-build-order",
        format!("n={} multiplicities={:?} reversed={} schedule={:?}: {} : {}", n, mult, rev, s.0, shown, msg),
        resolver_case(n, mult, rev, s),
    )
    .field("routine", "resolve_build_order")
    .field("graph", format!("n{}m{:?}", n, mult))
    .rank((n as u64) * 1000 + mult.iter().map(|x| *x as u64).sum::<u64>() * 10 + s.0.len() as u64)
}

// ------------------------------- driver -------------------------------------------------------

pub fn replay(case: &Value) -> Vec<Violation> {
    let n = case["n"].as_u64().unwrap_or(0) as usize;
    let s = Schedule(
        case["schedule"]
            .as_array()
            .map(|a| a.iter().map(|x| x.as_u64().unwrap_or(0) as usize).collect())
            .unwrap_or_default(),
    );
    if case["routine"] == "topological_sort_types" {
        let mask = case["mask"].as_u64().unwrap_or(0);
        let req = case["requested"].as_u64().unwrap_or(0);
        let (res, _) = run_topo(n, mask, req, &s);
        check_topo(n, mask, req, &res)
            .map(|m| vec![viol_topo(n, mask, req, &s, m, &res)])
            .unwrap_or_default()
    } else {
        let mult: Vec<u8> = case["mult"]
            .as_array()
            .map(|a| a.iter().map(|x| x.as_u64().unwrap_or(0) as u8).collect())
            .unwrap_or_default();
        let rev = case["reversed_insertion"].as_bool().unwrap_or(false);
        let (res, _) = run_resolver(n, &mult, rev, &s);
        check_resolver(n, &mult, &res)
            .map(|m| vec![viol_resolver(n, &mult, rev, &s, m, &res)])
            .unwrap_or_default()
    }
}

struct Stats {
    calls: AtomicU64,
    schedules: AtomicU64,
    graphs: AtomicU64,
    nontrivial: AtomicU64,
    replays: AtomicU64,
    capped: AtomicU64,
}

pub fn run(tier: Tier) -> CheckResult {
    let mut res = CheckResult::new("C20", "model_checking");
    let deadline = tier_deadline(tier);
    let st = Stats {
        calls: AtomicU64::new(0),
        schedules: AtomicU64::new(0),
        graphs: AtomicU64::new(0),
        nontrivial: AtomicU64::new(0),
        replays: AtomicU64::new(0),
        capped: AtomicU64::new(0),
    };
    let outcomes: std::sync::Mutex<BTreeSet<String>> = std::sync::Mutex::new(BTreeSet::new());
    let violations: std::sync::Mutex<Vec<Violation>> = std::sync::Mutex::new(vec![]);
    let mut samples: Vec<Value> = vec![];

    // ---- topological_sort_types ----
    // (n, edge-count cap, deviation bound) slices, smallest first
    let slices: Vec<(usize, Option<u32>, Option<usize>)> = match tier {
        Tier::Quick => vec![(1, None, None), (2, None, None), (3, None, None), (4, Some(7), Some(1)), (5, Some(4), Some(0))],
        Tier::Thorough => vec![
            (1, None, None),
            (2, None, None),
            (3, None, None),
            (4, None, Some(1)),
            (4, Some(6), Some(2)),
            (5, Some(5), Some(1)),
        ],
    };
    let mut completed_slices = vec![];
    for (n, edge_cap, bound) in &slices {
        let (n, edge_cap, bound) = (*n, *edge_cap, *bound);
        let total: u64 = 1u64 << (n * n);
        let masks: Vec<u64> = (0..total)
            .filter(|m| edge_cap.is_none_or(|c| m.count_ones() <= c))
            .collect();
        let stopped = std::sync::atomic::AtomicBool::new(false);
        masks.par_iter().for_each(|&mask| {
            if deadline.passed() {
                stopped.store(true, Ordering::Relaxed);
                return;
            }
            st.graphs.fetch_add(1, Ordering::Relaxed);
            let mut local_outcomes: BTreeSet<String> = BTreeSet::new();
            for requested in 1..(1u64 << n) {
                let mut first: Option<Vec<String>> = None;
                let mut nontrivial = false;
                let (count, complete) = explore_schedules(bound, 20_000, |s| {
                    let (r, trace) = run_topo(n, mask, requested, s);
                    st.calls.fetch_add(1, Ordering::Relaxed);
                    if trace.iter().filter(|c| c.n >= 2).count() >= 1 {
                        nontrivial = true;
                    }
                    if let Some(msg) = check_topo(n, mask, requested, &r) {
                        violations
                            .lock()
                            .unwrap()
                            .push(viol_topo(n, mask, requested, s, msg, &r));
                    }
                    if first.is_none() {
                        // replay-divergence: same schedule again on a fresh graph (fresh RandomState)
                        let (r2, _) = run_topo(n, mask, requested, s);
                        st.replays.fetch_add(1, Ordering::Relaxed);
                        if r2 != r {
                            violations.lock().unwrap().push(
                                Violation::new(
                                    "C20",
                                    "replay-divergence",
                                    format!("same schedule gave {:?} then {:?}", r, r2),
                                    topo_case(n, mask, requested, s),
                                )
                                .field("routine", "topological_sort_types")
                                .field("graph", format!("n{}m{}r{}", n, mask, requested)),
                            );
                        }
                        first = Some(r.clone());
                    }
                    if n <= 3 {
                        local_outcomes.insert(r.join(">"));
                    }
                    trace
                });
                st.schedules.fetch_add(count as u64, Ordering::Relaxed);
                if !complete {
                    st.capped.fetch_add(1, Ordering::Relaxed);
                }
                if nontrivial {
                    st.nontrivial.fetch_add(1, Ordering::Relaxed);
                }
            }
            if !local_outcomes.is_empty() {
                outcomes.lock().unwrap().extend(local_outcomes);
            }
        });
        let done = !stopped.load(Ordering::Relaxed);
        completed_slices.push(json!({"routine":"topological_sort_types","nodes":n,"max_edges":edge_cap,"deviation_bound":bound.map(|b| json!(b)).unwrap_or(json!("unbounded (full product)")),"graphs":masks.len(),"completed":done}));
        if !done {
            break;
        }
    }
    // long dependency chains (depth is what small graphs cannot have): the path on 5..7 (8) nodes under
    // every assignment of names to positions, requested as a whole and from each single node
    {
        fn perms(n: usize) -> Vec<Vec<usize>> {
            if n == 1 {
                return vec![vec![0]];
            }
            let mut out = vec![];
            for p in perms(n - 1) {
                for i in 0..n {
                    let mut q = p.clone();
                    q.insert(i, n - 1);
                    out.push(q);
                }
            }
            out
        }
        let max_chain = if tier == Tier::Quick { 7 } else { 8 };
        for n in 5..=max_chain {
            let ps = perms(n);
            ps.par_iter().for_each(|p| {
                if deadline.passed() {
                    return;
                }
                // p[k] depends on p[k+1]
                let mut mask = 0u64;
                for k in 0..n - 1 {
                    mask |= 1u64 << (p[k] * n + p[k + 1]);
                }
                let mut reqs: Vec<u64> = vec![(1u64 << n) - 1];
                reqs.extend((0..n).map(|i| 1u64 << i));
                for requested in reqs {
                    let s = Schedule::default();
                    let (r, _) = run_topo(n, mask, requested, &s);
                    st.calls.fetch_add(1, Ordering::Relaxed);
                    if let Some(msg) = check_topo(n, mask, requested, &r) {
                        violations.lock().unwrap().push(viol_topo(n, mask, requested, &s, msg, &r));
                    }
                }
                st.graphs.fetch_add(1, Ordering::Relaxed);
            });
            completed_slices.push(json!({"routine":"topological_sort_types","nodes":n,"shape":"path, every naming","graphs":ps.len(),"completed":!deadline.passed()}));
        }
    }
    samples.push(topo_case(3, 0b010_001_100, 0b001, &Schedule(vec![0, 1])));
    samples.push(topo_case(4, 0b0000_1000_0100_0010, 0b1000, &Schedule(vec![2])));

    // ---- resolve_build_order ----
    let resolver_graphs = AtomicU64::new(0);
    let resolver_calls = AtomicU64::new(0);
    let mut resolver_slices = vec![];
    {
        // n <= 3 with multiplicities {0,1,2}; n = 4 with {0,1} (thorough: all 65 536; quick: <= 5 edges)
        let mut cases: Vec<(usize, Vec<u8>)> = vec![];
        for n in 1..=3usize {
            let cells = n * n;
            let total = 3u64.pow(cells as u32);
            for code in 0..total {
                let mut c = code;
                let mut m = vec![0u8; cells];
                for cell in m.iter_mut() {
                    *cell = (c % 3) as u8;
                    c /= 3;
                }
                cases.push((n, m));
            }
        }
        resolver_slices.push(json!({"routine":"resolve_build_order","nodes":"1..3","edge_multiplicity":"0..2","graphs":cases.len()}));
        let n4_before = cases.len();
        for mask in 0..(1u64 << 16) {
            if tier == Tier::Quick && mask.count_ones() > 8 {
                continue;
            }
            let m: Vec<u8> = (0..16).map(|i| (mask >> i & 1) as u8).collect();
            cases.push((4, m));
        }
        resolver_slices.push(json!({"routine":"resolve_build_order","nodes":4,"edge_multiplicity":"0..1","max_edges": if tier==Tier::Quick {json!(8)} else {json!(16)},"graphs":cases.len()-n4_before}));
        if tier == Tier::Thorough {
            // one duplicated edge on every 4-node graph with <= 6 edges
            let before = cases.len();
            for mask in 0..(1u64 << 16) {
                if mask.count_ones() > 6 {
                    continue;
                }
                for i in 0..16 {
                    if mask >> i & 1 == 1 {
                        let mut m: Vec<u8> = (0..16).map(|j| (mask >> j & 1) as u8).collect();
                        m[i] = 2;
                        cases.push((4, m));
                    }
                }
            }
            resolver_slices.push(json!({"routine":"resolve_build_order","nodes":4,"edge_multiplicity":"one edge doubled","max_edges":6,"graphs":cases.len()-before}));
        }
        let stopped = std::sync::atomic::AtomicBool::new(false);
        cases.par_iter().for_each(|(n, mult)| {
            if deadline.passed() {
                stopped.store(true, Ordering::Relaxed);
                return;
            }
            resolver_graphs.fetch_add(1, Ordering::Relaxed);
            for rev in [false, true] {
                let mut nontrivial = false;
                let mut seen: BTreeSet<String> = BTreeSet::new();
                let (count, _complete) = explore_schedules(None, 1000, |s| {
                    let (r, trace) = run_resolver(*n, mult, rev, s);
                    resolver_calls.fetch_add(1, Ordering::Relaxed);
                    if trace.iter().any(|c| c.n >= 2) {
                        nontrivial = true;
                    }
                    if let Some(msg) = check_resolver(*n, mult, &r) {
                        violations
                            .lock()
                            .unwrap()
                            .push(viol_resolver(*n, mult, rev, s, msg, &r));
                    }
                    if *n <= 3 {
                        seen.insert(match &r {
                            Ok(o) => o.iter().map(|x| x.name.clone()).collect::<Vec<_>>().join(">"),
                            Err(_) => "cycle".into(),
                        });
                    }
                    trace
                });
                st.schedules.fetch_add(count as u64, Ordering::Relaxed);
                if nontrivial {
                    st.nontrivial.fetch_add(1, Ordering::Relaxed);
                }
                if !seen.is_empty() {
                    outcomes.lock().unwrap().extend(seen.into_iter().map(|s| format!("R:{}", s)));
                }
            }
        });
        if stopped.load(Ordering::Relaxed) {
            resolver_slices.push(json!({"stopped_by_deadline":true}));
        }
    }
    samples.push(resolver_case(3, &[0, 1, 0, 0, 0, 2, 0, 0, 0], false, &Schedule(vec![1])));

    let hit_deadline = deadline.passed();
    res.violations = violations.into_inner().unwrap();
    let calls = st.calls.load(Ordering::Relaxed) + resolver_calls.load(Ordering::Relaxed);
    res.coverage.set("states", st.graphs.load(Ordering::Relaxed) + resolver_graphs.load(Ordering::Relaxed));
    res.coverage.set("transitions", calls);
    res.coverage.set("schedules", st.schedules.load(Ordering::Relaxed));
    res.coverage.set("traces_validated_against_impl", calls + st.replays.load(Ordering::Relaxed));
    res.coverage.set("evaluations", calls);
    res.coverage.set("distinct_nontrivial", st.nontrivial.load(Ordering::Relaxed));
    res.coverage.set("distinct_outcomes_small_graphs", outcomes.lock().unwrap().len() as u64);
    res.coverage.set("rule", "states = labelled digraphs (incl. self-loops) built into the real TypeDependencyGraph / DependencyResolver; transitions = calls of the real routine, one per (graph, requested subset, iteration-order schedule); a (graph, subset) case is non-trivial when at least one hooked hash iteration had >= 2 elements to order; every call's result is judged by an independent reachability/SCC oracle");
    res.coverage.set("slices", json!([completed_slices, resolver_slices]));
    res.coverage.set("schedule_cap_hits", st.capped.load(Ordering::Relaxed));
    res.coverage.set("replay_divergence_reexecutions", st.replays.load(Ordering::Relaxed));
    res.coverage.set("samples", json!(samples));
    res.coverage.set("exhaustive", !hit_deadline && st.capped.load(Ordering::Relaxed) == 0);
    res.coverage.set("hooks_enabled", crate::run::HOOKS_ENABLED);
    if hit_deadline {
        res.coverage.set("cap_hit", "wall-clock budget reached; slices list what completed");
    }
    res.assumptions = vec![
        "iteration orders are owned through the verif-hooks sites S5/S6/S17; unhooked hash iterations are covered only by the replay re-execution".into(),
        "graphs larger than the listed slices are not covered".into(),
    ];
    res
}
