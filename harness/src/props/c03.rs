//! C03 - exactly one wrapper per discovered command, invoking exactly its Rust name.

use crate::core::*;
use crate::gen::Project;
use crate::modinfo;
use crate::run::{self, run_lib_default, Cfg, LibStatus, Sandbox, Schedule};
use crate::ts::{self, Expr, Type};
use rayon::prelude::*;
use serde::{Deserialize, Serialize};
use serde_json::{json, Value};
use std::collections::{BTreeMap, BTreeSet};

/// (source text with `NAME` placeholder, is a command?)
pub const ITEMS: [(&str, bool); 15] = [
    ("#[tauri::command]\npub fn NAME() -> i32 { 1 }\n", true),
    ("#[command]\nfn NAME() {}\n", true),
    ("#[tauri::command(async)]\npub async fn NAME(x: i32) -> String { String::new() }\n", true),
    ("#[tauri::command(rename_all = \"snake_case\")]\npub(crate) fn NAME(a_b: i32) -> Vec<i32> { vec![a_b] }\n", true),
    ("/// Documented command.\n/// Second line.\n#[allow(unused)]\n#[tauri::command]\n#[inline]\npub async fn NAME() -> Result<String, String> { Ok(String::new()) }\n", true),
    ("#[tauri::command]\npub fn NAME<R: tauri::Runtime>(app: tauri::AppHandle<R>, x: i32) -> Result<String, String> { let _ = (app, x); Err(String::new()) }\n", true),
    ("#[doc = \"attr doc\"]\n#[command]\n#[must_use]\npub(super) async fn NAME(flag: bool) -> bool { flag }\n", true),
    ("#[other::command]\npub fn NAME() -> i32 { 2 }\n", false),
    ("pub struct HolderNAME;\nimpl HolderNAME {\n    #[tauri::command]\n    pub fn NAME(&self) -> i32 { 3 }\n}\n", false),
    ("pub mod inner_NAME {\n    #[tauri::command]\n    pub fn NAME() -> i32 { 4 }\n}\n", false),
    ("pub fn NAME() -> i32 { 5 }\n", false),
    ("#[cfg_attr(feature = \"x\", tauri::command)]\npub fn NAME() -> i32 { 6 }\n", false),
    ("pub const C_NAME: &str = \"#[tauri::command] fn fake() {}\";\nmacro_rules! m_NAME { () => { #[tauri::command] fn NAME() {} }; }\n", false),
    ("#[tauri::command]\npub fn NAME(on_event: tauri::ipc::Channel<String>) { let _ = on_event; }\n", true),
    ("#[tauri::commands]\npub fn NAME() -> i32 { 7 }\n#[tauri::ipc::command]\npub fn NAME_b() -> i32 { 8 }\n#[command::tauri]\npub fn NAME_c() -> i32 { 9 }\n", false),
];

/// two commands whose TypeScript names coincide (`NAME_x_y` / `NAME_x__y`): each still needs its wrapper
pub const SAME_CAMEL: &str = "#[tauri::command]\npub fn NAME_x_y() -> i32 { 1 }\n#[tauri::command]\npub fn NAME_x__y() -> i32 { 2 }\n";

pub const POSITIONS: [&str; 4] = ["src/lib.rs", "src/a/mod.rs", "src/a/b/c/deep.rs", "src/z_last.rs"];

#[derive(Debug, Clone, Serialize, Deserialize)]
pub struct Case {
    /// per file (index into POSITIONS): item indices
    pub files: Vec<(usize, Vec<usize>)>,
    pub decoy_target: bool,
    pub decoy_git: bool,
    pub decoy_txt: bool,
    pub unparsable: bool,
    /// the project directory itself lies below a directory called `target`
    pub under_target_dir: bool,
    /// index (into `files`) of a source file that is a symbolic link to a file outside the project
    #[serde(default)]
    pub symlinked: Option<usize>,
    pub zod: bool,
    /// that many extra source files, one command each, spread over directories of depth 0..3 and one of depth 10
    #[serde(default)]
    pub many: usize,
    /// one more file with two commands whose camelCase names coincide
    #[serde(default)]
    pub same_camel: bool,
    /// two more files (in different directories) that each hold a command function of the same Rust
    /// name with a different signature: two annotated functions, two wrappers (whether the module
    /// then compiles is C02's business)
    #[serde(default)]
    pub same_name: bool,
    /// the project directory itself is called like an excluded directory (`apps/target`,
    /// `apps/.git`): the exclusion concerns directories below the project path, not the path
    #[serde(default)]
    pub project_dir: Option<String>,
}

pub const SAME_NAME: &str = "get_status";

impl Case {
    pub fn build(&self) -> (Project, BTreeSet<String>) {
        let mut files = vec![];
        let mut expected = BTreeSet::new();
        for (pos, items) in &self.files {
            let mut s = String::from("use tauri::{AppHandle, Runtime};\nuse tauri::command;\n\n");
            for it in items {
                let name = format!("f{}_i{}", pos, it);
                let (src, is_cmd) = ITEMS[*it];
                s.push_str(&src.replace("NAME", &name));
                s.push('\n');
                if is_cmd {
                    expected.insert(name);
                }
            }
            files.push((POSITIONS[*pos].to_string(), s));
        }
        for i in 0..self.many {
            let dir = ["src", "src/mods", "src/mods/deep", "src/mods/deep/er", "src/l1/l2/l3/l4/l5/l6/l7/l8/l9"][i % 5];
            let name = format!("many_{}", i);
            files.push((format!("{}/m{:02}.rs", dir, i), format!("#[tauri::command]\npub fn {}(a: i32) -> i32 {{ a }}\npub fn helper_{}() {{}}\n", name, i)));
            expected.insert(name);
        }
        if self.same_camel {
            files.push(("src/twins.rs".into(), SAME_CAMEL.replace("NAME", "twin")));
            expected.insert("twin_x_y".to_string());
            expected.insert("twin_x__y".to_string());
        }
        if self.same_name {
            files.push(("src/admin/mod.rs".into(), format!("#[tauri::command]\npub fn {}() -> Result<u32, String> {{ Ok(1) }}\n#[tauri::command]\npub fn admin_only() -> i32 {{ 1 }}\n", SAME_NAME)));
            files.push(("src/user/mod.rs".into(), format!("#[tauri::command]\npub async fn {}(verbose: bool) -> Vec<String> {{ let _ = verbose; vec![] }}\n#[tauri::command]\npub fn user_only() -> i32 {{ 1 }}\n", SAME_NAME)));
            expected.insert(SAME_NAME.to_string());
            expected.insert("admin_only".to_string());
            expected.insert("user_only".to_string());
        }
        let mut links = vec![];
        if let Some(k) = self.symlinked {
            if k < files.len() {
                links.push(files.remove(k));
            }
        }
        let cmd = "#[tauri::command]\npub fn decoy_command() -> i32 { 0 }\n";
        if self.decoy_target {
            files.push(("target/debug/build/gen.rs".into(), cmd.into()));
            files.push(("src/target/nested.rs".into(), cmd.replace("decoy_command", "decoy_nested_target")));
        }
        if self.decoy_git {
            files.push((".git/hooks/sample.rs".into(), cmd.replace("decoy_command", "decoy_git")));
        }
        if self.decoy_txt {
            files.push(("src/notes.txt".into(), cmd.replace("decoy_command", "decoy_txt")));
            files.push(("src/lib.rs.bak".into(), cmd.replace("decoy_command", "decoy_bak")));
        }
        if self.unparsable {
            files.push(("src/broken.rs".into(), "#[tauri::command]\npub fn broken_command( -> i32 { 0 \n".into()));
        }
        (Project { files, links }, expected)
    }
}

struct Observed {
    /// invoke literal -> wrapper function names
    by_command: BTreeMap<String, Vec<String>>,
    exported_functions: Vec<String>,
    problems: Vec<String>,
}

fn observe(files: &BTreeMap<String, String>) -> Result<Observed, String> {
    let mut o = Observed { by_command: BTreeMap::new(), exported_functions: vec![], problems: vec![] };
    let Some(src) = files.get("commands.ts") else {
        return Ok(o);
    };
    let m = ts::parse_module(src).map_err(|e| format!("commands.ts: {}", e))?;
    // (walk the items themselves: two wrappers may carry the same name - that is C02's business -
    // and a by-name table would show only one of them)
    struct D<'a> {
        name: String,
        f: &'a ts::Function,
    }
    let decls: Vec<D> = m.items.iter().filter_map(|it| if let ts::Item::Func { exported: true, func } = it { Some(D { name: func.name.clone().unwrap_or_default(), f: func }) } else { None }).collect();
    for d in decls.iter() {
        o.exported_functions.push(d.name.clone());
        let f = d.f;
        let calls = modinfo::calls_of(f, "invoke");
        if calls.len() != 1 {
            o.problems.push(format!("wrapper {} contains {} invoke calls", d.name, calls.len()));
        }
        for c in calls {
            match c.args.first() {
                Some(Expr::Str(s)) => o.by_command.entry(s.clone()).or_default().push(d.name.clone()),
                other => o.problems.push(format!("wrapper {}: invoke's first argument is not a string literal: {:?}", d.name, other)),
            }
        }
        match &f.ret {
            Some(Type::Ref { name, args }) if name == &vec!["Promise".to_string()] && args.len() == 1 => {}
            other => o.problems.push(format!("wrapper {} does not return a Promise: {:?}", d.name, other)),
        }
        if !f.is_async {
            // a non-async function returning invoke(...) is equally fine; nothing to check
        }
    }
    Ok(o)
}

fn run_case_project(case: &Case, project: &Project) -> (run::LibRun, bool) {
    if !case.under_target_dir && case.project_dir.is_none() {
        return (run_lib_default(project, &Cfg::mode(case.zod)), true);
    }
    // project placed at <sandbox>/target/app (or at the directory the case names)
    let sb = Sandbox::new();
    let proj_dir = sb.path(case.project_dir.as_deref().unwrap_or("target/app"));
    let out_dir = sb.path("out");
    project.write_to(&proj_dir).unwrap();
    let gc = Cfg::mode(case.zod).to_generate_config(&proj_dir, &out_dir);
    let (status, trace) = run::with_schedule(&Schedule::default(), || {
        match std::panic::catch_unwind(std::panic::AssertUnwindSafe(|| tauri_typegen::generate_from_config(&gc).map_err(|e| e.to_string()))) {
            Ok(Ok(f)) => LibStatus::Ok(f),
            Ok(Err(e)) => LibStatus::Err(e),
            Err(_) => LibStatus::Panic(run::take_panic_msg().unwrap_or_default()),
        }
    });
    let files = run::read_out_dir(&out_dir);
    (run::LibRun { status, files, trace }, true)
}

pub fn eval(case: &Case) -> (Vec<Violation>, bool, Option<String>) {
    let (project, expected) = case.build();
    let (run, _) = run_case_project(case, &project);
    if !run.ok() {
        return (
            vec![mk(case, "run-failed", format!("the tool did not accept the project: {}", run.status_string()))],
            false,
            None,
        );
    }
    let obs = match observe(&run.files) {
        Ok(o) => o,
        Err(e) => return (vec![], true, Some(e)),
    };
    let mut vs = vec![];
    let got: BTreeSet<String> = obs.by_command.keys().cloned().collect();
    let missing: Vec<&String> = expected.difference(&got).collect();
    let extra: Vec<&String> = got.difference(&expected).collect();
    if !missing.is_empty() {
        vs.push(mk(case, "missing-wrapper", format!("no wrapper invokes {:?}; commands.ts invokes {:?}", missing, got)));
    }
    if !extra.is_empty() {
        vs.push(mk(case, "extra-wrapper", format!("wrapper(s) for non-commands {:?}", extra)));
    }
    for (cmd, ws) in &obs.by_command {
        let want = if case.same_name && cmd == SAME_NAME { 2 } else { 1 };
        if ws.len() != want {
            vs.push(mk(case, if ws.len() > want { "duplicate-wrapper" } else { "missing-wrapper" }, format!("{} function(s) annotated as command are called {}, wrappers invoking that name: {:?}", want, cmd, ws)));
        }
    }
    if obs.exported_functions.len() != obs.by_command.values().map(|v| v.len()).sum::<usize>() {
        vs.push(mk(case, "wrapper-shape", format!("exported functions {:?} vs invoke sites {:?}", obs.exported_functions, obs.by_command)));
    }
    for p in &obs.problems {
        vs.push(mk(case, "wrapper-shape", p.clone()));
    }
    // differential isolation: the unparsable file must not change anything else
    if case.unparsable {
        let mut c2 = case.clone();
        c2.unparsable = false;
        let (p2, _) = c2.build();
        let (r2, _) = run_case_project(&c2, &p2);
        let a: BTreeMap<_, _> = run.files.iter().map(|(k, v)| (k.clone(), run::strip_timestamp(v))).collect();
        let b: BTreeMap<_, _> = r2.files.iter().map(|(k, v)| (k.clone(), run::strip_timestamp(v))).collect();
        if a != b {
            vs.push(mk(case, "bad-file-not-isolated", "output with the unparsable file present differs from the output without it".into()));
        }
    }
    (vs, true, None)
}

fn mk(case: &Case, class: &str, detail: String) -> Violation {
    let items: BTreeSet<usize> = case.files.iter().flat_map(|(_, its)| its.iter().copied()).collect();
    Violation::new("C03", class, format!("{:?}: {}", case, detail), serde_json::to_value(case).unwrap())
        .field("items", items.iter().map(|i| i.to_string()).collect::<Vec<_>>().join(","))
        .field("n_files", case.files.len().to_string())
        .field("under_target_dir", case.under_target_dir.to_string())
        .field("symlinked", case.symlinked.is_some().to_string())
        .field("mode", if case.zod { "zod" } else { "none" })
        .rank((case.files.len() * 100 + items.len() * 10 + case.unparsable as usize) as u64)
}

pub fn replay(case: &Value) -> Vec<Violation> {
    serde_json::from_value::<Case>(case.clone()).map(|c| eval(&c).0).unwrap_or_default()
}

fn subsets(n: usize, max: usize) -> Vec<Vec<usize>> {
    let mut out = vec![vec![]];
    for size in 1..=max {
        fn rec(start: usize, n: usize, size: usize, cur: &mut Vec<usize>, out: &mut Vec<Vec<usize>>) {
            if cur.len() == size {
                out.push(cur.clone());
                return;
            }
            for i in start..n {
                cur.push(i);
                rec(i + 1, n, size, cur, out);
                cur.pop();
            }
        }
        rec(0, n, size, &mut vec![], &mut out);
    }
    out
}

pub fn run(tier: Tier) -> CheckResult {
    let mut res = CheckResult::new("C03", "exploration");
    let deadline = tier_deadline(tier);
    let n = ITEMS.len();
    let mut layouts: Vec<Vec<(usize, Vec<usize>)>> = vec![];
    // one file: every item subset up to size 4 (quick) / 5 (thorough; size 5 at one position each)
    for sub in subsets(n, if tier == Tier::Quick { 4 } else { 5 }) {
        for pos in 0..POSITIONS.len() {
            if sub.len() == 5 && pos != sub[0] % POSITIONS.len() {
                continue;
            }
            layouts.push(vec![(pos, sub.clone())]);
        }
    }
    // two files: all pairs of subsets of size <= 2 (quick: at most 3 items in all) over position pairs
    let small = subsets(n, 2);
    for (pa, pb) in [(0, 1), (0, 2), (1, 2), (2, 3)] {
        for a in &small {
            for b in &small {
                if tier == Tier::Quick && a.len() + b.len() > 3 {
                    continue;
                }
                layouts.push(vec![(pa, a.clone()), (pb, b.clone())]);
            }
        }
    }
    // three / four files: singletons
    let singles = subsets(n, 1);
    let reduced: Vec<Vec<usize>> = singles.clone();
    for a in &reduced {
        for b in &reduced {
            for c in &reduced {
                layouts.push(vec![(0, a.clone()), (1, b.clone()), (2, c.clone())]);
            }
        }
    }
    if tier == Tier::Thorough {
        let r4: Vec<Vec<usize>> = singles.iter().filter(|s| s.is_empty() || [0, 1, 4, 7, 8, 9].contains(&s[0])).cloned().collect();
        for a in &r4 {
            for b in &r4 {
                for c in &r4 {
                    for d in &r4 {
                        layouts.push(vec![(0, a.clone()), (1, b.clone()), (2, c.clone()), (3, d.clone())]);
                    }
                }
            }
        }
    }
    let mut cases: Vec<Case> = vec![];
    for (i, l) in layouts.iter().enumerate() {
        // decoy dimensions: all 16 combinations are cycled through deterministically; every layout
        // gets the all-decoys and the no-decoys variant in thorough
        let combos: Vec<usize> = if tier == Tier::Thorough { (0..16).collect() } else { vec![i % 16, 15, 0] };
        let mut seen = BTreeSet::new();
        for c in combos {
            if !seen.insert(c) {
                continue;
            }
            cases.push(Case {
                files: l.clone(),
                decoy_target: c & 1 != 0,
                decoy_git: c & 2 != 0,
                decoy_txt: c & 4 != 0,
                unparsable: c & 8 != 0,
                under_target_dir: false,
                // every third layout has one of its files symlinked in from outside the project
                symlinked: if i % 3 == 2 { Some(i % l.len()) } else { None },
                zod: i % 2 == 1,
                many: 0,
                same_camel: false,
                same_name: false,
                project_dir: None,
            });
        }
    }
    // two commands whose TypeScript names coincide: both keep their wrapper (that the two wrappers
    // then share a name is C02's recorded finding)
    for zod in [false, true] {
        cases.push(Case { files: vec![], decoy_target: false, decoy_git: false, decoy_txt: false, unparsable: false, under_target_dir: false, symlinked: None, zod, many: 0, same_camel: true, same_name: false, project_dir: None });
        cases.push(Case { files: vec![], decoy_target: false, decoy_git: false, decoy_txt: false, unparsable: false, under_target_dir: false, symlinked: None, zod, many: 0, same_camel: false, same_name: true, project_dir: None });
        cases.push(Case { files: vec![(0, vec![0, 2]), (3, vec![1])], decoy_target: false, decoy_git: true, decoy_txt: false, unparsable: true, under_target_dir: false, symlinked: None, zod, many: 2, same_camel: true, same_name: true, project_dir: None });
        cases.push(Case { files: vec![(0, vec![0, 2]), (1, vec![1])], decoy_target: true, decoy_git: false, decoy_txt: false, unparsable: false, under_target_dir: false, symlinked: None, zod, many: 3, same_camel: true, same_name: false, project_dir: None });
    }
    // many source files: every count from 5 to 40 (quick) / 96 (thorough), one command per file, alone
    // and next to a two-file layout with decoys
    for many in 5..=(if tier == Tier::Quick { 40 } else { 96 }) {
        for zod in [false, true] {
            cases.push(Case { files: vec![], decoy_target: false, decoy_git: false, decoy_txt: false, unparsable: false, under_target_dir: false, symlinked: None, zod, many, same_camel: false, same_name: false, project_dir: None });
        }
        cases.push(Case { files: vec![(0, vec![0, 7]), (2, vec![1])], decoy_target: true, decoy_git: true, decoy_txt: true, unparsable: many % 2 == 0, under_target_dir: false, symlinked: None, zod: many % 2 == 1, many, same_camel: many % 5 == 0, same_name: many % 3 == 0, project_dir: None });
    }
    // the project itself below a directory named target
    for l in layouts.iter().filter(|l| l.len() == 1 && l[0].1.len() == 1).take(8) {
        cases.push(Case { files: l.clone(), decoy_target: false, decoy_git: false, decoy_txt: false, unparsable: false, under_target_dir: true, symlinked: None, zod: false, many: 0, same_camel: false, same_name: false, project_dir: None });
    }
    // the project directory itself called like an excluded directory, with decoys below it
    for dir in ["apps/target", "apps/.git", "target", ".git/target"] {
        for l in layouts.iter().filter(|l| l.len() == 1 && l[0].1.len() == 1).take(8) {
            for zod in [false, true] {
                cases.push(Case { files: l.clone(), decoy_target: true, decoy_git: true, decoy_txt: false, unparsable: false, under_target_dir: false, symlinked: None, zod, many: 2, same_camel: false, same_name: false, project_dir: Some(dir.to_string()) });
            }
        }
    }
    let results: Vec<Option<(Vec<Violation>, bool, Option<String>)>> = cases.par_iter().map(|c| if deadline.passed() { None } else { Some(eval(c)) }).collect();
    let mut evaluations = 0u64;
    let mut exhaustive = true;
    let mut unparsable_out = 0u64;
    let mut nontrivial: BTreeSet<String> = BTreeSet::new();
    let mut all_v = vec![];
    for (c, r) in cases.iter().zip(results) {
        match r {
            None => exhaustive = false,
            Some((v, acc, unp)) => {
                evaluations += 1 + c.unparsable as u64;
                if unp.is_some() {
                    unparsable_out += 1;
                }
                if acc && c.files.iter().any(|(_, its)| !its.is_empty()) {
                    nontrivial.insert(format!("{:?}", c.files));
                }
                all_v.extend(v);
            }
        }
    }
    // primary: per (class, items, under_target) keep the simplest
    all_v.sort_by_key(|v| v.rank);
    let mut seen = BTreeSet::new();
    for v in all_v {
        let k = format!("{}|{}|{}|{}", v.class, v.fields["items"], v.fields["under_target_dir"], v.fields["symlinked"]);
        if seen.insert(k) {
            let mut v = v;
            v.fields.remove("n_files");
            v.fields.remove("mode");
            res.violations.push(v);
        } else {
            res.derived += 1;
        }
    }
    res.coverage.set("evaluations", evaluations);
    res.coverage.set("distinct_nontrivial", nontrivial.len() as u64);
    res.coverage.set("layouts", layouts.len() as u64);
    res.coverage.set("cases", cases.len() as u64);
    res.coverage.set("outputs_not_parsable_here", unparsable_out);
    res.coverage.set("exhaustive", exhaustive);
    res.coverage.set("samples", json!(cases.iter().step_by((cases.len() / 5).max(1)).take(5).collect::<Vec<_>>()));
    res.coverage.set("rule", "[round 7: a channel-only command in the item menu (15 items); the project directory itself called apps/target, apps/.git, target, .git/target] same-named command functions in two files of different directories (two annotated functions: two wrappers invoking that name) alone and beside everything else; projects: 1..4 source files at directory depths 0..3 (plus every file count from 5 to 40 / 96 with one command per file), each holding a subset of the 14-item menu - one file: every subset of up to 4 (thorough: 5) items at every directory position; two files: every pair of subsets of up to 2 items; three files: every triple of single items; four files (thorough): every quadruple over a 6-item menu - (7 command spellings: tauri::command / command / with arguments, visibility, async, attribute order, doc comments, generics; 7 decoys: other::command, impl method, nested mod, helper fn, cfg_attr, const+macro text, look-alike paths), crossed with decoy trees (target/, .git/, non-.rs files, an unparsable .rs: three of the 16 combinations per layout in quick, all 16 in thorough); ground truth = the generator's own list of annotated top-level fns; oracle: the set of invoke() literals in the parsed commands.ts equals it, one exported function per command, each returning a Promise; adding the unparsable file changes nothing else (differential run). Non-trivial = at least one item present and the project accepted.");
    res.assumptions = vec!["return and parameter types are restricted to atoms that pass C05".into()];
    res
}
