//! C13 - output is a deterministic function of sources and configuration.
//! Schedules (hash-iteration orders) x semantics-preserving source transformations.

use crate::core::*;
use crate::gen::{self, Project};
use crate::props::c09;
use crate::run::{self, explore_schedules, run_lib, strip_timestamp, Cfg, Schedule};
use crate::sbx::{self, FileCfg, RunOpts, Seam};
use crate::ts;
use rayon::prelude::*;
use serde::{Deserialize, Serialize};
use serde_json::{json, Value};
use std::collections::{BTreeMap, BTreeSet};
use std::sync::atomic::{AtomicU64, Ordering};
use std::sync::Mutex;

/// A project as files -> items (each item a self-contained piece of source text).
#[derive(Debug, Clone, Serialize, Deserialize, PartialEq)]
pub struct ItemProject {
    pub files: Vec<(String, Vec<String>)>,
}

const HEADER: &str = "use serde::{Deserialize, Serialize};\nuse std::collections::HashMap;\nuse tauri::{AppHandle, Emitter};\nuse tauri::ipc::Channel;\n\n";

impl ItemProject {
    pub fn render(&self) -> Project {
        Project {
            files: self.files.iter().map(|(n, items)| (n.clone(), format!("{}{}", HEADER, items.join("\n")))).collect(),
            links: vec![],
        }
    }
}

/// n files; file i defines struct T{i} (depending on T{i+1} where it exists), enum K{i}, one or
/// two commands and one event.
pub fn base_project(n: usize, rich: bool) -> ItemProject {
    let mut files = vec![];
    for i in 0..n {
        // rich projects: every file is called mod.rs and sits at the same depth (files that compare
        // equal under any key coarser than the full path); plain ones: distinct names, depths 0..2
        let path = if rich {
            format!("src/m{}/mod.rs", i)
        } else {
            match i % 3 {
                0 => format!("src/f{}.rs", i),
                1 => format!("src/a/f{}.rs", i),
                _ => format!("src/a/b/f{}.rs", i),
            }
        };
        let mut items = vec![];
        let dep = if i + 1 < n { format!("    pub next: Option<T{}>,\n    pub many: HashMap<String, Vec<T{}>>,\n", i + 1, i + 1) } else { String::new() };
        items.push(format!(
            "#[derive(Debug, Clone, Serialize, Deserialize)]\n#[serde(rename_all = \"camelCase\")]\npub struct T{i} {{\n    pub item_id: i32,\n    pub kind: K{i},\n{dep}}}\n",
            i = i,
            dep = dep
        ));
        items.push(format!("#[derive(Debug, Clone, Serialize, Deserialize)]\npub enum K{i} {{ First, Second }}\n", i = i));
        items.push(format!("#[tauri::command]\npub fn cmd_{i}(arg: T{i}, count: Option<u32>) -> Result<Vec<T{i}>, String> {{ let _ = (arg, count); Ok(vec![]) }}\n", i = i));
        if rich || i % 2 == 0 {
            items.push(format!("#[tauri::command]\npub async fn stream_{i}(on_item: Channel<K{i}>) -> bool {{ let _ = on_item; true }}\n", i = i));
        }
        if i == 0 {
            // types whose names are equal up to letter case (any order that folds case leaves them tied)
            items.push("#[derive(Debug, Clone, Serialize, Deserialize)]\npub struct UserId { pub value: u64 }\n".to_string());
            items.push("#[derive(Debug, Clone, Serialize, Deserialize)]\npub struct UserID { pub raw: String }\n".to_string());
            items.push("#[derive(Debug, Clone, Serialize, Deserialize)]\npub struct USERID { pub legacy: i32 }\n".to_string());
            items.push("#[tauri::command]\npub fn ids(a: UserId, b: UserID) -> USERID { let _ = (a, b); todo!() }\n".to_string());
        }
        // two events emitted from every file: `shared` always with the same payload type, `mixed`
        // with a different one per file. Their emit sites sit at opposite ends of the file in
        // alternation, so that which sites are neighbours in processing order (and which are
        // separated by another event) depends on the layout alone.
        let shared = format!("pub fn shared_{i}(app: &AppHandle, payload: K0) {{ app.emit(\"shared\", payload).unwrap(); }}\n", i = i);
        let mixed = format!("pub fn mixed_{i}(app: &AppHandle, payload: K{i}) {{ app.emit(\"mixed\", payload).unwrap(); }}\n", i = i);
        if i % 2 == 1 {
            items.push(shared.clone());
        } else {
            items.push(mixed.clone());
        }
        items.push(format!("pub fn notify_{i}(app: &AppHandle, payload: T{i}) {{ app.emit(\"changed-{i}\", payload).unwrap(); }}\n", i = i));
        // two event names with one listener identifier (`tick:done` / `tick-done`), in alternating files (kept away from both ends of the file:
        // the first and the last emit site of a file are the shared / mixed ones)
        items.push(format!("pub fn tick_{i}(app: &AppHandle, n: i32) {{ app.emit(\"{name}\", n).unwrap(); }}\n", i = i, name = if i % 2 == 0 { "tick:done" } else { "tick-done" }));
        // an emit whose payload is an untyped local: must stay `unknown` whatever else is in the file
        items.push(format!("pub fn raw_{i}(app: &AppHandle) {{ let snapshot = build_snapshot(); app.emit(\"raw-{i}\", snapshot).unwrap(); }}\n", i = i));
        if i % 2 == 1 {
            items.push(mixed);
        } else {
            items.push(shared);
        }
        files.push((path, items));
    }
    ItemProject { files }
}

#[derive(Debug, Clone, Copy, PartialEq, Eq, Serialize, Deserialize, PartialOrd, Ord)]
pub enum Transform {
    Comments,
    HelperFns,
    NonSerdeItems,
    ReorderItems,
    MoveTypes,
    MergeFiles,
    SplitFiles,
    RenameFiles,
}
pub const TRANSFORMS: [Transform; 8] = [
    Transform::Comments,
    Transform::HelperFns,
    Transform::NonSerdeItems,
    Transform::ReorderItems,
    Transform::MoveTypes,
    Transform::MergeFiles,
    Transform::SplitFiles,
    Transform::RenameFiles,
];

impl Transform {
    /// true: output must be byte-identical; false: same declarations, order may differ
    pub fn is_noise(self) -> bool {
        matches!(self, Transform::Comments | Transform::HelperFns | Transform::NonSerdeItems)
    }
    pub fn apply(self, p: &ItemProject) -> ItemProject {
        let mut q = p.clone();
        match self {
            Transform::Comments => {
                for (_, items) in q.files.iter_mut() {
                    for it in items.iter_mut() {
                        *it = format!("\n\n// a comment mentioning #[tauri::command] fn fake() {{}}\n/* block\n   comment */\n{}\n\n", it.replace("pub struct", "pub  struct").replace(") -> ", ")  ->  "));
                    }
                }
            }
            Transform::HelperFns => {
                for (i, (_, items)) in q.files.iter_mut().enumerate() {
                    // helpers reuse variable names of other functions with unrelated types
                    items.insert(0, format!("pub fn helper_{}(x: i32, snapshot: &K{}, payload: String, arg: Vec<u8>, count: K{}) -> i32 {{ let on_item: i32 = 1; x + on_item }}\nfn private_helper_{}() {{}}\n", i, i, i, i));
                    items.push(format!("pub async fn tail_helper_{}() {{}}\n", i));
                }
            }
            Transform::NonSerdeItems => {
                for (i, (_, items)) in q.files.iter_mut().enumerate() {
                    items.insert(0, format!("pub struct Plain{} {{ pub x: i32 }}\npub const LIMIT_{}: usize = 3;\npub type Alias{} = Vec<i32>;\npub trait Tr{} {{}}\n#[derive(Debug, Clone)]\npub enum NotSerde{} {{ A }}\n", i, i, i, i, i));
                }
            }
            Transform::ReorderItems => {
                for (_, items) in q.files.iter_mut() {
                    items.reverse();
                }
            }
            Transform::MoveTypes => {
                // every type definition moves to the next file (cyclically)
                let n = q.files.len();
                if n >= 2 {
                    let mut moved: Vec<Vec<String>> = vec![vec![]; n];
                    for (i, (_, items)) in q.files.iter_mut().enumerate() {
                        let (types, rest): (Vec<String>, Vec<String>) = items.drain(..).partition(|it| it.contains("pub struct T") || it.contains("pub enum K"));
                        moved[(i + 1) % n] = types;
                        *items = rest;
                    }
                    for (i, (_, items)) in q.files.iter_mut().enumerate() {
                        items.extend(moved[i].drain(..));
                    }
                }
            }
            Transform::MergeFiles => {
                let all: Vec<String> = q.files.iter().flat_map(|(_, it)| it.clone()).collect();
                q.files = vec![("src/all.rs".into(), all)];
            }
            Transform::SplitFiles => {
                let mut files = vec![];
                for (fi, (_, items)) in q.files.iter().enumerate() {
                    for (ii, it) in items.iter().enumerate() {
                        files.push((format!("src/split/f{}_{}.rs", fi, ii), vec![it.clone()]));
                    }
                }
                q.files = files;
            }
            Transform::RenameFiles => {
                // reverse the lexicographic order of the file names
                let n = q.files.len();
                for (i, (name, _)) in q.files.iter_mut().enumerate() {
                    *name = format!("src/z{}/renamed_{}.rs", n - i, n - i);
                }
            }
        }
        q
    }
}

fn out_map(run: &run::LibRun) -> BTreeMap<String, String> {
    run.files.iter().map(|(k, v)| (k.clone(), strip_timestamp(v))).collect()
}

/// Multiset of top-level declarations (printed ASTs) per file.
fn decl_multiset(files: &BTreeMap<String, String>) -> Result<BTreeMap<String, Vec<String>>, String> {
    let mut out = BTreeMap::new();
    for (name, src) in files {
        if !name.ends_with(".ts") {
            continue;
        }
        let m = ts::parse_module(src).map_err(|e| format!("SYNTAX {}: {}", name, e))?;
        let mut items: Vec<String> = m.items.iter().map(|i| format!("{:?}", i)).collect();
        items.sort();
        out.insert(name.clone(), items);
    }
    Ok(out)
}

fn first_diff(a: &BTreeMap<String, String>, b: &BTreeMap<String, String>) -> String {
    for (k, va) in a {
        match b.get(k) {
            None => return format!("{} missing in the second output", k),
            Some(vb) if va != vb => {
                let (x, y) = sbx::first_diff_line(va, vb);
                return format!("{}: `{}` vs `{}`", k, x, y);
            }
            _ => {}
        }
    }
    for k in b.keys() {
        if !a.contains_key(k) {
            return format!("{} only in the second output", k);
        }
    }
    "no difference".into()
}

fn mk(class: &str, fields: &[(&str, String)], detail: String, replay: Value, rank: u64) -> Violation {
    let mut v = Violation::new("C13", class, detail, replay).rank(rank);
    for (k, val) in fields {
        v = v.field(k, val.clone());
    }
    v
}

pub fn replay(case: &Value) -> Vec<Violation> {
    let n = case["n_files"].as_u64().unwrap_or(2) as usize;
    let rich = case["rich"].as_bool().unwrap_or(false);
    let zod = case["zod"].as_bool().unwrap_or(false);
    let p = base_project(n, rich);
    match case["kind"].as_str().unwrap_or("") {
        "schedule" => {
            let s = Schedule(case["schedule"].as_array().map(|a| a.iter().map(|x| x.as_u64().unwrap_or(0) as usize).collect()).unwrap_or_default());
            let base = out_map(&run_lib(&p.render(), &Cfg::mode(zod), &Schedule::default()));
            let other = out_map(&run_lib(&p.render(), &Cfg::mode(zod), &s));
            if base != other {
                vec![mk("schedule-dependent-output", &[("files", n.to_string()), ("mode", if zod { "zod".into() } else { "none".into() })], first_diff(&base, &other), case.clone(), n as u64)]
            } else {
                vec![]
            }
        }
        "transform" => {
            let Ok(t) = serde_json::from_value::<Transform>(case["transform"].clone()) else { return vec![] };
            transform_case(n, rich, zod, t).0
        }
        "padding" => {
            let (_, body) = padding_body();
            let pad = case["pad"].as_u64().unwrap_or(0) as usize;
            let (base, other) = (padding_output(&body, 0), padding_output(&body, pad));
            if base != other {
                vec![mk("layout-noise-changes-output", &[("transform", "leading-comment-in-large-file".to_string()), ("files", "1".to_string()), ("mode", "zod".to_string())], format!("a leading comment of {} bytes changes the output: {}", pad, first_diff(&base, &other)), case.clone(), 1)]
            } else {
                vec![]
            }
        }
        // the whole CLI case again: with the hash seeds owned it is deterministic
        "cli" => cli_case(n, zod, case["hash_seed"].as_u64().map(|k| k + 1).unwrap_or(16), case["mapped"].as_bool().unwrap_or(false)).0,
        _ => vec![],
    }
}

fn transform_case(n: usize, rich: bool, zod: bool, t: Transform) -> (Vec<Violation>, u64) {
    let p = base_project(n, rich);
    let q = t.apply(&p);
    let a = run_lib(&p.render(), &Cfg::mode(zod), &Schedule::default());
    let b = run_lib(&q.render(), &Cfg::mode(zod), &Schedule::default());
    let mut vs = vec![];
    let fields = [("transform", format!("{:?}", t)), ("files", n.to_string()), ("mode", if zod { "zod".to_string() } else { "none".to_string() })];
    let rp = json!({"kind":"transform","n_files":n,"rich":rich,"zod":zod,"transform":t});
    if !a.ok() || !b.ok() {
        if a.ok() != b.ok() {
            vs.push(mk("transform-changes-acceptance", &fields, format!("{} vs {}", a.status_string(), b.status_string()), rp, n as u64));
        }
        return (vs, 2);
    }
    let (oa, ob) = (out_map(&a), out_map(&b));
    if t.is_noise() {
        if oa != ob {
            vs.push(mk("noise-changes-output", &fields, first_diff(&oa, &ob), rp, n as u64));
        }
    } else {
        match (decl_multiset(&oa), decl_multiset(&ob)) {
            (Ok(ma), Ok(mb)) => {
                if ma != mb {
                    let mut d = String::new();
                    for (f, ia) in &ma {
                        if mb.get(f) != Some(ia) {
                            let sa: BTreeSet<&String> = ia.iter().collect();
                            let sb: BTreeSet<&String> = mb.get(f).map(|v| v.iter().collect()).unwrap_or_default();
                            d = format!("{}: only before: {:?}; only after: {:?}", f, sa.difference(&sb).map(|s| s.chars().take(120).collect::<String>()).collect::<Vec<_>>(), sb.difference(&sa).map(|s| s.chars().take(120).collect::<String>()).collect::<Vec<_>>());
                            break;
                        }
                    }
                    vs.push(mk("move-changes-declarations", &fields, d, rp.clone(), n as u64));
                }
                if zod {
                    if let Some(Ok(p)) = ob.get("types.ts").map(|s| c09::order_problems(s)) {
                        if !p.is_empty() {
                            vs.push(mk("move-breaks-declaration-order", &fields, p.join("; "), rp, n as u64));
                        }
                    }
                }
            }
            _ => {}
        }
    }
    (vs, 2)
}

/// the large-file family: (the multi-byte text, the file body that uses it three times)
fn padding_body() -> (String, String) {
    let wide = "ダウンロード完了😀ダウンロード完了😀ダウンロード完了😀".to_string();
    let body = format!(
        "{}#[derive(Debug, Clone, Serialize, Deserialize)]\npub struct Wide {{\n    #[serde(rename = \"{w}\")]\n    pub a: i32,\n}}\n#[tauri::command]\npub fn wide(w: Wide) -> Wide {{ w }}\npub fn fire(app: &AppHandle) {{ app.emit(\"{w}\", 1).unwrap(); }}\n",
        HEADER,
        w = wide
    );
    (wide, body)
}

/// output for the body behind a leading comment of `pad` dashes ("//" + dashes + newline)
fn padding_output(body: &str, pad: usize) -> BTreeMap<String, String> {
    let text = format!("//{}\n{}", "-".repeat(pad), body);
    out_map(&run_lib(&Project { files: vec![("src/lib.rs".into(), text)], links: vec![] }, &Cfg::mode(true), &Schedule::default()))
}

/// CLI seam: verbosity and visualisation must not change the binding files; repeated fresh
/// processes (no schedule control) must agree.
fn cli_case(n: usize, zod: bool, seeds: u64, mapped: bool) -> (Vec<Violation>, u64) {
    let mut p = base_project(n, true).render();
    // with type mappings: several keys, two of them module-qualified spellings of one bare name
    let mappings: Vec<(String, String)> = if mapped {
        p.files[0].1.push_str("\n#[derive(Serialize, Deserialize)]\npub struct Span { pub took: Duration, pub id: Uuid, pub at: Option<Stamp>, pub seen: DateTime<Utc>, pub seen_local: Vec<DateTime<Local>> }\n#[tauri::command]\npub fn span_of(id: Uuid) -> Span { todo!() }\n");
        // ... and two files that define a type of the same name with different fields
        p.files.push(("src/inventory/models.rs".into(), "use serde::{Deserialize, Serialize};\n#[derive(Serialize, Deserialize)]\npub struct Twin { pub sku: String, pub shelf: u32 }\n#[tauri::command]\npub fn stock() -> Vec<Twin> { vec![] }\n".into()));
        p.files.push(("src/orders/models.rs".into(), "use serde::{Deserialize, Serialize};\n#[derive(Serialize, Deserialize)]\npub struct Twin { pub product_id: u64, pub unit_price: f64 }\n#[tauri::command]\npub fn order_lines() -> Vec<Twin> { vec![] }\n".into()));
        vec![("chrono::Duration".into(), "number".into()), ("std::time::Duration".into(), "{ secs: number; nanos: number }".into()), ("Uuid".into(), "string".into()), ("Stamp".into(), "number".into()), ("DateTime".into(), "Date".into()), ("DateTime<Utc>".into(), "string".into()), ("DateTime<Local>".into(), "number".into()), ("Date".into(), "boolean".into())]
    } else {
        vec![]
    };
    let mut vs = vec![];
    let mut runs = 0u64;
    let gen_seeded = |verbose: bool, visualize: bool, schedule: Option<String>, hash_seed: Option<u64>| -> Option<BTreeMap<String, String>> {
        let sb = run::Sandbox::new();
        let cfg = FileCfg { zod, visualize_deps: visualize, type_mappings: mappings.clone(), ..Default::default() };
        sbx::write_sources(&sb.root, &p, &cfg);
        let mut opts = RunOpts { schedule_env: schedule, hash_seed, ..Default::default() };
        if verbose {
            opts.extra_args.push("--verbose".into());
        }
        let r = sbx::run_generate(&sb.root, Seam::Cli, &opts);
        if !r.success() {
            return None;
        }
        let mut m = run::read_out_dir(&sbx::out_dir(&sb.root, &cfg));
        m.remove(".typecache");
        Some(m)
    };
    let gen = |verbose: bool, visualize: bool, schedule: Option<String>| gen_seeded(verbose, visualize, schedule, None);
    let fields = [("seam", if mapped { "cli+mappings".to_string() } else { "cli".to_string() }), ("files", n.to_string()), ("mode", if zod { "zod".to_string() } else { "none".to_string() })];
    let base = gen(false, false, None);
    runs += 1;
    let Some(base) = base else { return (vs, runs) };
    for (verbose, visualize) in [(true, false), (false, true), (true, true)] {
        runs += 1;
        if let Some(mut o) = gen(verbose, visualize, None) {
            let graph_txt = o.remove("dependency-graph.txt");
            let graph_dot = o.remove("dependency-graph.dot");
            if visualize && (graph_txt.is_none() || graph_dot.is_none()) {
                vs.push(mk("visualisation-missing", &fields, "visualize_deps set but the graph files were not written".into(), json!({"kind":"cli","n_files":n,"zod":zod,"mapped":mapped}), n as u64));
            }
            if o != base {
                vs.push(mk(
                    "flag-changes-output",
                    &[fields[0].clone(), fields[1].clone(), fields[2].clone(), ("flag", format!("verbose={} visualize={}", verbose, visualize))],
                    first_diff(&base, &o),
                    json!({"kind":"cli","n_files":n,"zod":zod,"mapped":mapped}),
                    n as u64,
                ));
            }
        }
    }
    // fresh processes, including the visualisation files (which iterate hash maps of their own)
    // one process per hash seed (the preloaded getrandom shim makes every HashMap / HashSet order of
    // the process a function of the seed, so a failure replays exactly)
    let mut prev: Option<BTreeMap<String, String>> = None;
    for k in 0..seeds {
        runs += 1;
        // alternate between the identity schedule and the reversed file order
        let sched = if k % 2 == 1 && n >= 2 { Some(format!("S1.files#0={}", run::factorial(n) - 1)) } else { None };
        if let Some(o) = gen_seeded(false, true, sched, Some(k)) {
            if let Some(p) = &prev {
                if *p != o {
                    vs.push(mk(
                        "process-dependent-output",
                        &fields,
                        format!("hash seed {} differs from the seeds before it: {}", k, first_diff(p, &o)),
                        json!({"kind":"cli","n_files":n,"zod":zod,"hash_seed":k,"mapped":mapped}),
                        n as u64,
                    ));
                    break;
                }
            }
            prev = Some(o);
        }
    }
    (vs, runs)
}

pub fn run(tier: Tier) -> CheckResult {
    let mut res = CheckResult::new("C13", "model_checking");
    let deadline = tier_deadline(tier);
    let max_files = if tier == Tier::Quick { 6 } else { 7 };
    let runs = AtomicU64::new(0);
    let schedules = AtomicU64::new(0);
    let capped = AtomicU64::new(0);
    let nontrivial = AtomicU64::new(0);
    let violations: Mutex<Vec<Violation>> = Mutex::new(vec![]);
    let site_stats: Mutex<BTreeMap<String, u64>> = Mutex::new(BTreeMap::new());
    let mut sched_cases: Vec<(usize, bool, bool)> = vec![];
    for n in 2..=max_files {
        for rich in [false, true] {
            for zod in [false, true] {
                sched_cases.push((n, rich, zod));
            }
        }
    }
    let stopped = std::sync::atomic::AtomicBool::new(false);
    sched_cases.par_iter().for_each(|(n, rich, zod)| {
        if deadline.passed() {
            stopped.store(true, Ordering::Relaxed);
            return;
        }
        let project = base_project(*n, *rich).render();
        let cfg = Cfg::mode(*zod);
        let full_upto = if tier == Tier::Quick { 3 } else { 4 };
        let bound = if *n <= full_upto { None } else { Some(if tier == Tier::Quick { 2 } else { 3 }) };
        let mut base: Option<BTreeMap<String, String>> = None;
        let mut any = false;
        let mut reported = false;
        let mut local: BTreeMap<String, u64> = BTreeMap::new();
        let (count, complete) = explore_schedules(bound, if tier == Tier::Quick { 20000 } else { 400000 }, |s| {
            let r = run_lib(&project, &cfg, s);
            runs.fetch_add(1, Ordering::Relaxed);
            for cp in &r.trace {
                if cp.n >= 2 {
                    any = true;
                    *local.entry(cp.site.clone()).or_default() += 1;
                }
            }
            let o = out_map(&r);
            match &base {
                None => {
                    // replay divergence on the identity schedule
                    let again = out_map(&run_lib(&project, &cfg, s));
                    runs.fetch_add(1, Ordering::Relaxed);
                    if again != o {
                        violations.lock().unwrap().push(mk(
                            "replay-divergence",
                            &[("files", n.to_string()), ("mode", cfg.mode_name().to_string())],
                            format!("identical schedule, two in-process runs differ: {}", first_diff(&o, &again)),
                            json!({"kind":"schedule","n_files":n,"rich":rich,"zod":zod,"schedule":s.0}),
                            *n as u64,
                        ));
                    }
                    base = Some(o);
                }
                Some(b) => {
                    if *b != o && !reported {
                        reported = true;
                        let sites: BTreeSet<String> = r.trace.iter().filter(|c| c.choice != 0).map(|c| c.site.clone()).collect();
                        violations.lock().unwrap().push(mk(
                            "schedule-dependent-output",
                            &[("files", n.to_string()), ("mode", cfg.mode_name().to_string()), ("sites", sites.into_iter().collect::<Vec<_>>().join("+"))],
                            format!("{} files ({}): iteration-order schedule {:?} changes the output: {}", n, cfg.mode_name(), s.0, first_diff(b, &o)),
                            json!({"kind":"schedule","n_files":n,"rich":rich,"zod":zod,"schedule":s.0}),
                            *n as u64,
                        ));
                    }
                }
            }
            r.trace
        });
        schedules.fetch_add(count as u64, Ordering::Relaxed);
        if !complete {
            capped.fetch_add(1, Ordering::Relaxed);
        }
        if any {
            nontrivial.fetch_add(1, Ordering::Relaxed);
        }
        let mut g = site_stats.lock().unwrap();
        for (k, v) in local {
            *g.entry(k).or_default() += v;
        }
    });
    // transformations
    let mut tcases = vec![];
    for n in 1..=max_files.min(4) {
        for rich in [false, true] {
            for zod in [false, true] {
                for t in TRANSFORMS {
                    tcases.push((n, rich, zod, t));
                }
            }
        }
    }
    let tres: Vec<(Vec<Violation>, u64)> = tcases.par_iter().map(|(n, r, z, t)| if deadline.passed() { (vec![], 0) } else { transform_case(*n, *r, *z, *t) }).collect();
    let mut transform_runs = 0;
    for (v, e) in tres {
        transform_runs += e;
        violations.lock().unwrap().extend(v);
    }
    // layout noise in a LARGE file: a leading comment of every length that puts a string of 3- and
    // 4-byte characters (an event name, a serde rename, a validator message) across byte offsets
    // 8192 and 16384 of the source file; the output must not depend on the comment
    {
        let (wide, body) = padding_body();
        let wide = wide.as_str();
        let occurrences: Vec<usize> = body.match_indices(wide).map(|(i, _)| i).collect();
        let gen = |pad: usize| padding_output(&body, pad);
        let baseline = gen(0);
        let mut pads: Vec<usize> = vec![];
        for boundary in [8192usize, 16384] {
            for occ in &occurrences {
                // the string starts k bytes before the boundary, for every k that keeps part of it on each side
                for k in 0..=wide.len() {
                    if let Some(pad) = boundary.checked_sub(k + 3 + occ) {
                        pads.push(pad);
                    }
                }
            }
        }
        pads.sort();
        pads.dedup();
        let pv: Vec<Violation> = pads
            .par_iter()
            .filter_map(|pad| {
                let o = gen(*pad);
                if o != baseline {
                    Some(mk("layout-noise-changes-output", &[("transform", "leading-comment-in-large-file".to_string()), ("files", "1".to_string()), ("mode", "zod".to_string())], format!("a leading comment of {} bytes (multi-byte text across a multiple of 8192 bytes) changes the output: {}", pad, first_diff(&baseline, &o)), json!({"kind":"padding","pad":pad}), 1))
                } else {
                    None
                }
            })
            .collect();
        transform_runs += pads.len() as u64;
        violations.lock().unwrap().extend(pv.into_iter().take(3));
    }
    // CLI seam
    let ccases: Vec<(usize, bool)> = (1..=3).flat_map(|n| [(n, false), (n, true)]).collect();
    let cres: Vec<(Vec<Violation>, u64)> = ccases.par_iter().flat_map(|(n, z)| [(*n, *z, false), (*n, *z, true)]).map(|(n, z, m)| cli_case(n, z, if tier == Tier::Quick { 16 } else { 64 }, m)).collect();
    let mut cli_runs = 0;
    for (v, e) in cres {
        cli_runs += e;
        violations.lock().unwrap().extend(v);
    }
    let mut all_v = violations.into_inner().unwrap();
    all_v.sort_by_key(|v| (v.rank, v.key()));
    let mut seen = BTreeSet::new();
    for v in all_v {
        let mut f = v.fields.clone();
        f.remove("files");
        let k = format!("{}|{:?}", v.class, f);
        if seen.insert(k) {
            res.violations.push(v);
        } else {
            res.derived += 1;
        }
    }
    let total_runs = runs.load(Ordering::Relaxed) + transform_runs + cli_runs;
    res.coverage.set("states", (sched_cases.len() + tcases.len() + ccases.len()) as u64);
    res.coverage.set("transitions", total_runs);
    res.coverage.set("schedules", schedules.load(Ordering::Relaxed));
    res.coverage.set("traces_validated_against_impl", total_runs);
    res.coverage.set("evaluations", total_runs);
    res.coverage.set("distinct_nontrivial", nontrivial.load(Ordering::Relaxed) + tcases.len() as u64);
    res.coverage.set("choice_points_by_site", json!(*site_stats.lock().unwrap()));
    res.coverage.set("schedule_cap_hits", capped.load(Ordering::Relaxed));
    res.coverage.set("transform_cases", tcases.len() as u64);
    res.coverage.set("cli_runs", cli_runs);
    res.coverage.set("exhaustive", !stopped.load(Ordering::Relaxed) && capped.load(Ordering::Relaxed) == 0);
    res.coverage.set("hooks_enabled", run::HOOKS_ENABLED);
    res.coverage.set("samples", json!([
        {"kind":"schedule","n_files":3,"rich":true,"zod":true,"schedule":[4,0,2]},
        {"kind":"transform","n_files":3,"zod":false,"transform":"MoveTypes"},
        {"kind":"cli","n_files":2,"zod":true,"flags":"--verbose + visualize_deps"}
    ]));
    res.coverage.set("rule", format!("[round 8: three types whose names are equal up to letter case in the first file of every project] [round 7: two event names with one listener identifier in alternating files; overlapping mapping keys (DateTime, DateTime<Utc>, DateTime<Local>) in the mapped project] two further events are emitted from every file, one with the same payload type everywhere and one with a different type per file, at opposite ends of the file in alternation (which emit sites are neighbours depends on the layout alone); projects of 2..{} files (file i: struct T_i depending on T_i+1 through Option and HashMap<String, Vec<..>>, enum K_i, 1-2 commands, a channel, an event); for each project and mode every iteration-order schedule at hook sites S1 (files), S4 (plain struct order), S5/S6 (topological sort): full product for <= 3 (thorough: 4) files, deviation bound {} beyond; oracle: all files byte-identical to the identity schedule's output modulo the timestamp line; identity schedule run twice (replay divergence). Transformations (a leading comment of every length that puts multi-byte text across the 8 KiB and 16 KiB offsets of a source file; comments/whitespace, helper fns, non-serde items: output identical; reorder items, move types between files, merge, split, rename files: identical multiset of parsed top-level declarations per file and, in Zod mode, still declaration-before-use). CLI seam: --verbose and visualize_deps leave the binding files identical (the latter adds exactly its two files); one process per hash seed 0..16 (quick) / 0..64 (thorough) - the preloaded getrandom shim makes every hash iteration order of the process a function of the seed - incl. reversed file order, must agree on every file incl. the dependency graphs; the same again with four type mappings in the configuration, two of them module-qualified spellings of one bare name.", max_files, if tier == Tier::Quick { 2 } else { 3 }));
    res.assumptions = vec!["hash iterations not behind a hook site are covered by the enumerated hash seeds of the process (a seed alphabet, deterministic and replayable, not a complete order product) and by fresh analyser instances in process".into()];
    let _ = gen::PRELUDE;
    res
}
