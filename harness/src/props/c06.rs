//! C06 - property keys and enum literals equal the names serde uses on the wire.
//! The oracle for names is real serde: the same item source text that is handed to the tool is
//! compiled (with serde_derive) into the `ttv-fixtures` crate, serialised, and read back.

use crate::core::*;
use crate::gen::{self, Project};
use crate::modinfo::ModInfo;
use crate::naming;
use crate::run::{run_lib_default, Cfg};
use crate::shape::{self, prop_key_string, Shape};
use crate::ts::{self, Member};
use rayon::prelude::*;
use serde_json::{json, Value};
use std::collections::{BTreeMap, BTreeSet};

pub const FIELD_IDENTS: [&str; 12] = ["a", "id", "user_id", "user_id2", "x1_y", "http_url", "a__b", "_p", "on_2fa_code", "_2fa", "größe", "café_straße"];
pub const VARIANT_IDENTS: [&str; 9] = ["A", "Done", "InProgress", "HTTPServer", "V2Beta", "Io", "X86_64", "Utf_8", "RISC_V"];

/// attribute sets for a designated struct field: (label, attribute lines, hidden by plain skip?)
pub const FIELD_ATTRS: [(&str, &[&str], bool); 25] = [
    ("none", &[], false),
    ("rename-kebab", &["#[serde(rename = \"x-y\")]"], false),
    ("rename-Z", &["#[serde(rename = \"Z\")]"], false),
    ("skip", &["#[serde(skip)]"], true),
    ("skip_serializing_if", &["#[serde(skip_serializing_if = \"Option::is_none\")]"], false),
    ("default", &["#[serde(default)]"], false),
    ("alias-skip", &["#[serde(alias = \"skip\")]"], false),
    ("rename-to-rename_all", &["#[serde(rename = \"rename_all\")]"], false),
    ("rename+skip_serializing_if", &["#[serde(rename = \"aa\", skip_serializing_if = \"Option::is_none\")]"], false),
    ("two-attrs-rename-default", &["#[serde(rename = \"b\")]", "#[serde(default)]"], false),
    ("two-attrs-default-rename", &["#[serde(default)]", "#[serde(rename = \"b\")]"], false),
    ("skip_serializing", &["#[serde(skip_serializing)]"], false),
    ("skip_deserializing", &["#[serde(skip_deserializing)]"], false),
    ("default+rename", &["#[serde(default, rename = \"c\")]"], false),
    ("alias-rename", &["#[serde(alias = \"rename\")]"], false),
    ("skip_serializing_if+rename", &["#[serde(skip_serializing_if = \"Option::is_none\", rename = \"d\")]"], false),
    ("rename-split", &["#[serde(rename(serialize = \"ser_name\", deserialize = \"de_name\"))]"], false),
    ("rename-split-reversed", &["#[serde(rename(deserialize = \"de_name\", serialize = \"ser-name\"))]"], false),
    ("rename-serialize-only", &["#[serde(rename(serialize = \"only_ser\"))]"], false),
    ("rename-non-bmp", &["#[serde(rename = \"tag-🏷-𠮷\")]"], false),
    // wire names that differ from a sibling's only in letter case (and equal it under no convention)
    ("rename-iD", &["#[serde(rename = \"iD\")]"], false),
    ("rename-USER_id", &["#[serde(rename = \"USER_id\")]"], false),
    // wire names that read as numeric literals when left unquoted
    ("rename-hex", &["#[serde(rename = \"0x10\")]"], false),
    ("rename-exp", &["#[serde(rename = \"1e3\")]"], false),
    ("rename-sep", &["#[serde(rename = \"1_000\")]"], false),
];

pub const VARIANT_ATTRS: [(&str, &[&str]); 12] = [
    ("none", &[]),
    ("rename-kebab", &["#[serde(rename = \"x-y\")]"]),
    ("rename-Z", &["#[serde(rename = \"Z\")]"]),
    ("alias-skip", &["#[serde(alias = \"skip\")]"]),
    ("rename-to-rename_all", &["#[serde(rename = \"rename_all\")]"]),
    ("alias-rename", &["#[serde(alias = \"rename\")]"]),
    ("rename-split", &["#[serde(rename(serialize = \"ser_name\", deserialize = \"de_name\"))]"]),
    ("rename-split-reversed", &["#[serde(rename(deserialize = \"de_name\", serialize = \"ser-name\"))]"]),
    ("rename-non-bmp", &["#[serde(rename = \"party-🎉-𝟭\")]"]),
    ("rename-non-ascii", &["#[serde(rename = \"fröhlich “q” \\u{2028}\")]"]),
    ("rename-hTTPserver", &["#[serde(rename = \"hTTPserver\")]"]),
    ("rename-dONE", &["#[serde(rename = \"dONE\")]"]),
];

#[derive(Debug, Clone)]
pub struct ItemSpec {
    pub name: String,
    pub is_enum: bool,
    /// index into conventions(): 0 = none
    pub conv: usize,
    pub attr: usize,
    /// identifier the attribute set sits on
    pub designated: usize,
    /// enum whose variants #1 and #3 carry data (tuple / struct variant): the literal is still the
    /// variant's wire name
    pub mixed: bool,
}

pub fn conventions() -> Vec<Option<&'static str>> {
    let mut v = vec![None];
    v.extend(naming::CONVENTIONS.iter().map(|c| Some(*c)));
    // split forms: serde serialises with the `serialize` convention whatever the order
    v.push(Some("SPLIT:serialize = \"kebab-case\", deserialize = \"snake_case\""));
    v.push(Some("SPLIT:deserialize = \"SCREAMING_SNAKE_CASE\", serialize = \"camelCase\""));
    // other container attributes whose text contains `rename_all`: they do not rename the
    // members in the alphabet (unit variants, named struct fields)
    v.push(Some("ENUM:#[serde(rename_all_fields = \"SCREAMING_SNAKE_CASE\")]"));
    v.push(Some("ENUM:#[serde(rename_all = \"snake_case\")]\n#[serde(rename_all_fields = \"camelCase\")]"));
    v.push(Some("RAW:#[serde(deny_unknown_fields, rename = \"rename_all\")]\n#[serde(rename_all = \"kebab-case\")]"));
    v.push(Some("RAW:#[serde(rename_all = \"UPPERCASE\")]\n#[serde(deny_unknown_fields)]"));
    v
}

pub fn enum_only(conv: usize) -> bool {
    conventions()[conv].is_some_and(|c| c.starts_with("ENUM:"))
}

/// the container attribute line for a convention entry
pub fn container_attr(c: &str) -> String {
    if let Some(inner) = c.strip_prefix("SPLIT:") {
        format!("#[serde(rename_all({}))]\n", inner)
    } else if let Some(raw) = c.strip_prefix("ENUM:").or_else(|| c.strip_prefix("RAW:")) {
        format!("{}\n", raw)
    } else {
        format!("#[serde(rename_all = \"{}\")]\n", c)
    }
}

pub fn items() -> Vec<ItemSpec> {
    let mut v = vec![];
    for conv in 0..conventions().len() {
        for attr in 0..FIELD_ATTRS.len() {
            if enum_only(conv) {
                break;
            }
            // the extra container settings carry a reduced attribute alphabet
            if conv > naming::CONVENTIONS.len() && ![0, 1, 3, 7, 16, 17, 19].contains(&attr) {
                continue;
            }
            // the designated field rotates so that over the product every identifier carries every
            // attribute set under some convention, and every (convention, attribute) pair is present
            for rot in 0..(if [1, 3, 7].contains(&attr) { 2 } else { 1 }) {
                let designated = (attr + conv + rot * 3) % FIELD_IDENTS.len();
                v.push(ItemSpec { name: format!("S{}A{}R{}", conv, attr, rot), is_enum: false, conv, attr, designated, mixed: false });
            }
        }
        for attr in 0..VARIANT_ATTRS.len() {
            if conv > naming::CONVENTIONS.len() && ![0, 1, 4, 6, 7, 8].contains(&attr) {
                continue;
            }
            for rot in 0..(if attr == 1 { 2 } else { 1 }) {
                let designated = (attr + conv + rot * 2) % VARIANT_IDENTS.len();
                v.push(ItemSpec { name: format!("E{}A{}R{}", conv, attr, rot), is_enum: true, conv, attr, designated, mixed: false });
            }
        }
        // data-carrying variants: no attribute, and a rename on the tuple / the struct variant
        if !conventions()[conv].is_some_and(|c| c.contains(':')) {
            for (attr, designated) in [(0usize, 0usize), (1, 1), (2, 3)] {
                v.push(ItemSpec { name: format!("M{}A{}D{}", conv, attr, designated), is_enum: true, conv, attr, designated, mixed: true });
            }
        }
    }
    v
}

/// The exact Rust source of one item - used both for the tool's input and for the serde fixture.
pub fn item_source(it: &ItemSpec) -> String {
    let mut s = String::from("#[derive(Debug, Clone, Serialize, Deserialize)]\n");
    if let Some(c) = conventions()[it.conv] {
        s.push_str(&container_attr(c));
    }
    if it.is_enum {
        s.push_str(&format!("pub enum {} {{\n", it.name));
        for (i, id) in VARIANT_IDENTS.iter().enumerate() {
            if i == it.designated {
                for a in VARIANT_ATTRS[it.attr].1 {
                    s.push_str(&format!("    {}\n", a));
                }
            }
            match (it.mixed, i) {
                (true, 1) => s.push_str(&format!("    {}(i32),\n", id)),
                (true, 3) => s.push_str(&format!("    {} {{ port: i32 }},\n", id)),
                _ => s.push_str(&format!("    {},\n", id)),
            }
        }
    } else {
        s.push_str(&format!("pub struct {} {{\n", it.name));
        for (i, id) in FIELD_IDENTS.iter().enumerate() {
            if i == it.designated {
                for a in FIELD_ATTRS[it.attr].1 {
                    s.push_str(&format!("    {}\n", a));
                }
            }
            s.push_str(&format!("    pub {}: Option<i32>,\n", id));
        }
    }
    s.push_str("}\n");
    s
}

/// Source of the fixtures crate's lib.rs.
pub fn fixtures_source() -> String {
    let mut s = String::from("//! GENERATED by `ttv gen-fixtures` - do not edit. Real serde as the naming oracle for C06.\n#![allow(non_snake_case, dead_code, clippy::all)]\nuse serde::{Deserialize, Serialize};\n\n");
    for it in items() {
        s.push_str(&item_source(&it));
        s.push('\n');
    }
    s.push_str("/// (item name, [(rust identifier, serialised name or None when serde does not serialise it)])\npub fn table() -> Vec<(String, Vec<(String, Option<String>)>)> {\n    let mut t = Vec::new();\n");
    for it in items() {
        if it.is_enum {
            s.push_str(&format!("    t.push((\"{}\".to_string(), vec![\n", it.name));
            for (i, id) in VARIANT_IDENTS.iter().enumerate() {
                let value = match (it.mixed, i) {
                    (true, 1) => format!("{}::{}(1)", it.name, id),
                    (true, 3) => format!("{}::{} {{ port: 1 }}", it.name, id),
                    _ => format!("{}::{}", it.name, id),
                };
                s.push_str(&format!("        (\"{id}\".to_string(), serde_json::to_value(&{value}).ok().and_then(|v| tag_of(&v))),\n", id = id, value = value));
            }
            s.push_str("    ]));\n");
        } else {
            s.push_str(&format!("    {{\n        let v = {} {{ ", it.name));
            for (i, id) in FIELD_IDENTS.iter().enumerate() {
                s.push_str(&format!("{}: Some({}), ", id, i + 100));
            }
            s.push_str("};\n        let j = serde_json::to_value(&v).unwrap();\n        let o = j.as_object().unwrap();\n");
            s.push_str(&format!("        t.push((\"{}\".to_string(), vec![\n", it.name));
            for (i, id) in FIELD_IDENTS.iter().enumerate() {
                s.push_str(&format!(
                    "            (\"{}\".to_string(), o.iter().find(|(_, val)| val.as_i64() == Some({})).map(|(k, _)| k.clone())),\n",
                    id,
                    i + 100
                ));
            }
            s.push_str("        ]));\n    }\n");
        }
    }
    s.push_str("    t\n}\n\n/// the wire name of an externally tagged variant: the string itself, or the single key\nfn tag_of(v: &serde_json::Value) -> Option<String> {\n    match v {\n        serde_json::Value::String(s) => Some(s.clone()),\n        serde_json::Value::Object(o) if o.len() == 1 => o.keys().next().cloned(),\n        _ => None,\n    }\n}\n");
    s
}

pub fn fixtures_path() -> std::path::PathBuf {
    verif_root().join("harness/fixtures/src/lib.rs")
}

/// serde's answer per item: ident -> serialised name (None = not serialised)
pub fn serde_table() -> BTreeMap<String, BTreeMap<String, Option<String>>> {
    ttv_fixtures::table().into_iter().map(|(n, rows)| (n, rows.into_iter().collect())).collect()
}

/// Expected (present names) for an item per the property: names from serde; presence: absent iff
/// plain `skip`. For members serde does not serialise although the property keeps them
/// (skip_serializing), the name is read from the attribute-free sibling item.
pub fn expected_names(it: &ItemSpec, table: &BTreeMap<String, BTreeMap<String, Option<String>>>) -> BTreeMap<String, String> {
    let own = &table[&it.name];
    let sibling_name = format!("{}{}A0R0", if it.is_enum { "E" } else { "S" }, it.conv);
    let sibling_name = if table.contains_key(&sibling_name) { sibling_name } else { it.name.clone() };
    let sibling = &table[&sibling_name];
    let idents: Vec<&str> = if it.is_enum { VARIANT_IDENTS.to_vec() } else { FIELD_IDENTS.to_vec() };
    let mut m = BTreeMap::new();
    for (i, id) in idents.iter().enumerate() {
        let hidden_by_rule = !it.is_enum && i == it.designated && FIELD_ATTRS[it.attr].2;
        if hidden_by_rule {
            continue;
        }
        let name = own[*id].clone().or_else(|| sibling[*id].clone());
        if let Some(n) = name {
            m.insert(id.to_string(), n);
        }
    }
    m
}

fn observed_names(files: &BTreeMap<String, String>, it: &ItemSpec, zod: bool) -> Result<BTreeSet<String>, String> {
    let types = ts::parse_module(files.get("types.ts").ok_or("types.ts not written")?).map_err(|e| format!("SYNTAX types.ts: {}", e))?;
    let mi = ModInfo::of(&types);
    if zod {
        let init = mi.var_init(&format!("{}Schema", it.name)).ok_or_else(|| format!("{}Schema not declared", it.name))?;
        let z = shape::read_zod(init)?;
        match (&z.shape, it.is_enum) {
            (Shape::Obj(fields, _), false) => Ok(fields.keys().cloned().collect()),
            (Shape::Union(alts), true) => Ok(alts.iter().filter_map(|a| if let Shape::Lit(s) = a { Some(s.clone()) } else { None }).collect()),
            (Shape::Lit(s), true) => Ok([s.clone()].into_iter().collect()),
            (other, _) => Err(format!("{}Schema has unexpected shape {}", it.name, other.show())),
        }
    } else if it.is_enum {
        let t = mi.aliases.get(&it.name).ok_or_else(|| format!("type {} not declared", it.name))?;
        match shape::from_ts(t) {
            Shape::Union(alts) => Ok(alts.iter().filter_map(|a| if let Shape::Lit(s) = a { Some(s.clone()) } else { None }).collect()),
            Shape::Lit(s) => Ok([s].into_iter().collect()),
            other => Err(format!("type {} is not a literal union: {}", it.name, other.show())),
        }
    } else {
        let (_, members) = mi.interfaces.get(&it.name).ok_or_else(|| format!("interface {} not declared", it.name))?;
        Ok(members
            .iter()
            .filter_map(|m| if let Member::Prop { key, .. } = m { Some(prop_key_string(key)) } else { None })
            .collect())
    }
}

fn project_for(its: &[ItemSpec]) -> Project {
    let mut s = String::from(gen::PRELUDE);
    for it in its {
        s.push_str(&item_source(it));
        s.push_str(&format!("#[tauri::command]\npub fn use_{}(x: {}) -> bool {{ let _ = x; true }}\n\n", it.name.to_lowercase(), it.name));
    }
    Project::single(s)
}

fn judge(it: &ItemSpec, zod: bool, files: &BTreeMap<String, String>, table: &BTreeMap<String, BTreeMap<String, Option<String>>>) -> Result<Vec<Violation>, String> {
    let got = observed_names(files, it, zod)?;
    let exp = expected_names(it, table);
    let exp_set: BTreeSet<String> = exp.values().cloned().collect();
    let mut vs = vec![];
    if got != exp_set {
        let missing: Vec<String> = exp.iter().filter(|(_, n)| !got.contains(*n)).map(|(id, n)| format!("{}→{:?}", id, n)).collect();
        let extra: Vec<&String> = got.difference(&exp_set).collect();
        let kind = if it.is_enum { "variant" } else { "field" };
        let attr_label = if it.is_enum { VARIANT_ATTRS[it.attr].0 } else { FIELD_ATTRS[it.attr].0 };
        let designated = if it.is_enum { VARIANT_IDENTS[it.designated] } else { FIELD_IDENTS[it.designated] };
        // which identifiers are affected: the designated one only, or others too (convention rule)?
        let affected: BTreeSet<String> = exp.iter().filter(|(_, n)| !got.contains(*n)).map(|(id, _)| id.clone()).collect();
        let scope = if affected.is_empty() || (affected.len() == 1 && affected.contains(designated)) || (affected.is_empty() && !extra.is_empty()) { "designated" } else { "convention" };
        vs.push(
            Violation::new(
                "C06",
                "wire-name-mismatch",
                format!(
                    "{} `{}` (rename_all={:?}, attribute set `{}` on `{}`) {} mode: serde uses {:?}; generated has {:?}; expected-but-missing {:?}; unexpected {:?}\n{}",
                    kind,
                    it.name,
                    conventions()[it.conv],
                    attr_label,
                    designated,
                    if zod { "zod" } else { "none" },
                    exp_set,
                    got,
                    missing,
                    extra,
                    item_source(it)
                ),
                json!({"item": it.name, "zod": zod}),
            )
            .field("kind", kind)
            .field("rename_all", conventions()[it.conv].unwrap_or("-"))
            .field("attrs", attr_label)
            .field("scope", scope)
            .field("idents", if scope == "designated" { designated.to_string() } else { affected.into_iter().collect::<Vec<_>>().join(",") })
            .field("mode", if zod { "zod" } else { "none" })
            .rank((it.attr * 10 + it.conv) as u64),
        );
    }
    Ok(vs)
}

pub fn replay(case: &Value) -> Vec<Violation> {
    let name = case["item"].as_str().unwrap_or("");
    let zod = case["zod"].as_bool().unwrap_or(false);
    let Some(it) = items().into_iter().find(|i| i.name == name) else { return vec![] };
    let table = serde_table();
    if let Some(kind) = case["partial_config"].as_str() {
        let sb = crate::run::Sandbox::new();
        let fcfg = crate::sbx::FileCfg { zod, ..Default::default() };
        crate::sbx::write_sources(&sb.root, &project_for(std::slice::from_ref(&it)), &fcfg);
        if kind == "tauri" {
            let _ = std::fs::remove_file(sb.root.join("typegen.json"));
            std::fs::write(sb.root.join("tauri.conf.json"), fcfg.to_tauri_conf_json()).unwrap();
        }
        let r = crate::sbx::run_generate(&sb.root, crate::sbx::Seam::Cli, &crate::sbx::RunOpts { discover_config: kind == "tauri", ..Default::default() });
        if !r.success() {
            return vec![];
        }
        let files = crate::run::read_out_dir(&crate::sbx::out_dir(&sb.root, &fcfg));
        return judge(&it, zod, &files, &table).unwrap_or_default();
    }
    let cfg = Cfg { default_field_case: case["default_field_case"].as_str().map(|s| s.to_string()), ..Cfg::mode(zod) };
    let run = run_lib_default(&project_for(std::slice::from_ref(&it)), &cfg);
    if !run.ok() {
        return vec![];
    }
    judge(&it, zod, &run.files, &table).unwrap_or_default()
}

pub fn run(tier: Tier) -> CheckResult {
    let mut res = CheckResult::new("C06", "exploration");
    let _ = tier;
    // the committed fixture must be what the generator produces today (same text on both sides)
    match std::fs::read_to_string(fixtures_path()) {
        Ok(t) if t == fixtures_source() => {}
        Ok(_) => res.machinery_errors.push("harness/fixtures/src/lib.rs is stale: run `ttv gen-fixtures` and rebuild".into()),
        Err(e) => res.machinery_errors.push(format!("cannot read fixtures: {}", e)),
    }
    let table = serde_table();
    let all = items();
    // batch: one project per (convention, kind); items that fail or cannot be read are re-run solo
    let mut groups: BTreeMap<(usize, bool), Vec<ItemSpec>> = BTreeMap::new();
    for it in &all {
        groups.entry((it.conv, it.is_enum)).or_default().push(it.clone());
    }
    // enum groups also run under a configured default_field_case: variants are not fields
    let mut work: Vec<((usize, bool), bool, Option<&'static str>)> = groups.keys().flat_map(|k| [(*k, false, None), (*k, true, None)]).collect();
    for k in groups.keys().filter(|k| k.1) {
        for fc in ["camelCase", "snake_case", "SCREAMING_SNAKE_CASE"] {
            work.push((*k, k.0 % 2 == 0, Some(fc)));
        }
    }
    let results: Vec<(u64, Vec<Violation>, Vec<String>, u64)> = work
        .par_iter()
        .map(|(k, zod, field_case)| {
            let cfg_of = |zod: bool| Cfg { default_field_case: field_case.map(|s| s.to_string()), ..Cfg::mode(zod) };
            let its = &groups[k];
            let mut evals = 1u64;
            let mut vs = vec![];
            let mut mach = vec![];
            let mut judged = 0u64;
            let run = run_lib_default(&project_for(its), &cfg_of(*zod));
            let batch_ok = run.ok() && ts::parse_module(run.file("types.ts").unwrap_or("")).is_ok();
            for it in its {
                let r = if batch_ok {
                    judge(it, *zod, &run.files, &table)
                } else {
                    let solo = run_lib_default(&project_for(std::slice::from_ref(it)), &cfg_of(*zod));
                    evals += 1;
                    if !solo.ok() {
                        Err(format!("run failed: {}", solo.status_string()))
                    } else {
                        judge(it, *zod, &solo.files, &table)
                    }
                };
                match r {
                    Ok(v) => {
                        judged += 1;
                        // re-confirm solo before reporting
                        if !v.is_empty() && batch_ok {
                            let solo = run_lib_default(&project_for(std::slice::from_ref(it)), &cfg_of(*zod));
                            evals += 1;
                            match judge(it, *zod, &solo.files, &table) {
                                Ok(v2) if !v2.is_empty() => vs.extend(v2.into_iter().map(|v| match field_case {
                                    Some(fc) => v.field("default_field_case", *fc).with_replay_field("default_field_case", json!(fc)),
                                    None => v,
                                })),
                                _ => mach.push(format!("batch/solo disagreement for {}", it.name)),
                            }
                        } else {
                            vs.extend(v);
                        }
                    }
                    Err(e) if e.starts_with("SYNTAX") => {}
                    Err(e) => mach.push(format!("{} ({}): {}", it.name, if *zod { "zod" } else { "none" }, e)),
                }
            }
            (evals, vs, mach, judged)
        })
        .collect();
    // the same through the real binary with a configuration FILE that leaves the naming settings
    // out (the standalone file given with -c, and the plugins.typegen section of a discovered
    // tauri.conf.json): what a file does not mention keeps its default
    let cli_results: Vec<(u64, Vec<Violation>, Vec<String>, u64)> = [(false, false), (false, true), (true, false), (true, true)]
        .par_iter()
        .map(|(zod, tauri_conf)| {
            let mut vs = vec![];
            let mut mach = vec![];
            let mut judged = 0u64;
            let its: Vec<ItemSpec> = groups.iter().filter(|(k, _)| k.0 <= 2).flat_map(|(_, v)| v.iter().cloned()).collect();
            let sb = crate::run::Sandbox::new();
            let cfg = crate::sbx::FileCfg { zod: *zod, ..Default::default() };
            crate::sbx::write_sources(&sb.root, &project_for(&its), &cfg);
            if *tauri_conf {
                let _ = std::fs::remove_file(sb.root.join("typegen.json"));
                std::fs::write(sb.root.join("tauri.conf.json"), cfg.to_tauri_conf_json()).unwrap();
            }
            let r = crate::sbx::run_generate(&sb.root, crate::sbx::Seam::Cli, &crate::sbx::RunOpts { discover_config: *tauri_conf, ..Default::default() });
            if !r.success() {
                mach.push(format!("CLI run with a partial configuration file failed: {}", r.status_string()));
                return (1, vs, mach, judged);
            }
            let files = crate::run::read_out_dir(&crate::sbx::out_dir(&sb.root, &cfg));
            for it in &its {
                match judge(it, *zod, &files, &table) {
                    Ok(v) => {
                        judged += 1;
                        vs.extend(v.into_iter().map(|v| v.field("config", if *tauri_conf { "tauri.conf.json section without naming keys" } else { "standalone file without naming keys" }).with_replay_field("partial_config", json!(if *tauri_conf { "tauri" } else { "standalone" }))));
                    }
                    Err(e) if e.starts_with("SYNTAX") => {}
                    Err(e) => mach.push(format!("{} (cli, partial config): {}", it.name, e)),
                }
            }
            (1, vs, mach, judged)
        })
        .collect();
    let mut evaluations = 0;
    let mut judged = 0;
    for (e, v, m, j) in results.into_iter().chain(cli_results) {
        evaluations += e;
        judged += j;
        res.violations.extend(v);
        res.machinery_errors.extend(m);
    }
    res.machinery_errors.truncate(6);
    // how many (convention, kind, identifier, attribute) coordinates does the item set cover?
    let mut coords: BTreeSet<String> = BTreeSet::new();
    for it in &all {
        let idents: Vec<&str> = if it.is_enum { VARIANT_IDENTS.to_vec() } else { FIELD_IDENTS.to_vec() };
        for (i, id) in idents.iter().enumerate() {
            let a = if i == it.designated { it.attr } else { 0 };
            coords.insert(format!("{}|{}|{}|{}", it.conv, it.is_enum, id, a));
        }
    }
    res.coverage.set("evaluations", evaluations);
    res.coverage.set("items", all.len() as u64);
    res.coverage.set("item_mode_pairs_judged", judged);
    res.coverage.set("distinct_nontrivial", coords.len() as u64 * 2);
    res.coverage.set("exhaustive", true);
    res.coverage.set("serde_oracle_items", table.len() as u64);
    res.coverage.set("samples", json!([item_source(&all[5]), item_source(&all[all.len() - 3])]));
    res.coverage.set("rule", "[round 7: 25 field and 12 variant attribute sets incl. wire names that differ from a sibling only in letter case and wire names that read as numeric literals (0x10, 1e3, 1_000); numeric-literal keys are read as JavaScript reads them] items: for each of the 15 container settings (none + 8 rename_all conventions + rename_all(serialize, deserialize) in both orders + rename_all_fields alone and beside rename_all [enums] + rename_all split over two attributes with deny_unknown_fields / a container rename whose value is \"rename_all\") structs with 12 field identifiers (incl. words that start with a digit and non-ASCII identifiers, which serde upper-cases per ASCII only) and enums with 9 variant identifiers (three of them with underscores: X86_64, Utf_8, RISC_V; unit variants; plus enums with a tuple and a struct variant, whose literal is still the wire name; enum groups also under a configured default_field_case), one designated member carrying each of 19 (fields) / 8 (variants) attribute sets (rename values, rename(serialize, deserialize) in both orders and serialize-only, skip, skip_serializing_if, default, alias=\"skip\", rename=\"rename_all\", combined and separate attributes in both orders, skip_serializing, skip_deserializing); oracle for names = REAL serde: the same source text is compiled with serde_derive in the ttv-fixtures crate, serialised and read back; oracle for presence = the property's rule (absent iff plain skip); compared with the keys / literals parsed from the generated declaration in both modes (in process; and, for the first three container settings, through the real binary with a configuration file - standalone and tauri.conf.json section - that leaves the naming settings out). distinct_nontrivial = distinct (convention, kind, identifier, attribute set, mode) coordinates covered.");
    res.assumptions = vec!["skip on enum variants is not in the alphabet (the statement defines absence for fields only)".into()];
    res
}
