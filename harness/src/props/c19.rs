//! C19 - configuration is preserved, round-trips, and obeys flag > file > default.

use crate::core::*;
use crate::run::{self, Sandbox, Spawn};
use rayon::prelude::*;
use serde::{Deserialize, Serialize};
use serde_json::{json, Map, Value};
use std::collections::{BTreeMap, BTreeSet};
use std::path::Path;
use tauri_typegen::GenerateConfig;

// ------------------------------------------------------------------------------------------
// Part A: read-modify-write of tauri.conf.json (seam F, in process)
// ------------------------------------------------------------------------------------------

fn leaf_values() -> Vec<&'static str> {
    vec![
        "null",
        "true",
        "0",
        "-9223372036854775808",
        "18446744073709551615",
        "0.1",
        "1.5e300",
        "\"h\\u00e9llo \\ud83d\\ude00 \\\"q\\\" \\\\ /\"",
        "[]",
        "[1,[2,{\"a\":null}]]",
        "{}",
        "\"\"",
        "-0.0",
        "{\"typegen\":1,\"plugins\":{\"typegen\":2}}",
    ]
}

fn plugins_variants() -> Vec<Option<&'static str>> {
    vec![
        None,
        Some("{}"),
        Some("{\"shell\":{\"open\":true}}"),
        Some("{\"typegen\":{\"projectPath\":\"./old\",\"outputPath\":\"./old-out\",\"validationLibrary\":\"zod\"}}"),
        Some("{\"typegen\":{\"projectPath\":\"./old\",\"futureKey\":{\"x\":[1,2]},\"another\":null},\"fs\":{\"scope\":[\"$APP/*\"]}}"),
        Some("{\"updater\":null,\"typegen\":null}"),
        // an entry that already carries every optional setting: what is written replaces it
        Some("{\"typegen\":{\"projectPath\":\"./old\",\"outputPath\":\"./old-out\",\"validationLibrary\":\"zod\",\"verbose\":true,\"visualizeDeps\":true,\"includePrivate\":true,\"force\":true,\"typeMappings\":{\"Decimal\":\"string\"},\"excludePatterns\":[\"legacy\"],\"includePatterns\":[\"src/**\"],\"defaultParameterCase\":\"snake_case\",\"defaultFieldCase\":\"camelCase\"}}"),
    ]
}

/// All documents (as JSON text) with up to `max_members` extra top-level members whose values are
/// leaves or one-level objects of leaves, crossed with the plugins variants.
fn documents(max_members: usize) -> Vec<String> {
    let leaves = leaf_values();
    let mut values: Vec<String> = leaves.iter().map(|s| s.to_string()).collect();
    // depth 2: objects with one and two members
    for a in &leaves {
        values.push(format!("{{\"inner\":{}}}", a));
    }
    for (i, a) in leaves.iter().enumerate() {
        let b = leaves[(i + 3) % leaves.len()];
        values.push(format!("{{\"x\":{},\"y\":[{}]}}", a, b));
    }
    let keys = ["productName", "build", "ünï-kéy \\\"q\\\"", "app"];
    let mut member_sets: Vec<Vec<(String, String)>> = vec![vec![]];
    for v in &values {
        member_sets.push(vec![(keys[0].to_string(), v.clone())]);
    }
    if max_members >= 2 {
        for (i, v) in values.iter().enumerate() {
            let w = &values[(i * 7 + 1) % values.len()];
            member_sets.push(vec![(keys[1].to_string(), v.clone()), (keys[2].to_string(), w.clone())]);
        }
    }
    if max_members >= 3 {
        for (i, v) in values.iter().enumerate() {
            let w = &values[(i * 5 + 2) % values.len()];
            let x = &values[(i * 11 + 3) % values.len()];
            member_sets.push(vec![(keys[0].to_string(), v.clone()), (keys[3].to_string(), w.clone()), (keys[2].to_string(), x.clone())]);
        }
    }
    if max_members >= 4 {
        for (i, v) in values.iter().enumerate() {
            let w = &values[(i * 3 + 1) % values.len()];
            let x = &values[(i * 7 + 5) % values.len()];
            let y = &values[(i * 13 + 2) % values.len()];
            member_sets.push(vec![(keys[3].to_string(), v.clone()), (keys[1].to_string(), w.clone()), (keys[0].to_string(), x.clone()), (keys[2].to_string(), y.clone())]);
        }
    }
    let mut docs = vec![];
    for ms in &member_sets {
        for (pi, pv) in plugins_variants().iter().enumerate() {
            let mut parts: Vec<String> = vec![];
            // plugins placed at different positions among the members
            let mut inserted = false;
            for (mi, (k, v)) in ms.iter().enumerate() {
                if !inserted && mi == pi % (ms.len() + 1) {
                    if let Some(p) = pv {
                        parts.push(format!("\"plugins\":{}", p));
                    }
                    inserted = true;
                }
                parts.push(format!("\"{}\":{}", k, v));
            }
            if !inserted {
                if let Some(p) = pv {
                    parts.push(format!("\"plugins\":{}", p));
                }
            }
            docs.push(format!("{{{}}}", parts.join(",")));
        }
    }
    // the same documents laid out generously (what is written back is shorter than what was there):
    // indented with eight spaces per level, and with a long run of trailing white space
    let compact = docs.clone();
    for d in &compact {
        if let Ok(v) = serde_json::from_str::<Value>(d) {
            let mut buf = Vec::new();
            let fmt = serde_json::ser::PrettyFormatter::with_indent(b"        ");
            let mut ser = serde_json::Serializer::with_formatter(&mut buf, fmt);
            if serde::Serialize::serialize(&v, &mut ser).is_ok() {
                // (re-serialising loses nothing the comparison looks at: it is by JSON value)
                docs.push(String::from_utf8(buf).unwrap_or_default() + "\n\n");
            }
        }
        docs.push(format!("{}{}\n", d, " ".repeat(3000)));
    }
    docs
}

fn settings_variants(project_dir: &str) -> Vec<GenerateConfig> {
    let mut v = vec![];
    v.push(GenerateConfig { project_path: project_dir.to_string(), ..Default::default() });
    v.push(GenerateConfig {
        project_path: project_dir.to_string(),
        output_path: "./gén \"out\"\\dir".into(),
        validation_library: "zod".into(),
        verbose: Some(true),
        visualize_deps: Some(true),
        include_private: Some(true),
        type_mappings: Some([("DateTime<Utc>".to_string(), "string".to_string()), ("Uuid".to_string(), "str\"ing".to_string())].into_iter().collect()),
        exclude_patterns: Some(vec!["**/tests/**".into(), "a\\b".into()]),
        include_patterns: Some(vec![]),
        force: Some(true),
        ..Default::default()
    });
    v.push(GenerateConfig {
        project_path: project_dir.to_string(),
        output_path: "".into(),
        validation_library: "none".into(),
        verbose: None,
        visualize_deps: None,
        include_private: None,
        type_mappings: Some(Default::default()),
        exclude_patterns: None,
        include_patterns: Some(vec!["src/**".into()]),
        force: None,
        ..Default::default()
    });
    v
}

fn without_typegen(doc: &Value) -> Value {
    let mut d = doc.clone();
    if let Some(p) = d.get_mut("plugins").and_then(|p| p.as_object_mut()) {
        p.remove("typegen");
    }
    d
}

fn persisted(c: &GenerateConfig) -> Value {
    json!({
        "project_path": c.project_path,
        "output_path": c.output_path,
        "validation_library": c.validation_library,
        "verbose": c.verbose.unwrap_or(false),
        "visualize_deps": c.visualize_deps.unwrap_or(false),
        "include_private": c.include_private.unwrap_or(false),
        "type_mappings": c.type_mappings.clone().map(|m| m.into_iter().collect::<BTreeMap<_, _>>()),
        "exclude_patterns": c.exclude_patterns,
        "include_patterns": c.include_patterns,
        "force": c.force.unwrap_or(false),
    })
}

fn roundtrip_case(doc_text: &str, settings_idx: usize) -> Vec<Violation> {
    let sb = Sandbox::new();
    let proj = sb.path("proj");
    std::fs::create_dir_all(&proj).unwrap();
    let settings = &settings_variants(&proj.to_string_lossy())[settings_idx];
    let path = sb.path("tauri.conf.json");
    std::fs::write(&path, doc_text).unwrap();
    let original: Value = match serde_json::from_str(doc_text) {
        Ok(v) => v,
        Err(_) => return vec![],
    };
    let mk = |class: &str, detail: String| {
        Violation::new("C19", class, format!("document {} with settings #{}: {}", doc_text, settings_idx, detail), json!({"kind":"roundtrip","doc":doc_text,"settings":settings_idx}))
            .field("part", "roundtrip")
            .field("plugins", match original.get("plugins") {
                None => "absent".to_string(),
                Some(Value::Object(o)) if o.contains_key("typegen") => "with-typegen".to_string(),
                Some(Value::Object(_)) => "without-typegen".to_string(),
                Some(_) => "not-an-object".to_string(),
            })
            .rank(doc_text.len() as u64)
    };
    let mut vs = vec![];
    let r = std::panic::catch_unwind(std::panic::AssertUnwindSafe(|| settings.save_to_tauri_config(&path)));
    match r {
        Err(_) => return vec![mk("panic", format!("save_to_tauri_config panicked: {:?}", run::take_panic_msg()))],
        Ok(Err(e)) => return vec![mk("save-failed", e.to_string())],
        Ok(Ok(())) => {}
    }
    let new_text = std::fs::read_to_string(&path).unwrap_or_default();
    let new_doc: Value = match serde_json::from_str(&new_text) {
        Ok(v) => v,
        Err(e) => return vec![mk("document-corrupted", format!("rewritten file is not JSON: {}", e))],
    };
    if without_typegen(&new_doc) != {
        let mut o = without_typegen(&original);
        // saving creates an empty plugins object when there was none
        if o.get("plugins").is_none() {
            if let Some(m) = o.as_object_mut() {
                m.insert("plugins".into(), json!({}));
            }
        }
        o
    } {
        vs.push(mk("other-keys-changed", format!("document minus plugins.typegen changed: {} -> {}", without_typegen(&original), without_typegen(&new_doc))));
    }
    match GenerateConfig::from_tauri_config(&path) {
        Ok(Some(back)) => {
            if persisted(&back) != persisted(settings) {
                vs.push(mk("settings-roundtrip", format!("written {} but read back {}", persisted(settings), persisted(&back))));
            }
        }
        Ok(None) => vs.push(mk("settings-roundtrip", "no typegen section found after saving".into())),
        Err(e) => vs.push(mk("settings-roundtrip", format!("reading back failed: {}", e))),
    }
    // a second write over the first one, with the other settings objects (longer and shorter ones)
    for step in 1..3 {
        let other = &settings_variants(&proj.to_string_lossy())[(settings_idx + step) % 3];
        if other.save_to_tauri_config(&path).is_err() {
            continue;
        }
        let text = std::fs::read_to_string(&path).unwrap_or_default();
        match serde_json::from_str::<Value>(&text) {
            Err(e) => {
                vs.push(mk("document-corrupted", format!("after writing settings #{} over settings #{} the file is not JSON: {}", (settings_idx + step) % 3, (settings_idx + step - 1) % 3, e)));
                break;
            }
            Ok(doc2) => {
                let mut want = without_typegen(&original);
                if want.get("plugins").is_none() {
                    if let Some(m) = want.as_object_mut() {
                        m.insert("plugins".into(), json!({}));
                    }
                }
                if without_typegen(&doc2) != want {
                    vs.push(mk("other-keys-changed", format!("after a second write the document minus plugins.typegen is {}", without_typegen(&doc2))));
                    break;
                }
                match GenerateConfig::from_tauri_config(&path) {
                    Ok(Some(back)) if persisted(&back) == persisted(other) => {}
                    _ => {
                        vs.push(mk("settings-roundtrip", format!("second write: settings #{} do not read back", (settings_idx + step) % 3)));
                        break;
                    }
                }
            }
        }
    }
    vs
}

// ------------------------------------------------------------------------------------------
// Part B: precedence flag > file > default on the real binary
// ------------------------------------------------------------------------------------------

#[derive(Debug, Clone, Copy, PartialEq, Eq, Serialize, Deserialize, PartialOrd, Ord)]
pub enum Source {
    NoFile,
    CwdTauriConf,
    SrcTauriConf,
    ParentTauriConf,
    ExplicitConfig,
}

#[derive(Debug, Clone, Serialize, Deserialize, Default)]
pub struct FileVals {
    /// None = absent; values: "default-dir" | "alt" | "missing"
    pub project: Option<String>,
    /// "file1" | "file2"
    pub output: Option<String>,
    /// "zod" | "none" | "yup"
    pub validation: Option<String>,
    pub verbose: Option<bool>,
    pub force: Option<bool>,
    /// one further key of the entry carries a value of the wrong JSON type ("verbose": "true",
    /// "force": 1, "typeMappings": {"A": 1}, "excludePatterns": "legacy"): the well-typed keys beside
    /// it still beat the defaults, unless the whole run is refused with an error
    #[serde(default)]
    pub mistyped: Option<String>,
}

#[derive(Debug, Clone, Serialize, Deserialize)]
pub struct PrecCase {
    pub source: Source,
    pub file: FileVals,
    /// bit 0: -p alt, 1: -o flag-out, 2: -v (zod unless file says zod, then none), 3: --verbose, 4: --force
    pub flags: u8,
    /// the value flags are given with the built-in default values (-p ./src-tauri, -o ./src/generated,
    /// -v none): a flag that is present wins even then
    #[serde(default)]
    pub flag_defaults: bool,
}

const P_DEFAULT: &str = "./src-tauri";
const P_ALT: &str = "./alt-proj";

fn project_path_of(v: &str) -> &'static str {
    match v {
        "alt" => P_ALT,
        "missing" => "./missing-dir",
        // does not exist either, but looking it up fails with something other than "not found"
        "through-file" => "./src-tauri/src/lib.rs/sub",
        "long-name" => LONG_NAME.get_or_init(|| format!("./src-tauri/{}", "m".repeat(300))).as_str(),
        _ => P_DEFAULT,
    }
}
static LONG_NAME: std::sync::OnceLock<String> = std::sync::OnceLock::new();

/// the output directory a file value names: "file2" is three levels deep, none of which exists
fn out_path_of(v: &str) -> String {
    if v == "file2" {
        "./out-file2/nested/deeper".to_string()
    } else {
        format!("./out-{}", v)
    }
}

fn is_missing_project(path: &str) -> bool {
    path == "./missing-dir" || path == project_path_of("through-file") || path == project_path_of("long-name")
}

fn file_json(src: Source, f: &FileVals) -> String {
    let tauri_style = src != Source::ExplicitConfig;
    let mut o = Map::new();
    let k = |camel: &str, snake: &str| if tauri_style { camel.to_string() } else { snake.to_string() };
    if let Some(p) = &f.project {
        o.insert(k("projectPath", "project_path"), json!(project_path_of(p)));
    }
    if let Some(p) = &f.output {
        o.insert(k("outputPath", "output_path"), json!(out_path_of(p)));
    }
    if let Some(p) = &f.validation {
        o.insert(k("validationLibrary", "validation_library"), json!(p));
    }
    if let Some(p) = f.verbose {
        o.insert("verbose".into(), json!(p));
    }
    if let Some(p) = f.force {
        o.insert("force".into(), json!(p));
    }
    match f.mistyped.as_deref() {
        Some("verbose") => {
            o.insert("verbose".into(), json!("true"));
        }
        Some("force") => {
            o.insert("force".into(), json!(1));
        }
        Some("typeMappings") => {
            o.insert(k("typeMappings", "type_mappings"), json!({"A": 1}));
        }
        Some("excludePatterns") => {
            o.insert(k("excludePatterns", "exclude_patterns"), json!("legacy"));
        }
        _ => {}
    }
    if tauri_style {
        json!({"productName":"demo","plugins":{"typegen": Value::Object(o)}}).to_string()
    } else {
        Value::Object(o).to_string()
    }
}

struct Effective {
    project: String,
    output: String,
    validation: String,
    verbose: bool,
    force: bool,
}

fn flag_validation(f: &FileVals) -> &'static str {
    if f.validation.as_deref() == Some("zod") {
        "none"
    } else {
        "zod"
    }
}

fn effective(c: &PrecCase) -> Effective {
    let file_present = c.source != Source::NoFile;
    let fv = |x: &Option<String>| if file_present { x.clone() } else { None };
    Effective {
        project: if c.flags & 1 != 0 { if c.flag_defaults { P_DEFAULT.into() } else { P_ALT.into() } } else { fv(&c.file.project).map(|p| project_path_of(&p).to_string()).unwrap_or(P_DEFAULT.into()) },
        output: if c.flags & 2 != 0 { if c.flag_defaults { "./src/generated".into() } else { "./out-flag".into() } } else { fv(&c.file.output).map(|o| out_path_of(&o)).unwrap_or("./src/generated".into()) },
        validation: if c.flags & 4 != 0 { if c.flag_defaults { "none".into() } else { flag_validation(&c.file).into() } } else { fv(&c.file.validation).unwrap_or("none".into()) },
        verbose: c.flags & 8 != 0 || (file_present && c.file.verbose == Some(true)),
        force: c.flags & 16 != 0 || (file_present && c.file.force == Some(true)),
    }
}

fn args_for(c: &PrecCase) -> Vec<String> {
    let mut a: Vec<String> = vec!["tauri-typegen".into(), "generate".into()];
    if c.source == Source::ExplicitConfig {
        a.push("-c".into());
        a.push("cfg.json".into());
    }
    if c.flags & 1 != 0 {
        a.extend(["-p".to_string(), if c.flag_defaults { P_DEFAULT.to_string() } else { P_ALT.to_string() }]);
    }
    if c.flags & 2 != 0 {
        a.extend(["-o".to_string(), if c.flag_defaults { "./src/generated".to_string() } else { "./out-flag".to_string() }]);
    }
    if c.flags & 4 != 0 {
        a.extend(["-v".to_string(), if c.flag_defaults { "none".to_string() } else { flag_validation(&c.file).to_string() }]);
    }
    if c.flags & 8 != 0 {
        a.push("--verbose".into());
    }
    if c.flags & 16 != 0 {
        a.push("--force".into());
    }
    a
}

fn setup_sandbox(sb: &Sandbox, c: &PrecCase) -> std::path::PathBuf {
    // cwd is <sb>/outer/w so that ../tauri.conf.json is inside the sandbox
    let w = sb.path("outer/w");
    std::fs::create_dir_all(w.join("src-tauri/src")).unwrap();
    std::fs::create_dir_all(w.join("alt-proj/src")).unwrap();
    std::fs::write(w.join("src-tauri/src/lib.rs"), "#[tauri::command]\npub fn from_default_project(a: i32) -> i32 { a }\n").unwrap();
    std::fs::write(w.join("alt-proj/src/lib.rs"), "#[tauri::command]\npub fn from_alt_project(a: i32) -> i32 { a }\n").unwrap();
    let text = file_json(c.source, &c.file);
    match c.source {
        Source::NoFile => {}
        Source::CwdTauriConf => std::fs::write(w.join("tauri.conf.json"), text).unwrap(),
        Source::SrcTauriConf => std::fs::write(w.join("src-tauri/tauri.conf.json"), text).unwrap(),
        Source::ParentTauriConf => std::fs::write(sb.path("outer/tauri.conf.json"), text).unwrap(),
        Source::ExplicitConfig => std::fs::write(w.join("cfg.json"), text).unwrap(),
    }
    w
}

fn run_cli_in(w: &Path, args: Vec<String>) -> run::ProcRun {
    run::spawn(Spawn { program: run::cli_binary(), args, cwd: w, schedule_env: None, trace_file: None, strace: None , hash_seed: None, fsize_limit: None})
}

fn find_outputs(root: &Path) -> BTreeMap<String, String> {
    // relative dir -> commands.ts content, for every directory containing a commands.ts
    let mut m = BTreeMap::new();
    for (p, bytes) in run::snapshot_tree(root) {
        if p.ends_with("/commands.ts") {
            m.insert(p.trim_end_matches("/commands.ts").to_string(), String::from_utf8_lossy(&bytes).to_string());
        }
    }
    m
}

pub fn eval_prec(c: &PrecCase) -> (Vec<Violation>, u64, String) {
    let sb = Sandbox::new();
    let w = setup_sandbox(&sb, c);
    let eff = effective(c);
    let invalid_validation = !matches!(eff.validation.as_str(), "zod" | "none");
    let invalid_project = is_missing_project(&eff.project);
    let mk = |class: &str, detail: String| {
        let mut inval = vec![];
        if c.file.validation.as_deref().is_some_and(|v| !matches!(v, "zod" | "none")) {
            inval.push("file.validation");
        }
        if c.file.project.as_deref().is_some_and(|p| is_missing_project(project_path_of(p))) {
            inval.push("file.project");
        }
        Violation::new("C19", class, format!("{:?} flags {:05b} (args {:?}; file {}): {}", c.source, c.flags, args_for(c), file_json(c.source, &c.file), detail), json!({"kind":"precedence","case":c}))
            .field("part", "precedence")
            .field("source", format!("{:?}", c.source))
            .field("invalid_in_file", if inval.is_empty() { "-".to_string() } else { inval.join("+") })
            .field("flags", format!("{:05b}{}", c.flags, if c.flag_defaults { " (default values)" } else { "" }))
            .field("mistyped", c.file.mistyped.clone().unwrap_or("-".into()))
            .rank((c.flags.count_ones() + [c.file.project.is_some(), c.file.output.is_some(), c.file.validation.is_some(), c.file.verbose.is_some(), c.file.force.is_some()].iter().filter(|x| **x).count() as u32) as u64)
    };
    let mut vs = vec![];
    let mut runs = 1u64;
    let before = run::snapshot_tree(&sb.root);
    let r = run_cli_in(&w, args_for(c));
    let after = run::snapshot_tree(&sb.root);
    let outcome;
    if invalid_validation || invalid_project {
        outcome = format!("invalid:{}", r.status_string());
        if r.success() {
            vs.push(mk("invalid-setting-accepted", format!("effective {} is invalid but the run exited 0", if invalid_validation { format!("validation library {:?}", eff.validation) } else { format!("project path {:?}", eff.project) })));
        }
        if before != after {
            let changed: Vec<&String> = after.keys().filter(|k| before.get(*k) != after.get(*k)).collect();
            vs.push(mk("written-before-rejecting", format!("something was written although the settings are invalid: {:?}", changed)));
        }
        return (vs, runs, outcome);
    }
    if !r.success() && c.file.mistyped.is_some() && c.source != Source::NoFile {
        // refusing a document with a mistyped value is fine - as long as nothing was written
        if before != after {
            let changed: Vec<&String> = after.keys().filter(|k| before.get(*k) != after.get(*k)).collect();
            vs.push(mk("written-before-rejecting", format!("the run was refused ({}) but something was written: {:?}", r.status_string(), changed)));
        }
        return (vs, runs, format!("refused-mistyped:{}", r.status_string()));
    }
    if !r.success() {
        vs.push(mk("valid-settings-rejected", format!("exit {} stderr {}", r.status_string(), r.stderr.trim())));
        return (vs, runs, format!("rejected:{}", r.status_string()));
    }
    let outs = find_outputs(&sb.root);
    let want_dir = format!("outer/w/{}", eff.output.trim_start_matches("./"));
    let want_cmd = if eff.project == P_ALT { "from_alt_project" } else { "from_default_project" };
    outcome = format!("ok:{}:{}:{}:v{}", eff.output, eff.validation, want_cmd, eff.verbose);
    match outs.get(&want_dir) {
        None => vs.push(mk("output-path-precedence", format!("expected output in {} but found output in {:?}", want_dir, outs.keys().collect::<Vec<_>>()))),
        Some(cmds) => {
            if outs.len() != 1 {
                vs.push(mk("output-path-precedence", format!("output in several directories: {:?}", outs.keys().collect::<Vec<_>>())));
            }
            if !cmds.contains(want_cmd) {
                vs.push(mk("project-path-precedence", format!("expected the project with {} to be analysed", want_cmd)));
            }
            let header_ok = cmds.contains(&format!("Generator: {}", eff.validation));
            if !header_ok {
                vs.push(mk("validation-precedence", format!("expected Generator: {} in the header", eff.validation)));
            }
        }
    }
    let verbose_seen = r.stdout.contains("Analyzing file") || r.stdout.contains("Parsing file");
    if verbose_seen != eff.verbose && c.file.mistyped.as_deref() != Some("verbose") {
        vs.push(mk("verbose-precedence", format!("expected verbose={} but verbose output present={}", eff.verbose, verbose_seen)));
    }
    // force: run again with identical arguments on the now matching cache
    let od = sb.root.join(&want_dir);
    if od.is_dir() && (c.flags & 16 != 0 || c.file.force.is_some()) && c.file.mistyped.as_deref() != Some("force") {
        let past = std::time::SystemTime::UNIX_EPOCH + std::time::Duration::from_secs(1_000_000_000);
        for f in ["types.ts", "commands.ts", "index.ts"] {
            if let Ok(fh) = std::fs::File::options().write(true).open(od.join(f)) {
                let _ = fh.set_modified(past);
            }
        }
        let r2 = run_cli_in(&w, args_for(c));
        runs += 1;
        let rewritten = std::fs::metadata(od.join("types.ts")).and_then(|m| m.modified()).map(|t| t != past).unwrap_or(false);
        if r2.success() && rewritten != eff.force {
            vs.push(mk("force-precedence", format!("expected force={} but regenerated={}", eff.force, rewritten)));
        }
    }
    (vs, runs, outcome)
}

// ------------------------------------------------------------------------------------------
// Part C: `init` on the real binary - writes the settings, then generates with them
// ------------------------------------------------------------------------------------------

#[derive(Debug, Clone, Serialize, Deserialize)]
pub struct InitCase {
    /// -p: None (default ./src-tauri) | "alt" | "missing"
    pub project: Option<String>,
    /// -g given?
    pub generated: bool,
    /// -v: None | "zod" | "none" | "yup"
    pub validation: Option<String>,
    /// -o: "default" (none given) | "custom-new" | "custom-nested-new" | "custom-existing" | "custom-existing-force" | "explicit-tauri"
    pub out: String,
    pub visualize: bool,
}

fn init_args(c: &InitCase) -> Vec<String> {
    let mut a: Vec<String> = vec!["tauri-typegen".into(), "init".into()];
    if let Some(p) = &c.project {
        a.extend(["-p".to_string(), project_path_of(p).to_string()]);
    }
    if c.generated {
        a.extend(["-g".to_string(), "./out-init".to_string()]);
    }
    if let Some(v) = &c.validation {
        a.extend(["-v".to_string(), v.clone()]);
    }
    match c.out.as_str() {
        "custom-new" => a.extend(["-o".to_string(), "conf/new.json".to_string()]),
        "custom-nested-new" => a.extend(["-o".to_string(), "config/tools/typegen.json".to_string()]),
        "custom-existing" => a.extend(["-o".to_string(), "custom.json".to_string()]),
        "custom-existing-force" => a.extend(["-o".to_string(), "custom.json".to_string(), "--force".to_string()]),
        "explicit-tauri" => a.extend(["-o".to_string(), "./alt-proj/tauri.conf.json".to_string()]),
        _ => {}
    }
    if c.visualize {
        a.push("--visualize-deps".into());
    }
    a
}

pub fn eval_init(c: &InitCase) -> (Vec<Violation>, String) {
    let sb = Sandbox::new();
    let w = sb.path("outer/w");
    for d in ["src-tauri", "alt-proj"] {
        std::fs::create_dir_all(w.join(d).join("src")).unwrap();
        std::fs::write(w.join(d).join("tauri.conf.json"), "{\"productName\":\"demo\",\"build\":{\"n\":18446744073709551615},\"plugins\":{\"shell\":{\"open\":true}}}").unwrap();
    }
    std::fs::create_dir_all(w.join("conf")).unwrap();
    std::fs::write(w.join("src-tauri/src/lib.rs"), "#[tauri::command]\npub fn from_default_project(a: i32) -> i32 { a }\n").unwrap();
    std::fs::write(w.join("alt-proj/src/lib.rs"), "#[tauri::command]\npub fn from_alt_project(a: i32) -> i32 { a }\n").unwrap();
    std::fs::write(w.join("custom.json"), "{\"project_path\":\"./old\",\"mine\":true}").unwrap();
    let project = c.project.as_deref().map(project_path_of).unwrap_or(P_DEFAULT);
    let generated = if c.generated { "./out-init" } else { "./src/generated" };
    let validation = c.validation.clone().unwrap_or("none".into());
    // where the configuration goes
    let (conf_rel, tauri_style): (String, bool) = match c.out.as_str() {
        "custom-new" => ("conf/new.json".into(), false),
        // (no directory `config` exists)
        "custom-nested-new" => ("config/tools/typegen.json".into(), false),
        "custom-existing" | "custom-existing-force" => ("custom.json".into(), false),
        "explicit-tauri" => ("alt-proj/tauri.conf.json".into(), true),
        _ => (format!("{}/tauri.conf.json", project.trim_start_matches("./")), true),
    };
    let invalid: Option<String> = if is_missing_project(project) {
        Some("project path does not exist".into())
    } else if !matches!(validation.as_str(), "zod" | "none") {
        Some(format!("validation library {:?}", validation))
    } else if c.out == "custom-existing" {
        Some("configuration file exists and --force not given".into())
    } else {
        None
    };
    let mk = |class: &str, detail: String| {
        Violation::new("C19", class, format!("init {:?}: {}", init_args(c), detail), json!({"kind":"init","case":c}))
            .field("part", "init")
            .field("plugins", "-")
            .field("source", format!("init:{}", c.out))
            .field("invalid_in_file", invalid.clone().map(|_| match (is_missing_project(project), !matches!(validation.as_str(), "zod" | "none")) { (true, _) => "project", (_, true) => "validation", _ => "exists" }.to_string()).unwrap_or("-".into()))
            .field("flags", format!("p={:?} g={} v={:?}", c.project, c.generated, c.validation))
            .rank(init_args(c).len() as u64)
    };
    let mut vs = vec![];
    let before = run::snapshot_tree(&sb.root);
    let r = run_cli_in(&w, init_args(c));
    let after = run::snapshot_tree(&sb.root);
    if let Some(why) = invalid.clone() {
        if r.success() {
            vs.push(mk("invalid-setting-accepted", format!("{} but init exited 0", why)));
        }
        if before != after {
            let changed: Vec<&String> = after.keys().chain(before.keys()).filter(|k| before.get(*k) != after.get(*k)).collect::<BTreeSet<_>>().into_iter().collect();
            vs.push(mk("written-before-rejecting", format!("{}: init failed ({}) yet changed {:?}", why, r.status_string(), changed)));
        }
        return (vs, format!("init-invalid:{}", r.status_string()));
    }
    if !r.success() && c.out == "custom-nested-new" {
        // refusing to write below a directory that does not exist is fine - with nothing written
        if before != after {
            let changed: Vec<&String> = after.keys().chain(before.keys()).filter(|k| before.get(*k) != after.get(*k)).collect::<BTreeSet<_>>().into_iter().collect();
            vs.push(mk("written-before-rejecting", format!("init failed ({}) yet changed {:?}", r.status_string(), changed)));
        }
        return (vs, format!("init-refused-missing-dir:{}", r.status_string()));
    }
    if !r.success() {
        vs.push(mk("valid-settings-rejected", format!("exit {} stderr {}", r.status_string(), r.stderr.trim())));
        return (vs, format!("init-rejected:{}", r.status_string()));
    }
    // only the configuration file and the output directory may differ
    let out_prefix = format!("outer/w/{}", generated.trim_start_matches("./"));
    let conf_key = format!("outer/w/{}", conf_rel);
    let stray: Vec<&String> = after
        .keys()
        .chain(before.keys())
        .filter(|k| before.get(*k) != after.get(*k))
        .filter(|k| **k != conf_key && !(k.ends_with('/') && conf_key.starts_with(k.as_str())) && !k.starts_with(&format!("{}/", out_prefix)) && !format!("{}/", out_prefix).starts_with(k.as_str()))
        .collect::<BTreeSet<_>>()
        .into_iter()
        .collect();
    if !stray.is_empty() {
        vs.push(mk("init-touched-other-files", format!("besides {} and {}: {:?}", conf_rel, generated, stray)));
    }
    // what was written reads back as what was asked for, and the rest of the document survives
    let conf_path = w.join(&conf_rel);
    // (read as JSON: the library's readers validate the project path against the current directory)
    let doc_back: Option<Value> = std::fs::read_to_string(&conf_path).ok().and_then(|t| serde_json::from_str(&t).ok());
    let section: Option<Value> = doc_back.as_ref().map(|d| if tauri_style { d["plugins"]["typegen"].clone() } else { d.clone() });
    match section {
        Some(sec) if sec.is_object() => {
            let key = |camel: &str, snake: &str| sec.get(if tauri_style { camel } else { snake }).cloned().unwrap_or(Value::Null);
            let got = (key("projectPath", "project_path"), key("outputPath", "output_path"), key("validationLibrary", "validation_library"), key("visualizeDeps", "visualize_deps"));
            let want = (json!(project), json!(generated), json!(validation), json!(c.visualize));
            if got != want {
                vs.push(mk("settings-roundtrip", format!("asked for {:?} but {} holds {:?}", want, conf_rel, got)));
            }
        }
        _ => vs.push(mk("settings-roundtrip", format!("{} holds no settings object after init", conf_rel))),
    }
    if tauri_style {
        let doc: Value = std::fs::read_to_string(&conf_path).ok().and_then(|t| serde_json::from_str(&t).ok()).unwrap_or(Value::Null);
        let want = json!({"productName":"demo","build":{"n":18446744073709551615u64},"plugins":{"shell":{"open":true}}});
        if without_typegen(&doc) != want {
            vs.push(mk("other-keys-changed", format!("document minus plugins.typegen is now {}", without_typegen(&doc))));
        }
    }
    // the initial generation used the same settings
    let outs = find_outputs(&sb.root);
    let want_cmd = if project == P_ALT { "from_alt_project" } else { "from_default_project" };
    match outs.get(&out_prefix) {
        None => vs.push(mk("output-path-precedence", format!("expected the initial generation in {} but found output in {:?}", generated, outs.keys().collect::<Vec<_>>()))),
        Some(cmds) => {
            if !cmds.contains(want_cmd) {
                vs.push(mk("project-path-precedence", format!("expected the project with {} to be analysed", want_cmd)));
            }
            if !cmds.contains(&format!("Generator: {}", validation)) {
                vs.push(mk("validation-precedence", format!("expected Generator: {} in the header", validation)));
            }
        }
    }
    (vs, format!("init-ok:{}:{}:{}", c.out, generated, validation))
}

pub fn replay(case: &Value) -> Vec<Violation> {
    if case["kind"] == "init" {
        return serde_json::from_value::<InitCase>(case["case"].clone()).map(|c| eval_init(&c).0).unwrap_or_default();
    }
    if case["kind"] == "roundtrip" {
        return roundtrip_case(case["doc"].as_str().unwrap_or("{}"), case["settings"].as_u64().unwrap_or(0) as usize);
    }
    serde_json::from_value::<PrecCase>(case["case"].clone()).map(|c| eval_prec(&c).0).unwrap_or_default()
}

pub fn run(tier: Tier) -> CheckResult {
    let mut res = CheckResult::new("C19", "exploration");
    let deadline = tier_deadline(tier);
    // ---- part A
    let docs = documents(if tier == Tier::Quick { 3 } else { 4 });
    let work: Vec<(usize, usize)> = (0..docs.len()).flat_map(|d| (0..3).map(move |s| (d, s))).collect();
    let rres: Vec<Vec<Violation>> = work.par_iter().map(|(d, s)| if deadline.passed() { vec![] } else { roundtrip_case(&docs[*d], *s) }).collect();
    let mut all_v: Vec<Violation> = rres.into_iter().flatten().collect();
    // ---- part B
    let mut pcases: Vec<PrecCase> = vec![];
    let sources: Vec<Source> = if false { vec![Source::NoFile, Source::CwdTauriConf, Source::ExplicitConfig] } else { vec![Source::NoFile, Source::CwdTauriConf, Source::SrcTauriConf, Source::ParentTauriConf, Source::ExplicitConfig] };
    let s = |x: &str| Some(x.to_string());
    let mut single_field_files: Vec<FileVals> = vec![FileVals::default()];
    for p in ["default-dir", "alt", "missing", "through-file", "long-name"] {
        single_field_files.push(FileVals { project: s(p), ..Default::default() });
    }
    for o in ["file1", "file2"] {
        single_field_files.push(FileVals { output: s(o), ..Default::default() });
    }
    for v in ["zod", "none", "yup", "Zod"] {
        single_field_files.push(FileVals { validation: s(v), ..Default::default() });
    }
    for b in [true, false] {
        single_field_files.push(FileVals { verbose: Some(b), ..Default::default() });
        single_field_files.push(FileVals { force: Some(b), ..Default::default() });
    }
    // pairs / full files at valid values, and the "one invalid + others valid" combinations
    let mut multi: Vec<FileVals> = vec![
        FileVals { project: s("alt"), output: s("file1"), validation: s("zod"), verbose: Some(true), force: Some(true), mistyped: None },
        FileVals { project: s("default-dir"), output: s("file2"), validation: s("none"), verbose: Some(false), force: Some(false), mistyped: None },
        FileVals { project: s("missing"), output: s("file1"), validation: s("zod"), verbose: Some(true), force: None, mistyped: None },
        FileVals { project: s("alt"), output: s("file1"), validation: s("yup"), verbose: None, force: Some(true), mistyped: None },
        FileVals { project: None, output: s("file1"), validation: s("zod"), verbose: None, force: None, mistyped: None },
        FileVals { project: s("alt"), output: None, validation: None, verbose: Some(true), force: None, mistyped: None },
    ];
    for src in &sources {
        if *src == Source::NoFile {
            for flags in 0..32u8 {
                pcases.push(PrecCase { source: *src, file: FileVals::default(), flags, flag_defaults: false });
            }
            continue;
        }
        for f in &single_field_files {
            for flags in 0..32u8 {
                pcases.push(PrecCase { source: *src, file: f.clone(), flags, flag_defaults: false });
            }
        }
        // value flags spelled with the built-in defaults against files that say otherwise
        for f in [&multi[0], &multi[4], &multi[5]] {
            for flags in [1u8, 2, 4, 3, 6, 7, 23] {
                pcases.push(PrecCase { source: *src, file: f.clone(), flags, flag_defaults: true });
            }
        }
        // a key of the wrong JSON type beside well-typed ones
        for key in ["verbose", "force", "typeMappings", "excludePatterns"] {
            for base in [&multi[4], &multi[0], &multi[1]] {
                for flags in [0u8, 2, 4, 8] {
                    let mut f = base.clone();
                    f.mistyped = Some(key.to_string());
                    if key == "verbose" {
                        f.verbose = None;
                    }
                    if key == "force" {
                        f.force = None;
                    }
                    pcases.push(PrecCase { source: *src, file: f, flags, flag_defaults: false });
                }
            }
        }
        for f in multi.iter_mut() {
            for flags in [0u8, 1, 2, 4, 3, 5, 7, 31, 24, 16, 8] {
                pcases.push(PrecCase { source: *src, file: f.clone(), flags, flag_defaults: false });
            }
        }
    }
    let pres: Vec<Option<(Vec<Violation>, u64, String)>> = pcases.par_iter().map(|c| if deadline.passed() { None } else { Some(eval_prec(c)) }).collect();
    let mut runs = 0u64;
    let mut exhaustive = true;
    let mut outcomes: BTreeSet<String> = BTreeSet::new();
    for r in pres {
        match r {
            None => exhaustive = false,
            Some((v, n, o)) => {
                runs += n;
                outcomes.insert(o);
                all_v.extend(v);
            }
        }
    }
    // ---- part C
    let mut icases: Vec<InitCase> = vec![];
    for project in [None, Some("alt"), Some("missing"), Some("through-file"), Some("long-name")] {
        for generated in [false, true] {
            for validation in [None, Some("zod"), Some("none"), Some("yup"), Some("Zod"), Some("NONE")] {
                for out in ["default", "custom-new", "custom-nested-new", "custom-existing", "custom-existing-force", "explicit-tauri"] {
                    for visualize in [false, true] {
                        if visualize && !(generated && validation == Some("zod")) {
                            continue;
                        }
                        icases.push(InitCase { project: project.map(|s| s.to_string()), generated, validation: validation.map(|s| s.to_string()), out: out.into(), visualize });
                    }
                }
            }
        }
    }
    let ires: Vec<Option<(Vec<Violation>, String)>> = icases.par_iter().map(|c| if deadline.passed() { None } else { Some(eval_init(c)) }).collect();
    for r in ires {
        match r {
            None => exhaustive = false,
            Some((v, o)) => {
                runs += 1;
                outcomes.insert(o);
                all_v.extend(v);
            }
        }
    }
    all_v.sort_by_key(|v| (v.rank, v.key()));
    let mut seen = BTreeSet::new();
    for v in all_v {
        let k = if v.fields["part"] == "roundtrip" { format!("{}|{}", v.class, v.fields["plugins"]) } else { format!("{}|{}|{}|{}", v.class, v.fields["source"], v.fields["invalid_in_file"], v.fields["flags"].contains("default")) };
        if seen.insert(k) {
            let mut v = v;
            v.fields.remove("flags");
            res.violations.push(v);
        } else {
            res.derived += 1;
        }
    }
    res.coverage.set("evaluations", work.len() as u64 + runs);
    res.coverage.set("roundtrip_documents", docs.len() as u64);
    res.coverage.set("roundtrip_cases", work.len() as u64);
    res.coverage.set("precedence_cases", pcases.len() as u64);
    res.coverage.set("init_cases", icases.len() as u64);
    res.coverage.set("precedence_runs", runs);
    res.coverage.set("distinct_nontrivial", (docs.len() + pcases.iter().filter(|c| c.flags != 0 || c.source != Source::NoFile).count()) as u64);
    res.coverage.set("distinct_outcomes", outcomes.len() as u64);
    res.coverage.set("exhaustive", exhaustive);
    res.coverage.set("samples", json!([docs[docs.len() / 3], docs[docs.len() - 2], pcases[pcases.len() / 2]]));
    res.coverage.set("rule", "[round 7: init -o into a directory that does not exist yet (a refusal with nothing written and a success are both accepted; directories left behind by a refused run are not)] precedence cases also with one further key of the entry carrying a value of the wrong JSON type (verbose as a string, force as a number, typeMappings with a number, excludePatterns as a string) beside well-typed keys, which must still beat the defaults unless the run is refused with nothing written; Part A (in process): JSON documents with 0..3 (quick) / 0..4 (thorough) extra top-level members whose values range over the i64/u64 extremes, decimals, exponents, -0.0, escaped and non-ASCII strings, nested arrays/objects (also as one-level objects), crossed with seven shapes of the plugins section (absent, empty, other plugins, existing typegen entry, typegen entry with unknown keys, null entries, typegen entry carrying every optional setting) at varying key positions, each also laid out with eight-space indentation and with 3000 trailing blanks (so that what is written back is shorter than what was there), crossed with three settings objects, each followed by writing the other two over it; save_to_tauri_config then: document minus plugins.typegen is value-equal to the original, and from_tauri_config returns the persisted settings. Part B (real binary): for each configuration source (none, the discovered tauri.conf.json locations, --config file) every single-field file (absent / valid values / invalid value) x all 32 flag subsets, plus multi-field files x 11 flag subsets, plus value flags spelled with the built-in default values against files that say otherwise; effective setting = first-defined(flag, file, default), observed through which directory receives output, which project's command is wrapped, the Generator header line, verbose output, regeneration over a matching cache; invalid effective library / missing project path => non-zero exit and an unchanged sandbox tree. Part C (real binary, `init`): -p {default, other, missing, a path through a regular file, a path with a 300-character component} x -g given or not x -v {absent, zod, none, unsupported, Zod, NONE (the names are case-sensitive)} x -o {default tauri.conf.json in the project, new standalone file, existing standalone file without / with --force, explicit tauri.conf.json elsewhere}; an unsupported library, a missing project path or an existing standalone file without --force => non-zero exit and an unchanged sandbox tree; otherwise exit 0, only the configuration file and the output directory change, the file reads back as the settings given, every other key of a tauri.conf.json survives, and the initial generation used the same settings.");
    res.assumptions = vec!["integers outside the i64/u64 range are not part of the document alphabet (serde_json reads them as floats)".into()];
    res
}
