//! C11 - validator attributes become exactly the declared Zod constraints.

use crate::core::*;
use crate::gen::{self, Project};
use crate::modinfo::ModInfo;
use crate::run::{run_lib_default, Cfg, LibStatus};
use crate::shape::{self, Constraint};
use crate::ts;
use rayon::prelude::*;
use serde::{Deserialize, Serialize};
use serde_json::{json, Value};
use std::collections::{BTreeMap, BTreeSet};

#[derive(Debug, Clone, Serialize, Deserialize, PartialEq)]
pub struct Validator {
    /// "length" | "range" | "email" | "url"
    pub kind: String,
    pub min: Option<String>,
    pub max: Option<String>,
    pub message: Option<String>,
}

#[derive(Debug, Clone, Serialize, Deserialize)]
pub struct FieldSpec {
    pub ty: String,
    /// attributes, each a list of validators written in one #[validate(...)]
    pub attrs: Vec<Vec<Validator>>,
}

fn rust_str(s: &str) -> String {
    let mut o = String::from("\"");
    for c in s.chars() {
        match c {
            '"' => o.push_str("\\\""),
            '\\' => o.push_str("\\\\"),
            '\n' => o.push_str("\\n"),
            '\t' => o.push_str("\\t"),
            c => o.push(c),
        }
    }
    o.push('"');
    o
}

/// the value of a Rust numeric literal as written in an attribute (sign, digit separators, radix
/// prefixes, type suffixes)
pub fn rust_number(text: &str) -> Option<f64> {
    let t = text.trim().replace('_', "");
    let (neg, t) = match t.strip_prefix('-') {
        Some(r) => (true, r.to_string()),
        None => (false, t),
    };
    let mut body = t.clone();
    for suf in ["usize", "isize", "u128", "i128", "u64", "i64", "u32", "i32", "u16", "i16", "u8", "i8", "f64", "f32"] {
        if let Some(b) = t.strip_suffix(suf) {
            if !b.is_empty() && !(b.starts_with("0x") && suf.starts_with('f')) {
                body = b.to_string();
                break;
            }
        }
    }
    let v = if let Some(h) = body.strip_prefix("0x") {
        u128::from_str_radix(h, 16).ok()? as f64
    } else if let Some(o) = body.strip_prefix("0o") {
        u128::from_str_radix(o, 8).ok()? as f64
    } else if let Some(b) = body.strip_prefix("0b") {
        u128::from_str_radix(b, 2).ok()? as f64
    } else {
        body.parse::<f64>().ok()?
    };
    Some(if neg { -v } else { v })
}

impl Validator {
    fn to_rust(&self) -> String {
        // a validator the tool does not translate, written out verbatim: "raw:<text>"
        if let Some(raw) = self.kind.strip_prefix("raw:") {
            return raw.to_string();
        }
        let mut parts = vec![];
        if let Some(m) = &self.min {
            parts.push(format!("min = {}", m));
        }
        if let Some(m) = &self.max {
            parts.push(format!("max = {}", m));
        }
        if let Some(m) = &self.message {
            parts.push(format!("message = {}", rust_str(m)));
        }
        if parts.is_empty() && (self.kind == "email" || self.kind == "url") {
            self.kind.clone()
        } else {
            format!("{}({})", self.kind, parts.join(", "))
        }
    }
    fn expected(&self) -> Vec<(String, Option<f64>, Option<String>)> {
        let num = |s: &String| rust_number(s);
        match self.kind.as_str() {
            k if k.starts_with("raw:") => vec![],
            "email" | "url" => vec![(self.kind.clone(), None, self.message.clone())],
            _ => {
                let mut v = vec![];
                if let Some(m) = &self.min {
                    v.push(("min".to_string(), num(m), self.message.clone()));
                }
                if let Some(m) = &self.max {
                    v.push(("max".to_string(), num(m), self.message.clone()));
                }
                v
            }
        }
    }
}

impl FieldSpec {
    fn attr_lines(&self) -> String {
        self.attrs
            .iter()
            .map(|a| format!("    #[validate({})]\n", a.iter().map(|v| v.to_rust()).collect::<Vec<_>>().join(", ")))
            .collect()
    }
    fn expected(&self) -> Vec<(String, Option<f64>, Option<String>)> {
        let mut v: Vec<_> = self.attrs.iter().flatten().flat_map(|x| x.expected()).collect();
        v.sort_by(|a, b| format!("{:?}", a).cmp(&format!("{:?}", b)));
        v
    }
}

pub fn project(fields: &[FieldSpec]) -> Project {
    let mut s = String::from(gen::PRELUDE);
    s.push_str("use validator::Validate;\n\n#[derive(Debug, Clone, Serialize, Deserialize, Validate)]\npub struct Holder {\n");
    for (i, f) in fields.iter().enumerate() {
        s.push_str(&f.attr_lines());
        s.push_str(&format!("    pub f{}: {},\n", i, f.ty));
        // an unvalidated neighbour after every validated field
        s.push_str(&format!("    pub plain{}: {},\n", i, f.ty));
    }
    s.push_str("}\n\n#[tauri::command]\npub fn use_holder(h: Holder) -> bool { let _ = h; true }\n");
    Project::single(s)
}

fn observed(cs: &[Constraint]) -> Vec<(String, Option<f64>, Option<String>)> {
    let mut v: Vec<_> = cs
        .iter()
        .map(|c| {
            let name = match c.name.as_str() {
                "gte" => "min".to_string(),
                "lte" => "max".to_string(),
                n => n.to_string(),
            };
            (name, c.value.as_ref().and_then(|s| s.replace('_', "").parse::<f64>().ok()), c.message.clone())
        })
        .collect();
    v.sort_by(|a, b| format!("{:?}", a).cmp(&format!("{:?}", b)));
    v
}

pub enum Outcome {
    Panic(String),
    NotAccepted(String),
    Unparsable(String),
    Judged(Vec<(usize, String, String)>), // (field index, class, detail)
}

pub fn eval(fields: &[FieldSpec]) -> Outcome {
    let run = run_lib_default(&project(fields), &Cfg::mode(true));
    match &run.status {
        LibStatus::Panic(m) => return Outcome::Panic(m.clone()),
        LibStatus::Err(e) => return Outcome::NotAccepted(e.clone()),
        LibStatus::Ok(_) => {}
    }
    let Some(src) = run.file("types.ts") else { return Outcome::NotAccepted("types.ts not written".into()) };
    judge_src(fields, src)
}

/// Two runs of the real binary / build path into one output directory: only the validator
/// attributes of the field change in between. The schema must show the second declaration.
pub fn eval_history(before: &FieldSpec, after: &FieldSpec, build: bool) -> Vec<Violation> {
    use crate::sbx::{self, FileCfg, RunOpts, Seam};
    let seam = if build { Seam::Build } else { Seam::Cli };
    let sb = crate::run::Sandbox::new();
    let cfg = FileCfg { zod: true, ..Default::default() };
    sbx::write_sources(&sb.root, &project(std::slice::from_ref(before)), &cfg);
    let r1 = sbx::run_generate(&sb.root, seam, &RunOpts::default());
    sbx::write_sources(&sb.root, &project(std::slice::from_ref(after)), &cfg);
    let r2 = sbx::run_generate(&sb.root, seam, &RunOpts::default());
    if !r1.success() || !r2.success() {
        return vec![];
    }
    let files = crate::run::read_out_dir(&sbx::out_dir(&sb.root, &cfg));
    let Some(src) = files.get("types.ts") else { return vec![] };
    match judge_src(std::slice::from_ref(after), src) {
        Outcome::Judged(v) => v
            .into_iter()
            .map(|(_, c, d)| {
                let mut x = mk(after, &format!("after-edit:{}", c), format!("validators edited from `{}` to `{}` between two runs into the same directory ({}): {}", before.attr_lines().trim(), after.attr_lines().trim(), seam.name(), d));
                x.replay = json!({"history": {"before": before, "after": after, "build": build}});
                x.field("seam", seam.name())
            })
            .collect(),
        _ => vec![],
    }
}

fn judge_src(fields: &[FieldSpec], src: &str) -> Outcome {
    let m = match ts::parse_module(src) {
        Ok(m) => m,
        Err(e) => return Outcome::Unparsable(e.to_string()),
    };
    let mi = ModInfo::of(&m);
    let Some(init) = mi.var_init("HolderSchema") else { return Outcome::Unparsable("HolderSchema missing".into()) };
    let z = match shape::read_zod(init) {
        Ok(z) => z,
        Err(e) => return Outcome::Unparsable(format!("zod reader: {}", e)),
    };
    let mut out = vec![];
    for (i, f) in fields.iter().enumerate() {
        let key = format!("f{}", i);
        match z.fields.get(&key) {
            None => out.push((i, "field-missing".to_string(), format!("{} not in HolderSchema", key))),
            Some(fz) => {
                let got = observed(&fz.constraints);
                let want = f.expected();
                if !fz.nested.is_empty() {
                    out.push((i, "constraint-on-element".to_string(), format!("constraints {:?} attached to a nested schema of {}", fz.nested, key)));
                }
                if got != want {
                    // classify
                    let g_names: Vec<&String> = got.iter().map(|x| &x.0).collect();
                    let w_names: Vec<&String> = want.iter().map(|x| &x.0).collect();
                    let class = if g_names != w_names {
                        if got.len() < want.len() { "constraint-dropped" } else { "constraint-added" }
                    } else if got.iter().zip(&want).any(|(g, w)| g.1 != w.1) {
                        "bound-wrong"
                    } else {
                        "message-wrong"
                    };
                    out.push((i, class.to_string(), format!("declared {:?} but schema enforces {:?}", want, got)));
                }
            }
        }
        if let Some(pz) = z.fields.get(&format!("plain{}", i)) {
            if !pz.constraints.is_empty() || !pz.nested.is_empty() {
                out.push((i, "constraint-on-unvalidated-field".to_string(), format!("plain{} carries {:?}", i, pz.constraints)));
            }
        }
    }
    Outcome::Judged(out)
}

fn features(f: &FieldSpec) -> BTreeMap<String, String> {
    let mut m = BTreeMap::new();
    m.insert("type".into(), f.ty.clone());
    let kinds: Vec<String> = f.attrs.iter().flatten().map(|v| v.kind.clone()).collect();
    // the set of validators (sorted) and, separately, the order they were written in
    let mut sorted = kinds.clone();
    sorted.sort();
    m.insert("validators".into(), sorted.join("+"));
    m.insert("order".into(), kinds.join(">"));
    m.insert("attributes".into(), f.attrs.len().to_string());
    let bounds: BTreeSet<String> = f.attrs.iter().flatten().flat_map(|v| [v.min.clone(), v.max.clone()]).flatten().map(|b| bound_class(&b)).collect();
    m.insert("bounds".into(), if bounds.is_empty() { "-".into() } else { bounds.into_iter().collect::<Vec<_>>().join(",") });
    let msgs: BTreeSet<String> = f.attrs.iter().flatten().filter_map(|v| v.message.as_ref().map(|m| message_class(m))).collect();
    m.insert("message".into(), if msgs.is_empty() { "-".into() } else { msgs.into_iter().collect::<Vec<_>>().join(",") });
    m
}

fn bound_class(b: &str) -> String {
    if b.starts_with('-') {
        "negative".into()
    } else if b.contains('e') || b.contains('E') {
        "exponent".into()
    } else if b.contains('.') {
        "decimal".into()
    } else if b.len() > 10 {
        "large".into()
    } else {
        "integer".into()
    }
}

pub fn message_class(m: &str) -> String {
    let mut c: BTreeSet<&str> = BTreeSet::new();
    for ch in m.chars() {
        match ch {
            '"' => c.insert("quote"),
            '\\' => c.insert("backslash"),
            '(' | ')' => c.insert("paren"),
            ',' => c.insert("comma"),
            '=' => c.insert("equals"),
            ch if !ch.is_ascii() => c.insert("non-ascii"),
            _ => false,
        };
    }
    for kw in ["email", "url", "min", "max", "length", "range", "message"] {
        if m.contains(kw) {
            c.insert("keyword");
        }
    }
    if c.is_empty() {
        "plain".into()
    } else {
        c.into_iter().collect::<Vec<_>>().join("+")
    }
}

fn mk(f: &FieldSpec, class: &str, detail: String) -> Violation {
    let mut v = Violation::new("C11", class, format!("{}    pub f: {} → {}", f.attr_lines(), f.ty, detail), json!({"field": f}));
    v.fields = features(f);
    v.rank = (f.attrs.iter().flatten().count() * 10 + f.attrs.iter().flatten().filter_map(|v| v.message.as_ref().map(|m| m.chars().count())).sum::<usize>()) as u64;
    v
}

pub fn replay(case: &Value) -> Vec<Violation> {
    if let Some(h) = case.get("history") {
        let (Ok(b), Ok(a)) = (serde_json::from_value::<FieldSpec>(h["before"].clone()), serde_json::from_value::<FieldSpec>(h["after"].clone())) else { return vec![] };
        return eval_history(&b, &a, h["build"].as_bool().unwrap_or(false));
    }
    let Ok(f) = serde_json::from_value::<FieldSpec>(case["field"].clone()) else { return vec![] };
    match eval(std::slice::from_ref(&f)) {
        Outcome::Judged(v) => v.into_iter().map(|(_, c, d)| mk(&f, &c, d)).collect(),
        Outcome::Panic(m) => vec![mk(&f, "panic", m)],
        _ => vec![],
    }
}

pub fn messages(max_len: usize) -> Vec<String> {
    let letters = ["a", " ", "é", "漢", "😀", "\"", "\\", "(", ")", ",", "="];
    let mut out: Vec<String> = vec![];
    let mut level: Vec<String> = vec![String::new()];
    for _ in 0..max_len {
        let mut next = vec![];
        for p in &level {
            for l in letters {
                next.push(format!("{}{}", p, l));
            }
        }
        out.extend(next.iter().cloned());
        level = next;
    }
    out.extend(["email", "url please", "min = 3", "range(1, 2)", "must be (1, 2], ok", "Must be between 1 and 10", "length", "max", "a\"b\\c", "naïve café"].iter().map(|s| s.to_string()));
    out
}

pub fn field_specs(tier: Tier) -> Vec<FieldSpec> {
    let mut v: Vec<FieldSpec> = vec![];
    let val = |kind: &str, min: Option<&str>, max: Option<&str>, msg: Option<&str>| Validator { kind: kind.into(), min: min.map(|s| s.to_string()), max: max.map(|s| s.to_string()), message: msg.map(|s| s.to_string()) };
    let len_bounds: Vec<Option<&str>> = vec![None, Some("0"), Some("1"), Some("10"), Some("18446744073709551615"), Some("1_024"), Some("0x10"), Some("10usize")];
    let range_bounds: Vec<Option<&str>> = vec![None, Some("0"), Some("1"), Some("10"), Some("-1"), Some("-1.5"), Some("0.5"), Some("1e3"), Some("2.5e-3"), Some("18446744073709551615"), Some("-0.0"), Some("1_000"), Some("2_500_000"), Some("0x7f"), Some("0o17"), Some("0b1010"), Some("5u8"), Some("-40i32"), Some("0.5f64"), Some("1_0.2_5"), Some("0xFF_FFu32")];
    // (1) all bound pairs, no message / plain message
    for ty in ["String", "Vec<String>", "Option<String>"] {
        for mn in &len_bounds {
            for mx in &len_bounds {
                if mn.is_none() && mx.is_none() {
                    continue;
                }
                for msg in [None, Some("bad length")] {
                    v.push(FieldSpec { ty: ty.into(), attrs: vec![vec![val("length", *mn, *mx, msg)]] });
                }
            }
        }
    }
    for ty in ["i32", "f64", "Option<i32>", "u64"] {
        for mn in &range_bounds {
            for mx in &range_bounds {
                if mn.is_none() && mx.is_none() {
                    continue;
                }
                for msg in [None, Some("out of range")] {
                    v.push(FieldSpec { ty: ty.into(), attrs: vec![vec![val("range", *mn, *mx, msg)]] });
                }
            }
        }
    }
    // (2) all validator subsets on string-like fields, in one attribute and in separate attributes
    for ty in ["String", "Option<String>"] {
        for mask in 1..8u32 {
            let mut vals = vec![];
            if mask & 1 != 0 {
                vals.push(val("length", Some("1"), Some("10"), None));
            }
            if mask & 2 != 0 {
                vals.push(val("email", None, None, None));
            }
            if mask & 4 != 0 {
                vals.push(val("url", None, None, None));
            }
            v.push(FieldSpec { ty: ty.into(), attrs: vec![vals.clone()] });
            if vals.len() >= 2 {
                v.push(FieldSpec { ty: ty.into(), attrs: vals.iter().map(|x| vec![x.clone()]).collect() });
                let mut rev = vals.clone();
                rev.reverse();
                v.push(FieldSpec { ty: ty.into(), attrs: vec![rev] });
            }
            // with messages on each validator
            let with_msg: Vec<Validator> = vals.iter().map(|x| Validator { message: Some(format!("{} failed", x.kind)), ..x.clone() }).collect();
            v.push(FieldSpec { ty: ty.into(), attrs: vec![with_msg] });
        }
    }
    // (2b) exactly one validator of several carries a message: every carrier x every order, in one
    // attribute and in separate attributes (a message belongs to its validator only)
    fn perms(n: usize) -> Vec<Vec<usize>> {
        if n == 2 {
            vec![vec![0, 1], vec![1, 0]]
        } else {
            vec![vec![0, 1, 2], vec![0, 2, 1], vec![1, 0, 2], vec![1, 2, 0], vec![2, 0, 1], vec![2, 1, 0]]
        }
    }
    for ty in ["String", "Option<String>"] {
        for mask in [3u32, 5, 6, 7] {
            let mut vals = vec![];
            if mask & 1 != 0 {
                vals.push(val("length", Some("1"), Some("10"), None));
            }
            if mask & 2 != 0 {
                vals.push(val("email", None, None, None));
            }
            if mask & 4 != 0 {
                vals.push(val("url", None, None, None));
            }
            for carrier in 0..vals.len() {
                for perm in perms(vals.len()) {
                    let ordered: Vec<Validator> = perm
                        .iter()
                        .map(|&i| if i == carrier { Validator { message: Some(format!("{} failed", vals[i].kind)), ..vals[i].clone() } } else { vals[i].clone() })
                        .collect();
                    v.push(FieldSpec { ty: ty.into(), attrs: vec![ordered.clone()] });
                    v.push(FieldSpec { ty: ty.into(), attrs: ordered.iter().map(|x| vec![x.clone()]).collect() });
                }
            }
        }
    }
    // (2c) validators the tool does not translate, before / after / between translated ones, in one
    // attribute and in separate ones: they add nothing and take nothing away
    let foreign = ["custom(function = \"check_handle\")", "custom(function = \"f\", message = \"custom failed\")", "regex(path = *HANDLE_RE)", "must_match(other = \"confirm\")", "contains(pattern = \"x\")", "required", "nested", "non_control_character", "does_not_contain(pattern = \"y\", message = \"no y\")"];
    for f in foreign {
        let fv = val(&format!("raw:{}", f), None, None, None);
        let known = [val("length", Some("3"), Some("20"), None), val("email", None, None, Some("bad mail")), val("url", None, None, None)];
        for k in &known {
            for order in 0..2 {
                let pair = if order == 0 { vec![fv.clone(), k.clone()] } else { vec![k.clone(), fv.clone()] };
                v.push(FieldSpec { ty: "String".into(), attrs: vec![pair.clone()] });
                v.push(FieldSpec { ty: "String".into(), attrs: pair.iter().map(|x| vec![x.clone()]).collect() });
            }
        }
        v.push(FieldSpec { ty: "String".into(), attrs: vec![vec![known[0].clone(), fv.clone(), known[1].clone()]] });
        v.push(FieldSpec { ty: "i32".into(), attrs: vec![vec![fv.clone(), val("range", Some("1"), Some("9"), Some("out"))]] });
        v.push(FieldSpec { ty: "String".into(), attrs: vec![vec![fv.clone()]] });
    }
    // (3) message alphabet on length(String), range(i32), email
    for m in messages(if tier == Tier::Quick { 5 } else { 6 }) {
        v.push(FieldSpec { ty: "String".into(), attrs: vec![vec![val("length", Some("1"), Some("5"), Some(&m))]] });
        v.push(FieldSpec { ty: "i32".into(), attrs: vec![vec![val("range", Some("1"), None, Some(&m))]] });
        if tier == Tier::Thorough || m.chars().count() <= 1 || m.len() > 3 {
            v.push(FieldSpec { ty: "String".into(), attrs: vec![vec![val("email", None, None, Some(&m))]] });
            v.push(FieldSpec { ty: "String".into(), attrs: vec![vec![val("length", None, Some("9"), Some(&m)), val("url", None, None, None)]] });
        }
    }
    v
}

pub fn run(tier: Tier) -> CheckResult {
    let mut res = CheckResult::new("C11", "exploration");
    let deadline = tier_deadline(tier);
    let specs = field_specs(tier);
    // edit histories on the real binary and the build path: message only, bound only, validator
    // added / removed / exchanged - the second run's schema shows the second declaration
    {
        let val = |kind: &str, min: Option<&str>, max: Option<&str>, msg: Option<&str>| Validator { kind: kind.into(), min: min.map(|s| s.to_string()), max: max.map(|s| s.to_string()), message: msg.map(|s| s.to_string()) };
        let f = |ty: &str, vs: Vec<Validator>| FieldSpec { ty: ty.into(), attrs: if vs.is_empty() { vec![] } else { vec![vs] } };
        let pairs: Vec<(FieldSpec, FieldSpec)> = vec![
            (f("String", vec![val("length", Some("1"), Some("9"), Some("old text"))]), f("String", vec![val("length", Some("1"), Some("9"), Some("new text"))])),
            (f("String", vec![val("length", Some("1"), Some("9"), Some("old text"))]), f("String", vec![val("length", Some("1"), Some("9"), None)])),
            (f("String", vec![val("length", Some("1"), Some("9"), None)]), f("String", vec![val("length", Some("1"), Some("9"), Some("now with text"))])),
            (f("i32", vec![val("range", Some("0"), Some("5"), Some("old"))]), f("i32", vec![val("range", Some("0"), Some("5"), Some("new"))])),
            (f("i32", vec![val("range", Some("0"), Some("5"), None)]), f("i32", vec![val("range", Some("0"), Some("6"), None)])),
            (f("i32", vec![val("range", Some("0"), None, None)]), f("i32", vec![val("range", Some("-1.5"), None, None)])),
            (f("String", vec![val("email", None, None, Some("old mail text"))]), f("String", vec![val("email", None, None, Some("new mail text"))])),
            (f("String", vec![val("url", None, None, None)]), f("String", vec![val("url", None, None, Some("bad url"))])),
            (f("String", vec![val("email", None, None, None)]), f("String", vec![val("url", None, None, None)])),
            (f("String", vec![]), f("String", vec![val("length", Some("2"), None, None)])),
            (f("String", vec![val("length", Some("2"), None, None)]), f("String", vec![])),
            (f("Vec<String>", vec![val("length", Some("1"), None, Some("one"))]), f("Vec<String>", vec![val("length", None, Some("3"), Some("three"))])),
        ];
        let work: Vec<(&(FieldSpec, FieldSpec), bool)> = pairs.iter().flat_map(|p| [(p, false), (p, true)]).collect();
        let hv: Vec<Violation> = work.par_iter().flat_map(|((b, a), build)| eval_history(b, a, *build)).collect();
        res.coverage.set("edit_histories", work.len() as u64);
        res.violations.extend(hv);
    }
    // batches of 24 fields per struct; a batch that panics / is not accepted / unreadable is re-run
    // field by field
    let chunks: Vec<&[FieldSpec]> = specs.chunks(24).collect();
    let results: Vec<Option<(u64, Vec<(FieldSpec, String, String)>, u64, u64)>> = chunks
        .par_iter()
        .map(|chunk| {
            if deadline.passed() {
                return None;
            }
            let mut evals = 1u64;
            let mut out = vec![];
            let mut judged = 0u64;
            let mut not_eval = 0u64;
            match eval(chunk) {
                Outcome::Judged(v) => {
                    judged += chunk.len() as u64;
                    for (i, c, d) in v {
                        // re-confirm solo
                        evals += 1;
                        if let Outcome::Judged(v2) = eval(std::slice::from_ref(&chunk[i])) {
                            if v2.iter().any(|(_, c2, _)| *c2 == c) {
                                out.push((chunk[i].clone(), c, d));
                            }
                        }
                    }
                }
                _ => {
                    for f in chunk.iter() {
                        evals += 1;
                        match eval(std::slice::from_ref(f)) {
                            Outcome::Judged(v) => {
                                judged += 1;
                                for (_, c, d) in v {
                                    out.push((f.clone(), c, d));
                                }
                            }
                            Outcome::Panic(m) => {
                                judged += 1;
                                out.push((f.clone(), "panic".into(), format!("analysis panicked: {}", m)));
                            }
                            Outcome::NotAccepted(_) | Outcome::Unparsable(_) => not_eval += 1,
                        }
                    }
                }
            }
            Some((evals, out, judged, not_eval))
        })
        .collect();
    let mut evaluations = 0;
    let mut judged = 0;
    let mut not_eval = 0;
    let mut exhaustive = true;
    let mut all_v = vec![];
    for r in results {
        match r {
            None => exhaustive = false,
            Some((e, o, j, n)) => {
                evaluations += e;
                judged += j;
                not_eval += n;
                for (f, c, d) in o {
                    all_v.push(mk(&f, &c, d));
                }
            }
        }
    }
    // primary: simplest case per (class, feature vector)
    all_v.sort_by_key(|v| (v.rank, v.key()));
    let mut seen = BTreeSet::new();
    for v in all_v {
        let k = v.key();
        if seen.insert(k) {
            res.violations.push(v);
        } else {
            res.derived += 1;
        }
    }
    let distinct: BTreeSet<String> = specs.iter().map(|f| format!("{:?}", features(f))).collect();
    res.coverage.set("evaluations", evaluations);
    res.coverage.set("fields_judged", judged);
    res.coverage.set("not_evaluable_here", not_eval);
    res.coverage.set("field_specs", specs.len() as u64);
    res.coverage.set("distinct_nontrivial", distinct.len() as u64);
    res.coverage.set("exhaustive", exhaustive);
    res.coverage.set("samples", json!(specs.iter().step_by((specs.len() / 6).max(1)).take(6).map(|f| format!("{}pub f: {}", f.attr_lines(), f.ty)).collect::<Vec<_>>()));
    res.coverage.set("rule", "validated fields: every pair of length bounds on String / Vec<String> / Option<String> and every pair of range bounds (integers, negatives, decimals, exponents, u64::MAX, -0.0, digit separators, hexadecimal / octal / binary literals, type suffixes) on i32 / f64 / Option<i32> / u64, with and without message; every subset of {length, email, url} in one attribute, in separate attributes, in reverse order, with per-validator messages; every message of <= 5 (quick) / 6 (thorough) letters over {a, space, 2/3/4-byte characters, escaped quote, escaped backslash, parentheses, comma, =} plus phrases containing validator keywords, on length, range and email; each validated field has an unvalidated twin. Oracle: the constraint list read from the field's parsed Zod chain (names, numerically compared bounds, JS-unescaped messages) equals the declared one; twins carry none; nothing sits on element schemas. distinct_nontrivial = distinct feature vectors (type, validators, #attributes, bound classes, message class).");
    res.assumptions = vec!["only type-correct validator/type combinations are generated (length on strings and vectors, range on numbers, email/url on strings)".into()];
    res
}
