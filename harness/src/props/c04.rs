//! C04 - the object passed to invoke has exactly the keys Tauri deserialises.

use crate::core::*;
use crate::gen::Project;
use crate::modinfo::{self, ModInfo};
use crate::naming;
use crate::run::{run_lib_default, Cfg};
use crate::shape::{self, prop_key_string};
use crate::ts::{self, ArrayElem, Expr, Member, ObjProp, PropKey, Type};
use rayon::prelude::*;
use serde::{Deserialize, Serialize};
use serde_json::{json, Value};
use std::collections::{BTreeMap, BTreeSet};

#[derive(Debug, Clone, Copy, PartialEq, Eq, Serialize, Deserialize, PartialOrd, Ord, Hash)]
pub enum PKind {
    Value,
    Optional,
    Channel,
    /// injected spelling #i
    Injected(usize),
}

pub const INJECTED: [&str; 13] = [
    "AppHandle",
    "AppHandle<R>",
    "tauri::AppHandle",
    "tauri::AppHandle<R>",
    "Window<R>",
    "tauri::Window",
    "WebviewWindow",
    "tauri::WebviewWindow<R>",
    "State<'_, AppState>",
    "tauri::State<'_, AppState>",
    "tauri::ipc::Request<'_>",
    "tauri::State<'static, std::sync::Mutex<AppState>>",
    "State<'_, Vec<String>>",
];
pub const CHANNEL_SPELLINGS: [&str; 3] = ["Channel<i32>", "tauri::ipc::Channel<String>", "Channel<Vec<u8>>"];
pub const NAMES: [&str; 14] = ["a", "user_id", "user_id2", "x_1", "_x", "a__b", "type_", "r#type", "http2_url", "top_3d_models", "on_2fa_code", "delete", "default", "new"];
pub const PARAM_CASES: [&str; 6] = ["camelCase", "snake_case", "PascalCase", "SCREAMING_SNAKE_CASE", "kebab-case", "SCREAMING-KEBAB-CASE"];

/// arguments of the command macro: (text after `tauri::command`, the key case it makes Tauri use)
pub const MACRO_ARGS: [(&str, Option<&str>); 6] = [
    ("", None),
    ("(rename_all = \"snake_case\")", Some("snake")),
    ("(rename_all = \"camelCase\")", Some("camel")),
    ("(async, rename_all = \"snake_case\")", Some("snake")),
    ("(root = \"crate\")", None),
    ("(root = \"crate\", rename_all = \"snake_case\")", Some("snake")),
];

#[derive(Debug, Clone, Serialize, Deserialize)]
pub struct Case {
    /// (kind, name index into NAMES, spelling variant)
    pub params: Vec<(PKind, usize, usize)>,
    pub case: Option<String>,
    pub zod: bool,
    /// index into MACRO_ARGS
    #[serde(default)]
    pub macro_arg: usize,
    /// a second file with a top-level function of the SAME name that is not a command:
    /// 0 none; 1 in a file that sorts later, with a channel parameter; 2 later, without parameters;
    /// 3 in a file that sorts earlier, with a channel parameter
    #[serde(default)]
    pub namesake: u8,
    /// the command's own name: 0 `do_thing`, 1 `r#move`, 2 `r#match` (raw identifiers: Tauri's
    /// command name is `move` / `match`)
    #[serde(default)]
    pub raw_cmd: u8,
    /// other commands in the same file, one before and one after the command under test, with macro
    /// arguments of their own and parameters that reuse this command's names with other kinds:
    /// 0 none; 1 the one before has `rename_all = "snake_case"`, the one after nothing; 2 the reverse
    #[serde(default)]
    pub neighbours: u8,
}

pub const CMD_NAMES: [(&str, &str); 3] = [("do_thing", "do_thing"), ("r#move", "move"), ("r#match", "match")];

impl Case {
    fn rust_type(&self, p: &(PKind, usize, usize)) -> String {
        match p.0 {
            PKind::Value => ["i32", "String", "Vec<String>"][p.2 % 3].to_string(),
            PKind::Optional => ["Option<i32>", "Option<String>"][p.2 % 2].to_string(),
            PKind::Channel => CHANNEL_SPELLINGS[p.2 % CHANNEL_SPELLINGS.len()].to_string(),
            PKind::Injected(i) => INJECTED[i].to_string(),
        }
    }
    fn render_cmd(&self, fn_name: &str) -> String {
        let mut s = format!("#[tauri::command{}]\npub async fn {}<R: Runtime>(", MACRO_ARGS[self.macro_arg].0, fn_name);
        for p in &self.params {
            s.push_str(&format!("{}: {}, ", NAMES[p.1], self.rust_type(p)));
        }
        s.push_str(") -> Result<i32, String> { Ok(1) }\n");
        s
    }
    /// the commands around the one under test: (function name, the command as a case of its own)
    pub fn neighbour_cases(&self) -> Vec<(&'static str, Case)> {
        if self.neighbours == 0 {
            return vec![];
        }
        use heck::ToSnakeCase;
        // names on which heck's snake_case is the identity (usable under rename_all = "snake_case")
        let plain: Vec<usize> = (0..NAMES.len()).filter(|i| !NAMES[*i].starts_with("r#") && NAMES[*i].to_snake_case() == NAMES[*i]).collect();
        let mine: Vec<usize> = self.params.iter().map(|p| p.1).filter(|i| plain.contains(i)).collect();
        // reuse this command's first usable name with another kind; fill up with fixed ones
        let shared = mine.first().copied().unwrap_or(plain[1]);
        let other = plain.iter().copied().find(|i| *i != shared).unwrap();
        let third = plain.iter().copied().find(|i| *i != shared && *i != other).unwrap();
        let my_kind = self.params.iter().find(|p| p.1 == shared).map(|p| p.0);
        let swapped = if my_kind == Some(PKind::Channel) { PKind::Value } else { PKind::Channel };
        let (m_before, m_after) = if self.neighbours == 1 { (1, 0) } else { (0, 1) };
        let before = Case { params: vec![(swapped, shared, 1), (PKind::Injected(0), 0, 0), (PKind::Optional, other, 0)], case: self.case.clone(), zod: self.zod, macro_arg: m_before, namesake: 0, raw_cmd: 0, neighbours: 0 };
        let after = Case { params: vec![(PKind::Optional, shared, 1), (PKind::Channel, third, 2), (PKind::Value, other, 2)], case: self.case.clone(), zod: self.zod, macro_arg: m_after, namesake: 0, raw_cmd: 0, neighbours: 0 };
        vec![("before_it", before), ("after_it", after)]
    }
    pub fn project(&self) -> Project {
        let mut s = String::from("use tauri::{AppHandle, State, Window, WebviewWindow, Runtime};\nuse tauri::ipc::Channel;\npub struct AppState;\n\n");
        let nb = self.neighbour_cases();
        if let Some((name, c)) = nb.first() {
            s.push_str(&c.render_cmd(name));
        }
        s.push_str(&self.render_cmd(CMD_NAMES[self.raw_cmd as usize % 3].0));
        if let Some((name, c)) = nb.get(1) {
            s.push_str(&c.render_cmd(name));
        }
        if self.namesake == 0 {
            return Project::single(s);
        }
        let other = match self.namesake {
            2 => "pub fn do_thing() -> i32 { 1 }\n".to_string(),
            _ => "use tauri::ipc::Channel;\npub fn do_thing(id: i32, on_unrelated_event: Channel<String>, extra_flag: bool) -> i32 { 1 }\n".to_string(),
        };
        let (cmd_file, other_file) = if self.namesake == 3 { ("src/z_commands.rs", "src/a_services.rs") } else { ("src/commands.rs", "src/services/do_thing.rs") };
        return Project { files: vec![(cmd_file.into(), s), (other_file.into(), other)], links: vec![] };
    }
    /// the key Tauri reads for a Rust parameter name: the macro's rename_all argument, else the
    /// configured parameter case, else Tauri's default (lower camel case)
    pub fn key_of(&self, name: &str) -> String {
        use heck::ToSnakeCase;
        match (MACRO_ARGS[self.macro_arg].1, &self.case) {
            (Some("snake"), _) => name.trim_start_matches("r#").to_snake_case(),
            (Some(_), _) | (None, None) => naming::tauri_arg_key(name),
            (None, Some(c)) => naming::serde_field(c, name),
        }
    }
    /// expected key -> may be omitted?
    pub fn expected(&self) -> BTreeMap<String, bool> {
        let mut m = BTreeMap::new();
        for p in &self.params {
            if matches!(p.0, PKind::Injected(_)) {
                continue;
            }
            m.insert(self.key_of(NAMES[p.1]), p.0 == PKind::Optional);
        }
        m
    }
}

fn members_keys(ms: &[Member]) -> BTreeMap<String, bool> {
    let mut m = BTreeMap::new();
    for mem in ms {
        if let Member::Prop { key, optional, .. } = mem {
            m.insert(prop_key_string(key), *optional);
        }
    }
    m
}

struct TypesInfo {
    mi: ModInfo,
}

impl TypesInfo {
    fn schema_keys(&self, schema_const: &str) -> Result<BTreeMap<String, bool>, String> {
        let init = self.mi.var_init(schema_const).ok_or_else(|| format!("{} not declared in types.ts", schema_const))?;
        let z = shape::read_zod(init).map_err(|e| format!("{}: {}", schema_const, e))?;
        match &z.shape {
            shape::Shape::Obj(fields, _) => Ok(fields.iter().map(|(k, (_, opt))| (k.clone(), *opt)).collect()),
            other => Err(format!("{} is not an object schema: {}", schema_const, other.show())),
        }
    }
    fn infer_target(t: &Type) -> Option<String> {
        // z.infer<typeof XSchema>
        if let Type::Ref { name, args } = t {
            if name == &vec!["z".to_string(), "infer".to_string()] && args.len() == 1 {
                if let Type::TypeOf(q) = &args[0] {
                    return q.last().cloned();
                }
            }
        }
        None
    }
    /// key set of the declared type `name` (interface or alias)
    fn type_keys(&self, name: &str) -> Result<BTreeMap<String, bool>, String> {
        if let Some((extends, members)) = self.mi.interfaces.get(name) {
            let mut m = BTreeMap::new();
            for e in extends {
                let target = Self::infer_target(e).ok_or_else(|| format!("interface {} extends something that is not z.infer<typeof ..>", name))?;
                m.extend(self.schema_keys(&target)?);
            }
            m.extend(members_keys(members));
            return Ok(m);
        }
        if let Some(t) = self.mi.aliases.get(name) {
            if let Some(target) = Self::infer_target(t) {
                return self.schema_keys(&target);
            }
            if let Type::Object(ms) = t {
                return Ok(members_keys(ms));
            }
            return Err(format!("type alias {} has an unsupported right-hand side", name));
        }
        Err(format!("type {} not declared in types.ts", name))
    }
}

fn types_member(e: &Expr) -> Option<String> {
    if let Expr::Member { object, prop, .. } = e {
        if let Expr::Ident(ns) = &**object {
            if ns == "types" {
                return Some(prop.clone());
            }
        }
    }
    None
}

/// Key set of the object expression reaching invoke.
fn arg_keys(e: &Expr, params_type: Option<&str>, locals: &BTreeMap<String, Expr>, ti: &TypesInfo) -> Result<BTreeMap<String, bool>, String> {
    match e {
        Expr::Paren(inner) => arg_keys(inner, params_type, locals, ti),
        Expr::Ident(n) if n == "params" => ti.type_keys(params_type.ok_or("wrapper has no typed params parameter")?),
        Expr::Ident(n) => match locals.get(n) {
            Some(init) => arg_keys(init, params_type, locals, ti),
            None => Err(format!("cannot resolve identifier {} reaching invoke", n)),
        },
        Expr::Member { object, prop, .. } if prop == "data" => {
            // result.data where result = types.XSchema.safeParse(params)
            if let Expr::Ident(r) = &**object {
                if let Some(Expr::Call { callee, .. }) = locals.get(r) {
                    if let Expr::Member { object: schema, prop: method, .. } = &**callee {
                        if method == "safeParse" || method == "parse" {
                            if let Some(s) = types_member(schema) {
                                return ti.schema_keys(&s);
                            }
                        }
                    }
                }
            }
            Err("`.data` of something that is not a safeParse result".into())
        }
        Expr::Call { callee, .. } => {
            // types.XSchema.parse(params)
            if let Expr::Member { object: schema, prop: method, .. } = &**callee {
                if method == "parse" {
                    if let Some(s) = types_member(schema) {
                        return ti.schema_keys(&s);
                    }
                }
            }
            Err("call expression reaching invoke is not a schema parse".into())
        }
        Expr::Object(props) => {
            let mut m = BTreeMap::new();
            for p in props {
                match p {
                    ObjProp::Spread(inner) => m.extend(arg_keys(inner, params_type, locals, ti)?),
                    ObjProp::KeyValue(k, _) => {
                        if matches!(k, PropKey::Computed(_)) {
                            return Err("computed key in invoke argument".into());
                        }
                        m.insert(prop_key_string(k), false);
                    }
                    ObjProp::Shorthand(n) => {
                        m.insert(n.clone(), false);
                    }
                    ObjProp::Method(k, _) => {
                        m.insert(prop_key_string(k), false);
                    }
                }
            }
            Ok(m)
        }
        other => Err(format!("unsupported expression reaching invoke: {:?}", std::mem::discriminant(other))),
    }
}

pub struct Observation {
    pub declared: Option<BTreeMap<String, bool>>,
    pub schema: Option<BTreeMap<String, bool>>,
    pub invoked: BTreeMap<String, bool>,
}

pub fn observe(files: &BTreeMap<String, String>, command: &str) -> Result<Observation, String> {
    let types = ts::parse_module(files.get("types.ts").ok_or("types.ts not written")?).map_err(|e| format!("SYNTAX types.ts: {}", e))?;
    let commands = ts::parse_module(files.get("commands.ts").ok_or("commands.ts not written")?).map_err(|e| format!("SYNTAX commands.ts: {}", e))?;
    let ti = TypesInfo { mi: ModInfo::of(&types) };
    let cmi = ModInfo::of(&commands);
    // find the wrapper by its invoke literal
    let mut found = None;
    for (name, f) in &cmi.funcs {
        for c in modinfo::calls_of(f, "invoke") {
            if let Some(Expr::Str(s)) = c.args.first() {
                if s == command {
                    found = Some((name.clone(), f.clone(), c));
                }
            }
        }
    }
    let (_wname, func, call) = found.ok_or_else(|| format!("no wrapper invokes {}", command))?;
    let params_type: Option<String> = func.params.first().and_then(|p| match (&p.pattern, &p.ty) {
        (ts::Pattern::Ident(n), Some(Type::Ref { name, .. })) if n == "params" => name.last().cloned(),
        _ => None,
    });
    let locals = modinfo::local_bindings(&func);
    let invoked = match call.args.get(1) {
        None => BTreeMap::new(),
        Some(e) => arg_keys(e, params_type.as_deref(), &locals, &ti)?,
    };
    let declared = match &params_type {
        Some(t) => Some(ti.type_keys(t)?),
        None => None,
    };
    let schema = match &params_type {
        Some(t) => {
            let sname = format!("{}Schema", t);
            if ti.mi.var_init(&sname).is_some() {
                Some(ti.schema_keys(&sname)?)
            } else {
                None
            }
        }
        None => None,
    };
    let _ = ArrayElem::Hole;
    Ok(Observation { declared, schema, invoked })
}

fn show(m: &BTreeMap<String, bool>) -> String {
    format!("{{{}}}", m.iter().map(|(k, o)| format!("{}{}", k, if *o { "?" } else { "" })).collect::<Vec<_>>().join(", "))
}

pub fn eval(case: &Case) -> (Vec<Violation>, bool, Option<String>) {
    let cfg = Cfg { zod: case.zod, default_parameter_case: case.case.clone(), ..Default::default() };
    let run = run_lib_default(&case.project(), &cfg);
    if !run.ok() {
        return (vec![], false, None);
    }
    let (mut vs, acc, mut note) = judge(case, case, &run.files, CMD_NAMES[case.raw_cmd as usize % 3].1);
    // the commands around it are judged by the same oracle, each under its own macro arguments
    for (name, nb) in case.neighbour_cases() {
        let (v, _, n) = judge(&nb, case, &run.files, name);
        vs.extend(v.into_iter().map(|x| x.field("neighbour", name)));
        note = note.or(n);
    }
    (vs, acc, note)
}

/// `case` describes the command called `command`; violations are reported against `whole` (the
/// project that was generated)
fn judge(case: &Case, whole: &Case, files: &BTreeMap<String, String>, command: &str) -> (Vec<Violation>, bool, Option<String>) {
    let mk = |c: &Case, class: &str, detail: String| {
        let _ = c;
        let mut v = mk(whole, class, if std::ptr::eq(case, whole) { detail } else { format!("[neighbour command {}: {}] {}", command, case.render_cmd(command).lines().take(2).collect::<Vec<_>>().join(" "), detail) });
        v.replay = serde_json::to_value(whole).unwrap();
        v
    };
    let obs = match observe(files, command) {
        Ok(o) => o,
        Err(e) if e.starts_with("SYNTAX") => return (vec![], true, Some(e)),
        // a wrapper that is missing is C03's business, a type that is not declared C02's; anything else
        // the observer cannot interpret is the observer's limit, not a verdict
        Err(e) if e.starts_with("no wrapper invokes") || e.contains("not declared in types.ts") || e.contains("not written") => return (vec![], true, Some(format!("NOT-EVALUABLE {}", e))),
        Err(e) => return (vec![], true, Some(format!("ORACLE {}", e))),
    };
    let expected = case.expected();
    let mut vs = vec![];
    let channel_keys: BTreeSet<String> = case
        .params
        .iter()
        .filter(|p| p.0 == PKind::Channel)
        .map(|p| case.key_of(NAMES[p.1]))
        .collect();
    let keyset = |m: &BTreeMap<String, bool>| m.keys().cloned().collect::<BTreeSet<String>>();
    if keyset(&obs.invoked) != keyset(&expected) {
        vs.push(mk(case, "invoke-keys", format!("object reaching invoke has keys {} but Tauri deserialises {}", show(&obs.invoked), show(&expected))));
    }
    match &obs.declared {
        Some(d) => {
            if keyset(d) != keyset(&expected) {
                vs.push(mk(case, "declared-keys", format!("parameter type declares {} but Tauri deserialises {}", show(d), show(&expected))));
            } else {
                for (k, opt) in &expected {
                    if d[k] != *opt {
                        vs.push(mk(case, "optionality", format!("key {}: omittable={} but the Rust parameter is{} an Option", k, d[k], if *opt { "" } else { " not" })));
                    }
                }
            }
        }
        None => {
            if !expected.is_empty() {
                vs.push(mk(case, "declared-keys", format!("wrapper takes no params object but Tauri deserialises {}", show(&expected))));
            }
        }
    }
    if let Some(s) = &obs.schema {
        let want: BTreeMap<String, bool> = expected.iter().filter(|(k, _)| !channel_keys.contains(*k)).map(|(k, v)| (k.clone(), *v)).collect();
        if keyset(s) != keyset(&want) {
            vs.push(mk(case, "schema-keys", format!("parameter schema has keys {} but the validated parameters are {}", show(s), show(&want))));
        } else {
            for (k, opt) in &want {
                if s[k] != *opt {
                    vs.push(mk(case, "optionality", format!("schema key {}: omittable={} but the Rust parameter is{} an Option", k, s[k], if *opt { "" } else { " not" })));
                }
            }
        }
    } else if case.zod && expected.keys().any(|k| !channel_keys.contains(k)) {
        vs.push(mk(case, "schema-keys", "Zod mode but no parameter schema for validated parameters".into()));
    }
    (vs, true, None)
}

fn mk(case: &Case, class: &str, detail: String) -> Violation {
    let sig: Vec<String> = case.params.iter().map(|p| format!("{}: {}", NAMES[p.1], case.rust_type(p))).collect();
    let kinds: Vec<String> = case
        .params
        .iter()
        .map(|p| match p.0 {
            PKind::Injected(i) => format!("inj:{}", INJECTED[i]),
            k => format!("{:?}:{}", k, NAMES[p.1]),
        })
        .collect();
    Violation::new("C04", class, format!("#[tauri::command{}] fn do_thing({}) case={:?} {} mode: {}", MACRO_ARGS[case.macro_arg].0, sig.join(", "), case.case, if case.zod { "zod" } else { "none" }, detail), serde_json::to_value(case).unwrap())
        .field("params", kinds.join(" "))
        .field("case", case.case.clone().unwrap_or("-".into()))
        .field("mode", if case.zod { "zod" } else { "none" })
        .field("macro", MACRO_ARGS[case.macro_arg].0)
        .field("namesake", case.namesake.to_string())
        .field("neighbours", case.neighbours.to_string())
        .rank(case.params.len() as u64 * 2 + if case.macro_arg > 0 { 1 } else { 0 })
}

/// Two runs of the real binary into the same output directory: the configured parameter case
/// changes from `before` to the case's own, nothing else does. The keys must follow.
pub fn eval_history(case: &Case, before: &Option<String>, build_seam: bool) -> Vec<Violation> {
    use crate::sbx::{self, FileCfg, RunOpts, Seam};
    let seam = if build_seam { Seam::Build } else { Seam::Cli };
    let sb = crate::run::Sandbox::new();
    let project = case.project();
    sbx::write_sources(&sb.root, &project, &FileCfg { zod: case.zod, default_parameter_case: before.clone(), ..Default::default() });
    let r1 = sbx::run_generate(&sb.root, seam, &RunOpts::default());
    let cfg2 = FileCfg { zod: case.zod, default_parameter_case: case.case.clone(), ..Default::default() };
    sbx::write_sources(&sb.root, &project, &cfg2);
    let r2 = sbx::run_generate(&sb.root, seam, &RunOpts::default());
    if !r1.success() || !r2.success() {
        return vec![];
    }
    let files = crate::run::read_out_dir(&sbx::out_dir(&sb.root, &cfg2));
    let Ok(obs) = observe(&files, "do_thing") else { return vec![] };
    let expected = case.expected();
    let keyset = |m: &BTreeMap<String, bool>| m.keys().cloned().collect::<BTreeSet<String>>();
    let mut vs = vec![];
    let mut report = |what: &str, got: &BTreeMap<String, bool>| {
        if keyset(got) != keyset(&expected) {
            let mut v = mk(case, "keys-after-case-change", format!("configured parameter case changed from {:?} to {:?} between two runs into the same directory ({}): {} has keys {} but Tauri deserialises {}", before, case.case, seam.name(), what, show(got), show(&expected)));
            v.replay = json!({"history": {"case": case, "before": before, "build": build_seam}});
            vs.push(v.field("before", before.clone().unwrap_or("-".into())).field("seam", seam.name()));
        }
    };
    report("the object reaching invoke", &obs.invoked);
    if let Some(d) = &obs.declared {
        report("the parameter type", d);
    }
    vs
}

pub fn replay(case: &Value) -> Vec<Violation> {
    if let Some(h) = case.get("history") {
        let Ok(c) = serde_json::from_value::<Case>(h["case"].clone()) else { return vec![] };
        let before: Option<String> = h["before"].as_str().map(|s| s.to_string());
        return eval_history(&c, &before, h["build"].as_bool().unwrap_or(false));
    }
    serde_json::from_value::<Case>(case.clone()).map(|c| eval(&c).0).unwrap_or_default()
}

pub fn run(tier: Tier) -> CheckResult {
    let mut res = CheckResult::new("C04", "exploration");
    let deadline = tier_deadline(tier);
    // parameter kinds menu: 3 frontend kinds + 13 injected spellings
    let mut kinds: Vec<PKind> = vec![PKind::Value, PKind::Optional, PKind::Channel];
    kinds.extend((0..INJECTED.len()).map(PKind::Injected));
    let mut cases: Vec<Case> = vec![];
    let mut cases_opt: Vec<Option<String>> = vec![None];
    cases_opt.extend(PARAM_CASES.iter().map(|s| Some(s.to_string())));
    // (1) every single parameter kind x every name x every case setting x both modes
    for k in &kinds {
        for n in 0..NAMES.len() {
            for c in &cases_opt {
                for zod in [false, true] {
                    for variant in 0..(if matches!(k, PKind::Injected(_)) { 1 } else { 3 }) {
                        cases.push(Case { params: vec![(*k, n, variant)], case: c.clone(), zod, macro_arg: 0, namesake: 0, raw_cmd: 0, neighbours: 0 });
                    }
                }
            }
        }
    }
    // (1b) every macro argument form x frontend kind x name x {default, snake_case, PascalCase} x modes
    for macro_arg in 1..MACRO_ARGS.len() {
        for k in [PKind::Value, PKind::Optional, PKind::Channel] {
            for n in 0..NAMES.len() {
                use heck::ToSnakeCase;
                let bare = NAMES[n].trim_start_matches("r#");
                if MACRO_ARGS[macro_arg].1 == Some("snake") && bare.to_snake_case() != bare {
                    continue;
                }
                for c in [None, Some("snake_case".to_string()), Some("PascalCase".to_string())] {
                    for zod in [false, true] {
                        cases.push(Case { params: vec![(k, n, 0)], case: c.clone(), zod, macro_arg, namesake: 0, raw_cmd: 0, neighbours: 0 });
                    }
                }
            }
        }
    }
    // (1c) the command itself named with a raw identifier: every frontend kind x name x modes
    for raw_cmd in 1..3u8 {
        for k in [PKind::Value, PKind::Optional, PKind::Channel] {
            for n in 0..NAMES.len() {
                for zod in [false, true] {
                    let c = Case { params: vec![(k, n, 0), (PKind::Injected(0), 0, 0), (PKind::Channel, (n + 2) % NAMES.len(), 1)], case: None, zod, macro_arg: 0, namesake: 0, raw_cmd, neighbours: 0 };
                    // (two Rust names that give one key - `type_` and `r#type` - are not a usable command)
                    if c.key_of(NAMES[n]) != c.key_of(NAMES[(n + 2) % NAMES.len()]) {
                        cases.push(c);
                    }
                }
            }
        }
    }
    // (1d) the command between two others in the same file that have macro arguments of their own and
    // reuse its parameter names with other kinds: what one command leaves behind must not reach the next
    for neighbours in 1..=2u8 {
        for k in [PKind::Value, PKind::Optional, PKind::Channel] {
            for n in 0..NAMES.len() {
                for macro_arg in 0..3usize {
                    use heck::ToSnakeCase;
                    let bare = NAMES[n].trim_start_matches("r#");
                    if MACRO_ARGS[macro_arg].1 == Some("snake") && bare.to_snake_case() != bare {
                        continue;
                    }
                    for c in [None, Some("snake_case".to_string())] {
                        for zod in [false, true] {
                            cases.push(Case { params: vec![(k, n, 0), (PKind::Injected(4), 0, 0)], case: c.clone(), zod, macro_arg, namesake: 0, raw_cmd: 0, neighbours });
                        }
                    }
                }
            }
        }
    }
    // (2) ordered lists of length 2..L over the kinds menu (all orders), names assigned round-robin
    let max_len = if tier == Tier::Quick { 4 } else { 5 };
    let menu: Vec<PKind> = if tier == Tier::Quick {
        vec![PKind::Value, PKind::Optional, PKind::Channel, PKind::Injected(0), PKind::Injected(4), PKind::Injected(6), PKind::Injected(8), PKind::Injected(10)]
    } else {
        kinds.clone()
    };
    fn lists(menu: &[PKind], len: usize, cur: &mut Vec<PKind>, out: &mut Vec<Vec<PKind>>) {
        if cur.len() == len {
            out.push(cur.clone());
            return;
        }
        for k in menu {
            cur.push(*k);
            lists(menu, len, cur, out);
            cur.pop();
        }
    }
    for len in 2..=max_len {
        let m: &[PKind] = if len >= 4 { &menu[..8.min(menu.len())] } else { &menu };
        let mut ls = vec![];
        lists(m, len, &mut vec![], &mut ls);
        for (i, l) in ls.iter().enumerate() {
            // at least one frontend parameter or exactly all injected (both matter)
            let params: Vec<(PKind, usize, usize)> = l.iter().enumerate().map(|(j, k)| (*k, (i + j * 2) % NAMES.len(), i + j)).collect();
            // names must be distinct
            let names: BTreeSet<usize> = params.iter().map(|p| p.1).collect();
            if names.len() != params.len() {
                continue;
            }
            let c = cases_opt[i % cases_opt.len()].clone();
            // the macro's own arguments rotate over the lists; names on which heck's snake_case is
            // not the identity (`a__b`, `_x`) stay out of the snake cases
            use heck::ToSnakeCase;
            let mut macro_arg = (i / cases_opt.len()) % MACRO_ARGS.len();
            if MACRO_ARGS[macro_arg].1 == Some("snake") && params.iter().any(|p| NAMES[p.1].trim_start_matches("r#").to_snake_case() != NAMES[p.1].trim_start_matches("r#")) {
                macro_arg = 0;
            }
            cases.push(Case { params: params.clone(), case: c.clone(), zod: false, macro_arg, namesake: 0, raw_cmd: 0, neighbours: 0 });
            // every list once more next to a same-named non-command function in another file
            cases.push(Case { params: params.clone(), case: c.clone(), zod: i % 2 == 0, macro_arg: 0, namesake: 1 + (i % 3) as u8, raw_cmd: 0, neighbours: 0 });
            cases.push(Case { params, case: c, zod: true, macro_arg, namesake: 0, raw_cmd: 0, neighbours: 0 });
        }
    }
    // (3) the configured case changes between two runs into the same output directory (real binary
    // and build path): every ordered pair of settings
    let mut hist: Vec<(Case, Option<String>, bool)> = vec![];
    for before in &cases_opt {
        for after in &cases_opt {
            if before == after {
                continue;
            }
            for zod in [false, true] {
                for build in [false, true] {
                    hist.push((Case { params: vec![(PKind::Value, 1, 0), (PKind::Optional, 2, 0), (PKind::Channel, 8, 0), (PKind::Injected(0), 0, 0)], case: after.clone(), zod, macro_arg: 0, namesake: 0, raw_cmd: 0, neighbours: 0 }, before.clone(), build));
                }
            }
        }
    }
    let hres: Vec<Vec<Violation>> = hist.par_iter().map(|(c, b, build)| if deadline.passed() { vec![] } else { eval_history(c, b, *build) }).collect();
    let hist_violations: Vec<Violation> = hres.into_iter().flatten().collect();
    let results: Vec<Option<(Vec<Violation>, bool, Option<String>)>> = cases.par_iter().map(|c| if deadline.passed() { None } else { Some(eval(c)) }).collect();
    let mut evaluations = 0u64;
    let mut exhaustive = true;
    let mut not_parsable = 0u64;
    let mut nontrivial = BTreeSet::new();
    let mut all_v = vec![];
    res.coverage.set("case_change_histories", hist.len() as u64);
    res.violations.extend(hist_violations.into_iter().take(8));
    for (c, r) in cases.iter().zip(results) {
        match r {
            None => exhaustive = false,
            Some((v, acc, unp)) => {
                evaluations += 1;
                if let Some(u) = unp.as_ref().filter(|u| u.starts_with("ORACLE")) {
                    res.machinery_errors.push(format!("observer does not cover the generated wrapper: {}", u));
                }
                if unp.is_some() {
                    not_parsable += 1;
                } else if acc {
                    nontrivial.insert(format!("{:?}", c));
                }
                all_v.extend(v);
            }
        }
    }
    // primary: simplest case per (class, set of parameter kinds involved, case)
    all_v.sort_by_key(|v| (v.rank, v.key()));
    let mut seen = BTreeSet::new();
    for v in all_v {
        let mut ks: Vec<&str> = v.fields["params"].split(' ').collect();
        ks.sort();
        ks.dedup();
        // a longer list is derived if a single-parameter case with one of its parameters already fails
        let singles_failing = ks.iter().any(|k| seen.contains(&format!("{}|{}|{}|{}|{}", v.class, k, v.fields["case"], v.fields["mode"], v.fields["macro"])));
        if v.fields["params"].split(' ').count() > 1 && singles_failing {
            res.derived += 1;
            continue;
        }
        let key = format!("{}|{}|{}|{}|{}", v.class, ks.join(" "), v.fields["case"], v.fields["mode"], v.fields["macro"]);
        if seen.insert(key) {
            res.violations.push(v);
        } else {
            res.derived += 1;
        }
    }
    res.coverage.set("evaluations", evaluations);
    res.coverage.set("distinct_nontrivial", nontrivial.len() as u64);
    res.coverage.set("outputs_not_parsable_here", not_parsable);
    res.coverage.set("cases", cases.len() as u64);
    res.coverage.set("exhaustive", exhaustive);
    res.coverage.set("samples", json!(cases.iter().step_by((cases.len() / 5).max(1)).take(5).collect::<Vec<_>>()));
    res.coverage.set("rule", "[round 7: 14 names incl. the reserved words delete / default / new] one command per project; and the command between two other commands of the same file that carry macro arguments of their own (rename_all = \"snake_case\" before / after it) and reuse its parameter names with other kinds, all three judged by the same oracle; parameter lists: every single parameter kind (value, Option, Channel<T> in 3 spellings, 13 spellings of injected parameters) x 11 names x {default, 6 naming-case settings} x both modes, plus all ordered lists of length 2..4 (quick) / 2..5 (thorough) over the kinds menu (lists of four and more over the eight-kind menu); oracle: key sets of the declared parameter type, of the parameter schema and of the object expression reaching invoke (spreads and safeParse results resolved through the parsed AST) equal {case(name) | frontend-filled parameter}, case = heck lowerCamelCase by default (what tauri-macros applies) / serde's field rule for a configured case / the macro's own rename_all argument (#[tauri::command(rename_all = \"snake_case\")], with async / root arguments beside it) before either; omittable iff Option; every list once more next to a file that holds a non-command function of the command's name (with other parameters, sorting before or after the command's file); plus every ordered pair of parameter-case settings as two consecutive runs of the real binary / build path into one output directory (the keys follow the second setting). Non-trivial = accepted and output parsed.");
    res.assumptions = vec!["parameter names are snake_case identifiers (on those heck and serde's camelCase agree)".into()];
    res
}
