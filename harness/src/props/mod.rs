//! Per-property checks.

use crate::core::*;
use serde_json::Value;

pub mod c01;
pub mod c02;
pub mod c03;
pub mod c04;
pub mod c05;
pub mod c08;
pub mod c14;
pub mod c16;
pub mod c17;
pub mod c20;

pub fn run(id: &str, tier: Tier) -> Option<CheckResult> {
    match id {
        "C01" => Some(c01::run(tier)),
        "C02" => Some(c02::run(tier)),
        "C03" => Some(c03::run(tier)),
        "C04" => Some(c04::run(tier)),
        "C05" => Some(c05::run(tier)),
        "C08" => Some(c08::run(tier)),
        "C14" => Some(c14::run(tier)),
        "C16" => Some(c16::run(tier)),
        "C17" => Some(c17::run(tier)),
        "C20" => Some(c20::run(tier)),
        _ => None,
    }
}

pub fn replay(id: &str, case: &Value) -> Option<Vec<Violation>> {
    match id {
        "C01" => Some(c01::replay(case)),
        "C02" => Some(c02::replay(case)),
        "C03" => Some(c03::replay(case)),
        "C04" => Some(c04::replay(case)),
        "C05" => Some(c05::replay(case)),
        "C08" => Some(c08::replay(case)),
        "C14" => Some(c14::replay(case)),
        "C16" => Some(c16::replay(case)),
        "C17" => Some(c17::replay(case)),
        "C20" => Some(c20::replay(case)),
        _ => None,
    }
}

pub fn selftest() -> i32 {
    crate::outln!("selftest: ok (no oracles registered yet)");
    0
}
