//! Per-property checks.

use crate::core::*;
use serde_json::Value;

pub mod c01;
pub mod c02;
pub mod c03;
pub mod c04;
pub mod c05;
pub mod c06;
pub mod c07;
pub mod c08;
pub mod c09;
pub mod c10;
pub mod c11;
pub mod c12;
pub mod c13;
pub mod c14;
pub mod c15;
pub mod c16;
pub mod c17;
pub mod c18;
pub mod c19;
pub mod c20;

pub fn run(id: &str, tier: Tier) -> Option<CheckResult> {
    match id {
        "C01" => Some(c01::run(tier)),
        "C02" => Some(c02::run(tier)),
        "C03" => Some(c03::run(tier)),
        "C04" => Some(c04::run(tier)),
        "C05" => Some(c05::run(tier)),
        "C06" => Some(c06::run(tier)),
        "C07" => Some(c07::run(tier)),
        "C08" => Some(c08::run(tier)),
        "C09" => Some(c09::run(tier)),
        "C10" => Some(c10::run(tier)),
        "C11" => Some(c11::run(tier)),
        "C12" => Some(c12::run(tier)),
        "C13" => Some(c13::run(tier)),
        "C14" => Some(c14::run(tier)),
        "C15" => Some(c15::run(tier)),
        "C16" => Some(c16::run(tier)),
        "C17" => Some(c17::run(tier)),
        "C18" => Some(c18::run(tier)),
        "C19" => Some(c19::run(tier)),
        "C20" => Some(c20::run(tier)),
        _ => None,
    }
}

pub fn replay(id: &str, case: &Value) -> Option<Vec<Violation>> {
    match id {
        "C01" => Some(c01::replay(case)),
        "C02" => Some(c02::replay(case)),
        "C03" => Some(c03::replay(case)),
        "C04" => Some(c04::replay(case)),
        "C05" => Some(c05::replay(case)),
        "C06" => Some(c06::replay(case)),
        "C07" => Some(c07::replay(case)),
        "C08" => Some(c08::replay(case)),
        "C09" => Some(c09::replay(case)),
        "C10" => Some(c10::replay(case)),
        "C11" => Some(c11::replay(case)),
        "C12" => Some(c12::replay(case)),
        "C13" => Some(c13::replay(case)),
        "C14" => Some(c14::replay(case)),
        "C15" => Some(c15::replay(case)),
        "C16" => Some(c16::replay(case)),
        "C17" => Some(c17::replay(case)),
        "C18" => Some(c18::replay(case)),
        "C19" => Some(c19::replay(case)),
        "C20" => Some(c20::replay(case)),
        _ => None,
    }
}

pub fn selftest() -> i32 {
    let mut failures: Vec<String> = vec![];
    let mut checks = 0u64;

    // 1. TypeScript parser: committed positive / negative corpus
    let corpus = verif_root().join("harness/corpus");
    for (dir, want_ok) in [("pos", true), ("neg", false)] {
        let Ok(rd) = std::fs::read_dir(corpus.join(dir)) else {
            failures.push(format!("corpus/{} missing", dir));
            continue;
        };
        for e in rd.flatten() {
            let text = std::fs::read_to_string(e.path()).unwrap_or_default();
            let r = crate::ts::parse_module(&text);
            checks += 1;
            if want_ok {
                if let Err(err) = r {
                    failures.push(format!("corpus/pos/{}: rejected: {}", e.file_name().to_string_lossy(), err));
                }
            } else {
                let expect = text.lines().next().unwrap_or("").trim().trim_start_matches("// expect:").trim().to_string();
                match r {
                    Ok(_) => failures.push(format!("corpus/neg/{}: accepted", e.file_name().to_string_lossy())),
                    Err(err) => {
                        if format!("{:?}", err.kind) != expect {
                            failures.push(format!("corpus/neg/{}: expected {} got {:?}", e.file_name().to_string_lossy(), expect, err.kind));
                        }
                    }
                }
            }
        }
    }

    // 2. naming oracles against real serde (compiled fixtures)
    if std::fs::read_to_string(c06::fixtures_path()).map(|t| t != c06::fixtures_source()).unwrap_or(true) {
        failures.push("harness/fixtures/src/lib.rs is not what `ttv gen-fixtures` produces".into());
    }
    let table = c06::serde_table();
    for it in c06::items().iter().filter(|i| i.attr == 0) {
        let conv = c06::conventions()[it.conv];
        if conv.is_some_and(|c| c.contains(':')) {
            continue;
        }
        let idents: Vec<&str> = if it.is_enum { c06::VARIANT_IDENTS.to_vec() } else { c06::FIELD_IDENTS.to_vec() };
        for id in idents {
            checks += 1;
            let model = match (conv, it.is_enum) {
                (None, _) => id.to_string(),
                (Some(c), true) => crate::naming::serde_variant(c, id),
                (Some(c), false) => crate::naming::serde_field(c, id),
            };
            let real = table.get(&it.name).and_then(|m| m.get(id)).cloned().flatten();
            if real.as_deref() != Some(model.as_str()) {
                failures.push(format!("naming model disagrees with serde: {:?} {} {} -> model {:?}, serde {:?}", conv, if it.is_enum { "variant" } else { "field" }, id, model, real));
            }
        }
    }
    // heck (tauri's argument key) and serde camelCase agree on the snake_case parameter alphabet
    for n in c04::NAMES {
        checks += 1;
        if crate::naming::tauri_arg_key(n) != crate::naming::serde_field("camelCase", n) {
            failures.push(format!("heck and serde camelCase disagree on {}", n));
        }
    }

    // 3. generated project sources re-parse with syn (the printers print what the model means)
    for t in crate::gen::enumerate_full(&[crate::gen::RTy::prim("String"), crate::gen::RTy::prim("()"), crate::gen::RTy::named("Item")], 2).iter().step_by(37) {
        for s in crate::typesite::SITES {
            checks += 1;
            let p = crate::typesite::build_project(s, std::slice::from_ref(t), &crate::gen::leaf_defs());
            for (name, src) in &p.files {
                if let Err(e) = syn::parse_file(src) {
                    failures.push(format!("generated project file {} does not parse as Rust: {} ({})", name, e, t.to_rust()));
                }
            }
        }
    }
    for b in ["b0", "b1", "b2"] {
        let base = crate::projects::base_by_name(b);
        for (name, src) in &base.files {
            checks += 1;
            if let Err(e) = syn::parse_file(src) {
                failures.push(format!("base project {} file {}: {}", b, name, e));
            }
        }
        for e in crate::projects::edits_for(b) {
            checks += 1;
            match e.apply(&base) {
                Err(m) => failures.push(format!("edit does not apply: {}", m)),
                Ok(p) => {
                    for (name, src) in &p.files {
                        if let Err(err) = syn::parse_file(src) {
                            failures.push(format!("edit {} leaves {} unparsable: {}", e.name, name, err));
                        }
                    }
                }
            }
        }
    }

    // 4. shape denotation sanity on hand-checked values
    {
        use crate::gen::RTy;
        use crate::shape::{denote, json_in_shape};
        let resolve = |n: &str| if n == "Item" { Some(crate::shape::Shape::Obj([("id".to_string(), (crate::shape::Shape::Num, false))].into_iter().collect(), None)) } else { None };
        let cases: Vec<(RTy, serde_json::Value, bool)> = vec![
            (RTy::vec(RTy::opt(RTy::prim("String"))), serde_json::json!(["a", null]), true),
            (RTy::vec(RTy::opt(RTy::prim("String"))), serde_json::json!([1]), false),
            (RTy::HashMap(Box::new(RTy::prim("String")), Box::new(RTy::named("Item"))), serde_json::json!({"k": {"id": 1}}), true),
            (RTy::Tuple(vec![RTy::prim("i32"), RTy::prim("bool")]), serde_json::json!([1, true]), true),
            (RTy::Tuple(vec![RTy::prim("i32"), RTy::prim("bool")]), serde_json::json!([1]), false),
            (RTy::Result2(Box::new(RTy::prim("u8")), Box::new(RTy::prim("String"))), serde_json::json!(7), true),
        ];
        for (t, v, want) in cases {
            checks += 1;
            if json_in_shape(&v, &denote(&t), &resolve) != want {
                failures.push(format!("denotation sanity: {} vs {}", t.to_rust(), v));
            }
        }
    }

    // 4b. the reference denotation against REAL serde values: for every listed type the samples crate
    // builds values, serialises them with serde_json, and each must be a member of denote(type);
    // and the denotation must not be coarser than serde on this list: two types with different
    // denotations are told apart by at least one sample
    {
        use crate::shape::{denote, json_in_shape, Shape};
        let resolve = |n: &str| match n {
            "Item" => Some(Shape::Obj([("id".to_string(), (Shape::Num, false))].into_iter().collect(), None)),
            "Kind" => Some(Shape::Union([Shape::Lit("Alpha".into()), Shape::Lit("Beta".into())].into_iter().collect())),
            _ => None,
        };
        match std::fs::read_to_string(crate::core::verif_root().join("harness/samples/src/lib.rs")) {
            Ok(t) if t == crate::gen::samples_source() => {}
            _ => failures.push("harness/samples/src/lib.rs is stale: run `ttv gen-fixtures` and rebuild".into()),
        }
        let types = crate::gen::binding_types();
        let table = ttv_samples::table();
        if types.len() != table.len() {
            failures.push(format!("samples table has {} rows, {} types listed", table.len(), types.len()));
        }
        let mut bound = 0u64;
        let mut refused = 0u64;
        // (type, denotation, serialised samples, did serde_json refuse any sample?)
        let mut rows: Vec<(&crate::gen::RTy, Shape, Vec<&serde_json::Value>, bool)> = vec![];
        for (t, (text, vals)) in types.iter().zip(table.iter()) {
            if &t.to_rust() != text {
                failures.push(format!("samples table row {} is for {}", t.to_rust(), text));
                continue;
            }
            let sh = denote(t);
            let mut some = vec![];
            for v in vals {
                match v {
                    Some(v) => {
                        checks += 1;
                        bound += 1;
                        if !json_in_shape(v, &sh, &resolve) {
                            failures.push(format!("denotation vs serde: {} serialises to {} which is not in {}", text, v, sh.show()));
                        }
                        some.push(v);
                    }
                    None => refused += 1,
                }
            }
            let any_refused = vals.iter().any(|v| v.is_none());
            rows.push((t, sh, some, any_refused));
        }
        // discrimination on the depth <= 1 rows (the deeper ones are built from these positions)
        // (types of which serde_json refuses a sample - non-string map keys, 128-bit extremes - keep
        // only their trivial samples and are left out)
        let small: Vec<&(&crate::gen::RTy, Shape, Vec<&serde_json::Value>, bool)> = rows.iter().filter(|r| r.0.depth() <= 1 && !r.2.is_empty() && !r.3).collect();
        for (i, a) in small.iter().enumerate() {
            for b in small.iter().skip(i + 1) {
                if a.1 == b.1 {
                    continue;
                }
                // `()` and `Option<()>` are both just null on the wire (void vs void | null)
                let nullish = |s: &Shape| match s {
                    Shape::Void | Shape::Null | Shape::Undef => true,
                    Shape::Union(alts) => alts.iter().all(|x| matches!(x, Shape::Void | Shape::Null | Shape::Undef)),
                    _ => false,
                };
                if nullish(&a.1) && nullish(&b.1) {
                    continue;
                }
                checks += 1;
                let a_out = a.2.iter().any(|v| !json_in_shape(v, &b.1, &resolve));
                let b_out = b.2.iter().any(|v| !json_in_shape(v, &a.1, &resolve));
                if !a_out && !b_out {
                    failures.push(format!("denotation finer than serde: {} ({}) and {} ({}) differ but no sample of either falls outside the other", a.0.to_rust(), a.1.show(), b.0.to_rust(), b.1.show()));
                }
            }
        }
        crate::outln!("selftest: denotation bound to serde on {} types ({} values; {} refused by serde_json)", rows.len(), bound, refused);
    }

    // 5. the getrandom shim owns the hash seeds of a spawned process: equal seeds give equal
    // iteration orders, and the seed alphabet realises several orders
    if crate::run::seed_shim().is_some() {
        let me = std::env::current_exe().unwrap();
        let order = |seed: u64| {
            let r = crate::run::spawn(crate::run::Spawn { program: me.clone(), args: vec!["hash-order".into()], cwd: std::path::Path::new("/"), schedule_env: None, trace_file: None, strace: None, hash_seed: Some(seed), fsize_limit: None });
            r.stdout.trim().to_string()
        };
        let orders: Vec<String> = (0..8).map(order).collect();
        let again: Vec<String> = (0..8).map(order).collect();
        checks += 2;
        if orders != again || orders.iter().any(|o| o.len() != 7) {
            failures.push(format!("hash-seed shim: equal seeds gave different orders: {:?} vs {:?}", orders, again));
        }
        if orders.iter().collect::<std::collections::BTreeSet<_>>().len() < 4 {
            failures.push(format!("hash-seed shim: seeds 0..8 realise fewer than 4 orders of a 7-element set: {:?}", orders));
        }
    } else {
        crate::outln!("NOTE hash-seed shim not built: fresh-process runs use free-running hash seeds");
    }

    if failures.is_empty() {
        crate::outln!("selftest: ok ({} checks)", checks);
        0
    } else {
        for f in &failures {
            crate::outln!("SELFTEST-FAILURE {}", f);
        }
        2
    }
}
