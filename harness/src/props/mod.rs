//! Per-property checks.

use crate::core::*;
use serde_json::Value;

pub mod c20;

pub fn run(id: &str, tier: Tier) -> Option<CheckResult> {
    match id {
        "C20" => Some(c20::run(tier)),
        _ => None,
    }
}

pub fn replay(id: &str, case: &Value) -> Option<Vec<Violation>> {
    match id {
        "C20" => Some(c20::replay(case)),
        _ => None,
    }
}

pub fn selftest() -> i32 {
    crate::outln!("selftest: ok (no oracles registered yet)");
    0
}
