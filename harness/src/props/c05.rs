//! C05 - each emitted TypeScript type denotes the JSON shape serde produces.

use crate::core::*;
use crate::gen::{self, RTy, NUMERIC_PRIMS};
use crate::run::Cfg;
use crate::shape::{self, Shape};
use crate::typesite::{self, Extracted, Site, SITES};
use rayon::prelude::*;
use serde_json::{json, Value};
use std::collections::{BTreeMap, BTreeSet, HashSet};

pub fn leaf(s: &str) -> RTy {
    if s == "Item" || s == "Kind" {
        RTy::named(s)
    } else {
        RTy::prim(s)
    }
}

/// Enumerate the type expressions of a tier (deduplicated, smallest first).
pub fn enumerate(tier: Tier) -> Vec<RTy> {
    let mut all: Vec<RTy> = vec![];
    // every primitive name at depth <= 1
    let mut prims: Vec<RTy> = vec![RTy::prim("String"), RTy::prim("bool"), RTy::prim("()")];
    prims.extend(NUMERIC_PRIMS.iter().map(|p| RTy::prim(p)));
    prims.push(RTy::named("Item"));
    prims.push(RTy::named("Kind"));
    all.extend(gen::enumerate_full(&prims, 1));
    all.push(RTy::Ref(Box::new(RTy::prim("str"))));
    match tier {
        Tier::Quick => {
            all.extend(gen::enumerate_full(&[leaf("String"), leaf("()"), leaf("Item")], 2));
            all.extend(gen::enumerate_spines(&[leaf("String"), leaf("Item")], &[leaf("i32")], 3));
        }
        Tier::Thorough => {
            all.extend(gen::enumerate_full(&[leaf("String"), leaf("i32"), leaf("bool"), leaf("()"), leaf("Item")], 2));
            all.extend(gen::enumerate_spines(&[leaf("String"), leaf("bool"), leaf("Item")], &[leaf("i32"), leaf("Item")], 3));
            all.extend(gen::enumerate_spines(&[leaf("String"), leaf("Item")], &[leaf("i32")], 4));
        }
    }
    // path-qualified spellings of project types at every constructor position (the translator
    // identifies a type by its last path segment)
    all.extend(gen::enumerate_spines(&[RTy::named("models::Item"), RTy::named("crate::dto::Kind")], &[leaf("i32")], 2));
    all.extend(gen::enumerate_spines(&[RTy::named("models::Item")], &[leaf("i32")], 3));
    // several path-qualified names in ONE expression (the qualifier stripper works on the text)
    {
        let a = RTy::named("models::Item");
        let b = RTy::named("crate::dto::Kind");
        let c = RTy::named("self::models::Item");
        let bx = |t: &RTy| Box::new(t.clone());
        let pairs = vec![
            RTy::Tuple(vec![a.clone(), b.clone()]),
            RTy::Tuple(vec![b.clone(), a.clone(), c.clone()]),
            RTy::HashMap(bx(&b), bx(&a)),
            RTy::BTreeMap(bx(&leaf("String")), bx(&RTy::Tuple(vec![a.clone(), b.clone()]))),
            RTy::Result2(bx(&RTy::Tuple(vec![a.clone(), b.clone()])), bx(&leaf("String"))),
            RTy::Option(bx(&RTy::Tuple(vec![leaf("i32"), a.clone(), b.clone()]))),
            RTy::Tuple(vec![RTy::Vec(bx(&a)), RTy::Option(bx(&b))]),
        ];
        for p in pairs {
            all.push(RTy::Vec(bx(&p)));
            all.push(p);
        }
    }
    // a parameter or field of reference type other than &str is not in the documented set at
    // top level for owned sites, but is harmless to the translator: keep everything.
    let mut seen = HashSet::new();
    all.retain(|t| seen.insert(t.clone()));
    all.sort_by_key(|t| (t.depth(), t.to_rust().len(), t.to_rust()));
    all
}

#[derive(Debug, Clone)]
pub enum Verdict {
    Ok,
    Mismatch { got: Shape, want: Shape, text: String },
    /// not evaluable here: syntax error in the carrier file (C01), missing declaration, run failure
    NotEvaluable(String),
    Unsupported(String),
}

pub fn judge(ty: &RTy, ex: &Extracted) -> Verdict {
    match ex {
        Extracted::Type(t) => {
            let got = shape::from_ts(t);
            let want = shape::denote(ty);
            if got == want {
                Verdict::Ok
            } else {
                Verdict::Mismatch { got, want, text: format!("{:?}", t) }
            }
        }
        Extracted::Unsupported(m) => Verdict::Unsupported(m.clone()),
        Extracted::FileSyntaxError(m) => Verdict::NotEvaluable(format!("syntax: {}", m)),
        Extracted::Missing(m) => Verdict::NotEvaluable(format!("missing: {}", m)),
        Extracted::RunFailed(m) => Verdict::NotEvaluable(format!("run: {}", m)),
    }
}

fn mk_violation(site: Site, zod: bool, ty: &RTy, got: &Shape, want: &Shape) -> Violation {
    Violation::new(
        "C05",
        "shape-mismatch",
        format!(
            "{} at {} site ({} mode): emitted type denotes {} but serde's JSON shape is {}",
            ty.to_rust(),
            site.name(),
            if zod { "zod" } else { "none" },
            got.show(),
            want.show()
        ),
        json!({"site": site.name(), "zod": zod, "ty": ty}),
    )
    .field("site", site.name())
    .field("mode", if zod { "zod" } else { "none" })
    .with_ty(ty)
    .rank((ty.depth() * 1000 + ty.to_rust().len()) as u64)
}

pub fn replay(case: &Value) -> Vec<Violation> {
    let Some(site) = case["site"].as_str().and_then(Site::from_name) else { return vec![] };
    let zod = case["zod"].as_bool().unwrap_or(false);
    let Ok(ty) = serde_json::from_value::<RTy>(case["ty"].clone()) else { return vec![] };
    let cfg = if case["lookalike_mappings"].as_bool().unwrap_or(false) {
        Cfg { type_mappings: [("Ite", "string"), ("It", "number"), ("Kin", "boolean"), ("Itemx", "string"), ("KindOf", "number"), ("Str", "number"), ("Vec", "string"), ("Opt", "number"), ("Hash", "boolean"), ("i3", "string")].iter().map(|(a, b)| (a.to_string(), b.to_string())).collect(), ..Cfg::mode(zod) }
    } else {
        Cfg::mode(zod)
    };
    let (ex, _) = typesite::run_solo(site, &cfg, &ty, &gen::leaf_defs());
    match judge(&ty, &ex) {
        Verdict::Mismatch { got, want, .. } => vec![mk_violation(site, zod, &ty, &got, &want)],
        _ => vec![],
    }
}

pub fn run(tier: Tier) -> CheckResult {
    let mut res = CheckResult::new("C05", "exploration");
    let deadline = tier_deadline(tier);
    let types = enumerate(tier);
    let defs = gen::leaf_defs();
    let mut site_modes: Vec<(Site, bool)> = vec![];
    for s in SITES {
        for zod in [false, true] {
            if s.has_ts_text(zod) {
                site_modes.push((s, zod));
            }
        }
    }
    // work items: (site, zod, chunk of types)
    let mut work: Vec<(Site, bool, Vec<RTy>)> = vec![];
    for (s, z) in &site_modes {
        for chunk in types.chunks(s.batch_size()) {
            work.push((*s, *z, chunk.to_vec()));
        }
    }
    let results: Vec<Option<(Site, bool, Vec<(RTy, Verdict)>, u64)>> = work
        .par_iter()
        .map(|(s, z, chunk)| {
            if deadline.passed() {
                return None;
            }
            let mut evals = 0u64;
            let ex = typesite::run_batch(*s, &Cfg::mode(*z), chunk, &defs, &mut evals);
            let v: Vec<(RTy, Verdict)> = chunk.iter().zip(ex.iter()).map(|(t, e)| (t.clone(), judge(t, e))).collect();
            Some((*s, *z, v, evals))
        })
        .collect();

    let mut evaluations = 0u64;
    let mut translations = 0u64;
    let mut ok = 0u64;
    let mut not_evaluable = 0u64;
    let mut exhaustive = true;
    let mut failing: BTreeMap<(Site, bool), BTreeSet<RTy>> = BTreeMap::new();
    let mut mism: Vec<(Site, bool, RTy, Shape, Shape)> = vec![];
    let mut distinct_shapes: BTreeSet<String> = BTreeSet::new();
    let mut noneval_reasons: BTreeMap<String, u64> = BTreeMap::new();
    for r in results {
        let Some((s, z, v, e)) = r else {
            exhaustive = false;
            continue;
        };
        evaluations += e;
        for (t, verdict) in v {
            translations += 1;
            match verdict {
                Verdict::Ok => {
                    ok += 1;
                    if t.depth() >= 1 {
                        distinct_shapes.insert(format!("{}|{}|{}", s.name(), z, t.to_rust()));
                    }
                }
                Verdict::Mismatch { got, want, .. } => {
                    failing.entry((s, z)).or_default().insert(t.clone());
                    mism.push((s, z, t, got, want));
                }
                Verdict::NotEvaluable(m) => {
                    not_evaluable += 1;
                    // (a case that cannot be evaluated - its carrier file does not parse, C01's
                    // business - does not make the cases built on it derived: a wrong but
                    // well-formed translation of the enclosing type is still reported here)
                    let k = m.split(':').next().unwrap_or("").to_string();
                    *noneval_reasons.entry(k).or_default() += 1;
                }
                Verdict::Unsupported(m) => {
                    res.machinery_errors.push(format!("oracle does not cover output for {} at {}: {}", t.to_rust(), s.name(), m));
                }
            }
        }
    }
    res.machinery_errors.truncate(5);
    // primary vs derived: derived iff a direct child (as its own case at the same site/mode) fails
    let empty = BTreeSet::new();
    for (s, z, t, got, want) in mism {
        let f = failing.get(&(s, z)).unwrap_or(&empty);
        if t.children().iter().any(|c| f.contains(*c)) {
            res.derived += 1;
            continue;
        }
        // re-confirm solo
        let (ex, _) = typesite::run_solo(s, &Cfg::mode(z), &t, &defs);
        evaluations += 1;
        match judge(&t, &ex) {
            Verdict::Mismatch { .. } => res.violations.push(mk_violation(s, z, &t, &got, &want)),
            Verdict::Ok => res.machinery_errors.push(format!("batch/solo disagreement for {} at {} ({})", t.to_rust(), s.name(), z)),
            _ => {}
        }
    }
    // second pass under a non-empty type_mappings table whose keys merely LOOK like the names in
    // use (prefixes / extensions of Item, Kind and of the containers): nothing may change
    let lookalike: Vec<(String, String)> = [("Ite", "string"), ("It", "number"), ("Kin", "boolean"), ("Itemx", "string"), ("KindOf", "number"), ("Str", "number"), ("Vec", "string"), ("Opt", "number"), ("Hash", "boolean"), ("i3", "string")].iter().map(|(a, b)| (a.to_string(), b.to_string())).collect();
    let small: Vec<RTy> = types.iter().filter(|t| t.depth() <= 1).cloned().collect();
    let mut mwork: Vec<(Site, bool, Vec<RTy>)> = vec![];
    for (s, z) in &site_modes {
        for chunk in small.chunks(s.batch_size()) {
            mwork.push((*s, *z, chunk.to_vec()));
        }
    }
    let mres: Vec<Vec<Violation>> = mwork
        .par_iter()
        .map(|(s, z, chunk)| {
            if deadline.passed() {
                return vec![];
            }
            let cfg = Cfg { type_mappings: lookalike.clone(), ..Cfg::mode(*z) };
            let mut evals = 0u64;
            let ex = typesite::run_batch(*s, &cfg, chunk, &defs, &mut evals);
            chunk
                .iter()
                .zip(ex.iter())
                .filter_map(|(t, e)| match judge(t, e) {
                    Verdict::Mismatch { got, want, .. } => Some(mk_violation(*s, *z, t, &got, &want).field("mappings", "look-alike keys only").with_replay_field("lookalike_mappings", json!(true))),
                    _ => None,
                })
                .collect()
        })
        .collect();
    evaluations += mwork.len() as u64;
    for v in mres.into_iter().flatten() {
        // (types under the open finding fail with or without the table: they are reported once, above)
        if !res.violations.iter().any(|x| x.ty == v.ty && x.fields.get("site") == v.fields.get("site") && x.fields.get("mode") == v.fields.get("mode")) {
            res.violations.push(v);
        }
    }
    res.coverage.set("evaluations", evaluations);
    res.coverage.set("translations_judged", translations);
    res.coverage.set("translations_ok", ok);
    res.coverage.set("not_evaluable_here", not_evaluable);
    res.coverage.set("not_evaluable_reasons", json!(noneval_reasons));
    res.coverage.set("distinct_nontrivial", distinct_shapes.len() as u64);
    res.coverage.set("type_expressions", types.len() as u64);
    res.coverage.set("site_modes", json!(site_modes.iter().map(|(s, z)| format!("{}/{}", s.name(), if *z { "zod" } else { "none" })).collect::<Vec<_>>()));
    res.coverage.set("max_depth", types.iter().map(|t| t.depth()).max().unwrap_or(0) as u64);
    res.coverage.set("exhaustive", exhaustive);
    res.coverage.set("samples", json!(types.iter().step_by((types.len() / 8).max(1)).take(8).map(|t| t.to_rust()).collect::<Vec<_>>()));
    res.coverage.set("rule", "type expressions: every primitive name at depth <= 1; the full product of all constructors at depth <= 2 over a leaf alphabet; constructor-position spines to depth 3 (quick) / 4 (thorough); each placed at every site/mode that carries TypeScript type text (batched into generated projects, carrier-file parse failures re-run solo); evaluation = one in-process run of the real pipeline; oracle = parsed emitted type, normalised to a Shape, must equal the reference denotation of the Rust type; distinct_nontrivial counts distinct (site, mode, composite type) cases whose emitted type was parsed and agreed; cases whose carrier file does not parse are C01's and counted as not evaluable here; the depth <= 1 expressions are translated a second time under a type_mappings table whose ten keys only look like the names in use (prefixes and extensions): the result must not change");
    res.assumptions = vec![
        "reference denotation = README table applied compositionally (bound to real serde by selftest)".into(),
        "a violating case whose direct argument type already fails at the same site is derived and not reported".into(),
    ];
    res
}
