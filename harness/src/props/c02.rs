//! C02 - generated modules are closed: every name resolves, none is declared twice.

use crate::core::*;
use crate::gen::{self, Project, RTy};
use crate::resolve;
use crate::run::{run_lib_default, Cfg};
use crate::typesite::{self, Site, SITES};
use rayon::prelude::*;
use serde::{Deserialize, Serialize};
use serde_json::{json, Value};
use std::collections::BTreeSet;

#[derive(Debug, Clone, Serialize, Deserialize)]
pub enum Case {
    /// a type expression mentioning project types, at a site
    TypeAt { site: String, ty: RTy, mapped: bool },
    /// the same event emitted `n` times over `files` files with payloads of the given types
    Events {
        n: usize,
        files: usize,
        same_payload: bool,
        /// a different event is emitted between the repeated ones (A B A B ...)
        #[serde(default)]
        interleave: bool,
    },
    /// two declarations whose generated names collide
    Collision { kind: String },
    /// project shape variations: with/without events and channels
    Shape {
        events: bool,
        channels: bool,
        structs: bool,
        /// the type definitions live in a source file that is a symbolic link to a file outside the project
        #[serde(default)]
        linked: bool,
    },
    /// a project type with an unusual (but legal) Rust name, under Vec / Option, at a site
    OddName { name: String, site: String, wrap: usize },
}

impl Case {
    pub fn project(&self) -> (Project, Cfg) {
        let mut cfg = Cfg::default();
        match self {
            Case::TypeAt { site, ty, mapped } => {
                let site = Site::from_name(site).unwrap_or(Site::Field);
                if *mapped {
                    cfg.type_mappings = vec![("Uuid".into(), "string".into()), ("DateTime<Utc>".into(), "string".into())];
                }
                (typesite::build_project(site, std::slice::from_ref(ty), &gen::leaf_defs()), cfg)
            }
            Case::Events { n, files, same_payload, interleave } => {
                let mut fs: Vec<(String, String)> = vec![];
                for f in 0..*files {
                    fs.push((format!("src/f{}.rs", f), String::from("use tauri::{AppHandle, Emitter};\n")));
                }
                fs[0].1.push_str(gen::PRELUDE);
                fs[0].1.push_str(&gen::leaf_defs());
                fs[0].1.push_str("#[tauri::command]\npub fn anchor() -> bool { true }\n");
                for i in 0..*n {
                    let payload = if *same_payload || i == 0 { "Item { id: 1 }" } else if i == 1 { "42" } else { "true" };
                    let f = i % *files;
                    fs[f].1.push_str(&format!("pub fn emit_{}(app: &AppHandle) {{ app.emit(\"item-changed\", {}).unwrap(); }}\n", i, payload));
                    if *interleave {
                        fs[f].1.push_str(&format!("pub fn between_{}(app: &AppHandle) {{ app.emit(\"other-event\", {}).unwrap(); }}\n", i, i));
                    }
                }
                (Project { files: fs, links: vec![] }, cfg)
            }
            Case::Collision { kind } => {
                let mut s = String::from(gen::PRELUDE);
                match kind.as_str() {
                    "commands-same-camel" => {
                        s.push_str("#[tauri::command]\npub fn get_user(id: i32) -> i32 { id }\n#[tauri::command]\npub fn get__user(id: i32) -> i32 { id }\n");
                    }
                    "command-vs-struct-params" => {
                        s.push_str("#[derive(Serialize, Deserialize)]\npub struct GetUserParams { pub a: i32 }\n");
                        s.push_str("#[tauri::command]\npub fn get_user(id: i32, p: GetUserParams) -> i32 { id }\n");
                    }
                    "command-vs-struct-schema" => {
                        s.push_str("#[derive(Serialize, Deserialize)]\npub struct GetUserParamsSchema { pub a: i32 }\n");
                        s.push_str("#[tauri::command]\npub fn get_user(id: i32, p: GetUserParamsSchema) -> i32 { id }\n");
                    }
                    "same-command-two-files" => {
                        return (
                            Project {
                                files: vec![
                                    ("src/a.rs".into(), "#[tauri::command]\npub fn ping() -> i32 { 1 }\n".into()),
                                    ("src/b.rs".into(), "#[tauri::command]\npub fn ping() -> i32 { 2 }\n".into()),
                                ],
                                links: vec![],
                            },
                            cfg,
                        );
                    }
                    "same-struct-two-files" => {
                        return (
                            Project {
                                files: vec![
                                    ("src/a.rs".into(), format!("{}#[derive(Serialize, Deserialize)]\npub struct Dup {{ pub a: i32 }}\n#[tauri::command]\npub fn fa(d: Dup) -> i32 {{ 1 }}\n", gen::PRELUDE)),
                                    ("src/b.rs".into(), format!("{}#[derive(Serialize, Deserialize)]\npub struct Dup {{ pub a: i32 }}\n#[tauri::command]\npub fn fb(d: Dup) -> i32 {{ 2 }}\n", gen::PRELUDE)),
                                ],
                                links: vec![],
                            },
                            cfg,
                        );
                    }
                    "event-vs-command" => {
                        s.push_str("use tauri::{AppHandle, Emitter};\n#[tauri::command]\npub fn on_ready(app: AppHandle) -> i32 { app.emit(\"ready\", 1).unwrap(); 1 }\n");
                    }
                    "events-normalise-alike" => {
                        s.push_str("use tauri::{AppHandle, Emitter};\n#[tauri::command]\npub fn anchor(app: AppHandle) -> i32 { app.emit(\"a-b\", 1).unwrap(); app.emit(\"a_b\", 2).unwrap(); 1 }\n");
                    }
                    _ => {}
                }
                (Project::single(s), cfg)
            }
            Case::OddName { name, site, wrap } => {
                let site = Site::from_name(site).unwrap_or(Site::Return);
                let ty = match wrap % 4 {
                    0 => RTy::named(name),
                    1 => RTy::vec(RTy::named(name)),
                    2 => RTy::opt(RTy::vec(RTy::named(name))),
                    _ => RTy::HashMap(Box::new(RTy::prim("String")), Box::new(RTy::named(name))),
                };
                let defs = format!("#[derive(Debug, Clone, Serialize, Deserialize)]\npub struct {} {{ pub id: i32 }}\n", name);
                (typesite::build_project(site, std::slice::from_ref(&ty), &defs), cfg)
            }
            Case::Shape { events, channels, structs, linked } => {
                let mut s = String::from(gen::PRELUDE);
                s.push_str("use tauri::{AppHandle, Emitter};\nuse tauri::ipc::Channel;\n");
                if *structs {
                    if !*linked {
                        s.push_str(&gen::leaf_defs());
                    }
                    s.push_str("#[tauri::command]\npub fn get_item(k: Kind) -> Option<Item> { None }\n");
                } else {
                    s.push_str("#[tauri::command]\npub fn plain(a: i32) -> String { String::new() }\n#[tauri::command]\npub fn noargs() {}\n");
                }
                if *channels {
                    s.push_str("#[tauri::command]\npub fn stream(ch: Channel<i32>) -> bool { true }\n#[tauri::command]\npub fn stream2(n: i32, on_data: Channel<String>, on_done: Channel<bool>) -> bool { true }\n");
                }
                if *events {
                    s.push_str("pub fn fire(app: &AppHandle) { app.emit(\"fired\", 1).unwrap(); }\n");
                }
                if *structs && *linked {
                    return (Project { files: vec![("src/lib.rs".into(), s)], links: vec![("src/models.rs".into(), format!("{}{}", gen::PRELUDE, gen::leaf_defs()))] }, cfg);
                }
                (Project::single(s), cfg)
            }
        }
    }
}

pub fn eval(case: &Case, zod: bool) -> (Vec<Violation>, bool, Option<String>) {
    let (project, mut cfg) = case.project();
    cfg.zod = zod;
    let run = run_lib_default(&project, &cfg);
    if !run.ok() {
        return (vec![], false, None);
    }
    match resolve::check_output(&run.files) {
        Err(e) => (vec![], true, Some(e)),
        Ok(problems) => {
            let mut vs = vec![];
            // one violation per problem kind for this case
            let kinds: BTreeSet<String> = problems.iter().map(|p| p.kind.clone()).collect();
            for k in kinds {
                let ps: Vec<String> = problems.iter().filter(|p| p.kind == k).map(|p| p.show()).collect();
                let mut v = Violation::new(
                    "C02",
                    &k,
                    format!("{:?} ({} mode): {}", case, cfg.mode_name(), ps.join(" ; ")),
                    json!({"case": case, "zod": zod}),
                )
                .field("mode", cfg.mode_name());
                match case {
                    Case::TypeAt { site, ty, mapped } => {
                        v = v.field("site", site.clone()).field("mapped", mapped.to_string()).with_ty(ty).rank((ty.depth() * 1000 + ty.to_rust().len()) as u64);
                    }
                    Case::Events { n, files, same_payload, interleave } => {
                        v = v.field("events", format!("n{}f{}same{}{}", n, files, same_payload, if *interleave { "-interleaved" } else { "" }));
                    }
                    Case::Collision { kind } => {
                        v = v.field("collision", kind.clone());
                    }
                    Case::OddName { name, site, wrap } => {
                        v = v.field("odd_name", name.clone()).field("site", site.clone()).field("wrap", wrap.to_string());
                    }
                    Case::Shape { events, channels, structs, linked } => {
                        v = v.field("shape", format!("e{}c{}s{}{}", events, channels, structs, if *linked { "-linked" } else { "" }));
                    }
                }
                vs.push(v);
            }
            (vs, true, None)
        }
    }
}

pub fn replay(case: &Value) -> Vec<Violation> {
    let Ok(c) = serde_json::from_value::<Case>(case["case"].clone()) else { return vec![] };
    eval(&c, case["zod"].as_bool().unwrap_or(false)).0
}

pub fn type_cases(tier: Tier) -> Vec<RTy> {
    let item = RTy::named("Item");
    let kind = RTy::named("Kind");
    let fillers = [RTy::prim("i32"), RTy::prim("String")];
    let mut v = gen::enumerate_spines(&[item.clone(), kind.clone()], &fillers, if tier == Tier::Quick { 2 } else { 3 });
    // both named types at once
    v.push(RTy::Tuple(vec![item.clone(), kind.clone()]));
    v.push(RTy::HashMap(Box::new(kind.clone()), Box::new(item.clone())));
    v.push(RTy::Result2(Box::new(item.clone()), Box::new(RTy::named("Fail"))));
    v.push(RTy::Result2(Box::new(RTy::vec(item.clone())), Box::new(RTy::named("Fail"))));
    v.sort();
    v.dedup();
    v.sort_by_key(|t| (t.depth(), t.to_rust().len(), t.to_rust()));
    v
}

pub fn run(tier: Tier) -> CheckResult {
    let mut res = CheckResult::new("C02", "exploration");
    let deadline = tier_deadline(tier);
    let mut cases: Vec<Case> = vec![];
    for t in type_cases(tier) {
        for s in SITES {
            cases.push(Case::TypeAt { site: s.name().into(), ty: t.clone(), mapped: false });
        }
    }
    // mapped names that are defined nowhere in the project
    let mapped_leaves = [RTy::named("Uuid"), RTy::named("DateTime<Utc>")];
    for t in gen::enumerate_spines(&mapped_leaves, &[RTy::prim("i32")], if tier == Tier::Quick { 1 } else { 2 }) {
        for s in SITES {
            cases.push(Case::TypeAt { site: s.name().into(), ty: t.clone(), mapped: true });
        }
    }
    // project types spelled with a module path whose segments use identifier characters beyond
    // letters and digits (middle dot, combining accent, tie) or other scripts
    for qual in ["col·lecció", "x\u{301}y", "a‿b", "données", "モデル", "crate::col·lecció::v2"] {
        for leaf in ["Item", "Kind"] {
            let named = RTy::named(&format!("{}::{}", qual, leaf));
            for t in [named.clone(), RTy::vec(named.clone()), RTy::opt(named.clone())] {
                for s in SITES {
                    cases.push(Case::TypeAt { site: s.name().into(), ty: t.clone(), mapped: false });
                }
            }
        }
    }
    // legal Rust type names outside [A-Za-z0-9_]: letters of other scripts, characters that continue
    // an identifier without being letters or digits (middle dot, virama, combining accent, tie),
    // letters outside the BMP
    for name in ["Größe", "Col·lecció", "पुस्तक", "किताब", "E\u{301}cole", "Peça", "名前", "𠮷田Profile", "Ωmega", "A‿B", "Ünï_2"] {
        for s in SITES {
            // (a project type under a map or tuple at return / event is the open finding above)
            for wrap in 0..3 {
                cases.push(Case::OddName { name: name.to_string(), site: s.name().into(), wrap });
            }
        }
    }
    for n in 1..=3 {
        for files in 1..=2 {
            for same in [true, false] {
                if files <= n {
                    cases.push(Case::Events { n, files, same_payload: same, interleave: false });
                    if n >= 2 {
                        cases.push(Case::Events { n, files, same_payload: same, interleave: true });
                    }
                }
            }
        }
    }
    // (two commands of the same name in different modules are not a valid Tauri application -
    // command names are global - so that collision is not part of the alphabet)
    for k in ["commands-same-camel", "command-vs-struct-params", "command-vs-struct-schema", "same-struct-two-files", "event-vs-command", "events-normalise-alike"] {
        cases.push(Case::Collision { kind: k.into() });
    }
    for e in [false, true] {
        for c in [false, true] {
            for s in [false, true] {
                cases.push(Case::Shape { events: e, channels: c, structs: s, linked: false });
                if s {
                    cases.push(Case::Shape { events: e, channels: c, structs: s, linked: true });
                }
            }
        }
    }
    let results: Vec<Option<(usize, bool, Vec<Violation>, bool, Option<String>)>> = (0..cases.len() * 2)
        .into_par_iter()
        .map(|k| {
            if deadline.passed() {
                return None;
            }
            let (i, zod) = (k / 2, k % 2 == 1);
            let (v, acc, unparsable) = eval(&cases[i], zod);
            Some((i, zod, v, acc, unparsable))
        })
        .collect();
    let mut evaluations = 0u64;
    let mut judged = 0u64;
    let mut unparsable = 0u64;
    let mut exhaustive = true;
    let mut failing: BTreeSet<(String, bool, RTy, String)> = BTreeSet::new();
    let mut type_v = vec![];
    let mut nontrivial: BTreeSet<String> = BTreeSet::new();
    for r in results {
        let Some((i, zod, vs, acc, unp)) = r else {
            exhaustive = false;
            continue;
        };
        evaluations += 1;
        if unp.is_some() {
            unparsable += 1;
            continue;
        }
        if acc {
            judged += 1;
            nontrivial.insert(format!("{}|{:?}", zod, cases[i]));
        }
        for v in vs {
            if let Case::TypeAt { site, ty, .. } = &cases[i] {
                failing.insert((site.clone(), zod, ty.clone(), v.class.clone()));
                type_v.push((site.clone(), zod, ty.clone(), v));
            } else {
                res.violations.push(v);
            }
        }
    }
    for (site, zod, ty, v) in type_v {
        if ty.children().iter().any(|c| failing.contains(&(site.clone(), zod, (*c).clone(), v.class.clone()))) {
            res.derived += 1;
        } else {
            res.violations.push(v);
        }
    }
    res.coverage.set("evaluations", evaluations);
    res.coverage.set("outputs_judged", judged);
    res.coverage.set("outputs_not_parsable_here", unparsable);
    res.coverage.set("distinct_nontrivial", nontrivial.len() as u64);
    res.coverage.set("cases", cases.len() as u64);
    res.coverage.set("exhaustive", exhaustive);
    res.coverage.set("samples", json!(cases.iter().step_by((cases.len() / 6).max(1)).take(6).collect::<Vec<_>>()));
    res.coverage.set("rule", "[round 7: project shapes also with the type definitions in a source file that is a symbolic link] cases: project types (struct Item, enum Kind, error type Fail) at every constructor position (spines to depth 2 quick / 3 thorough) of every site; mapped names defined nowhere; one event emitted 1..3 times over 1..2 files; name collisions; with/without events, channels, structs; each in both modes. Oracle: all files parse, then name resolution over the module graph: every type/value name is declared, imported or a global; every types.X member exists in the right namespace of types.ts; index.ts re-exports exactly the files written; no duplicate exports. A case is non-trivial when the tool accepted it and every output file parsed.");
    res.assumptions = vec!["outputs that do not parse are C01's business and are counted, not judged".into()];
    res
}
