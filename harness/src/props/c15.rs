//! C15 - no input makes analysis or generation panic; bad files are isolated.

use crate::core::*;
use crate::gen::{self, Project};
use crate::run::{self, run_lib_default, strip_timestamp, Cfg, LibStatus, Sandbox, Spawn};
use rayon::prelude::*;
use serde::{Deserialize, Serialize};
use serde_json::{json, Value};
use std::collections::{BTreeMap, BTreeSet};
use std::path::{Path, PathBuf};

pub const LETTERS: [&str; 21] = [
    "a", " ", "é", "漢", "😀", "\\\"", "\\\\", "(", ")", ",", "=", "rename", "_all", "skip", "message", "min", "max", "length", "range", "email", "url",
];

/// where an attribute string is injected: (label, template with @ for the string)
pub const STRING_POSITIONS: [(&str, &str); 9] = [
    ("validate-length-message", "#[validate(length(min = 1, message = \"@\"))]\n    pub f: String,"),
    ("validate-range-message", "#[validate(range(max = 5, message = \"@\"))]\n    pub f: i32,"),
    ("validate-email-message", "#[validate(email(message = \"@\"))]\n    pub f: String,"),
    ("serde-rename", "#[serde(rename = \"@\")]\n    pub f: String,"),
    ("serde-alias", "#[serde(alias = \"@\", default)]\n    pub f: String,"),
    ("serde-skip-if", "#[serde(skip_serializing_if = \"@\")]\n    pub f: Option<String>,"),
    ("container-rename-all", "CONTAINER:#[serde(rename_all = \"@\")]"),
    ("doc-attr", "#[doc = \"@\"]\n    #[validate(length(min = 1))]\n    pub f: String,"),
    ("variant-rename", "VARIANT:#[serde(rename = \"@\")]"),
];

/// raw attribute token sequences (not inside a string literal)
pub const TOKEN_ATTRS: [&str; 44] = [
    "#[validate]",
    "#[validate()]",
    "#[validate(length)]",
    "#[validate(length())]",
    "#[validate(length(min))]",
    "#[validate(length(min = ))]",
    "#[validate(length(min = -1))]",
    "#[validate(length(min = \"x\"))]",
    "#[validate(length(min = 1.5, max = 1e400))]",
    "#[validate(length(min = 99999999999999999999999999))]",
    "#[validate(length(min = MIN_LEN, max = limits::MAX))]",
    "#[validate(length(equal = 3))]",
    "#[validate(range(min = -1.5e-3, max = --2))]",
    "#[validate(range(min = (1), max = (-(2))))]",
    "#[validate(range(min = 1, min = 2, message = \"a\", message = \"b\"))]",
    "#[validate(range(exclusive_min = 0.0))]",
    "#[validate(email, email, url(message = 5))]",
    "#[validate(custom(function = \"check\", message = \"m\"))]",
    "#[validate(nested)]",
    "#[validate(length(min = 1), length(max = 2), range(min = 3))]",
    "#[validate = \"length\"]",
    "#[validate(message = \"é\")]",
    "#[validate(length(message = \"漢字\", min = 1))]",
    "#[validate(length(min = 1, message = r#\"raw \"quoted\" é\"#))]",
    "#[validate(length(min = 1, message = \"line\\nbreak\\ttab\\u{1F600}\"))]",
    "#[validate(length(min = 1, message = concat!(\"a\", \"b\")))]",
    "#[serde]",
    "#[serde()]",
    "#[serde(rename)]",
    "#[serde(rename = 5)]",
    "#[serde(rename(serialize = \"s\", deserialize = \"d\"))]",
    "#[serde(rename(serialize = \"é\"))]",
    "#[serde(rename = \"\")]",
    "#[serde(skip, skip, rename = \"x\", rename = \"y\")]",
    "#[serde(with = \"mod::path\", bound(serialize = \"T: X\"))]",
    "#[serde(rename = r#\"ra\"w\"#)]",
    "#[serde = \"rename\"]",
    "#[serde(flatten)]",
    "#[cfg_attr(feature = \"x\", serde(rename = \"é\"), validate(length(min = 1, message = \"é\")))]",
    "#[serde(default = \"default_é\")]",
    // a value the attribute walker cannot read, followed by validators with multi-byte messages
    "#[validate(email(message = MSG_EMAIL), length(max = 64, message = \"长度不能超过64个字符\"))]",
    "#[validate(custom(function = check, message = MSG), range(min = 1, max = 9, message = \"от 1 до 9 😀\"))]",
    "#[validate(length(min = limits::MIN, message = \"é\"), url(message = \"漢字のURL\"))]",
    "#[validate(regex(path = *RE, message = \"naïve\"), length(equal = 3, message = \"ровно три\"))]",
];

pub const ODD_IDENTS: [&str; 14] = ["__", "_1", "_", "é", "über_cmd", "r#fn", "r#type", "a_", "_a_", "x__y", "Ünï", "漢字", "__proto__", "a1_2b"];

pub const TYPE_VARIANTS: [&str; 40] = [
    "[u8; 4]",
    "[String]",
    "&[u8]",
    "*const u8",
    "*mut Item",
    "fn(i32) -> i32",
    "impl Iterator<Item = u8>",
    "Box<dyn std::fmt::Debug + Send>",
    "!",
    "vec_type!(u8)",
    "(i32)",
    "_",
    "<Item as IntoIterator>::Item",
    "Wrapper<3>",
    "Wrapper<{ 1 + 2 }>",
    "&'static str",
    "&'a mut Item",
    "std::borrow::Cow<'a, str>",
    "Option<Box<dyn Fn(i32) -> Vec<(String, [u8; 2])>>>",
    "for<'a> fn(&'a str) -> &'a str",
    "Self",
    "Result<(), Box<dyn std::error::Error>>",
    "std::pin::Pin<Box<dyn std::future::Future<Output = Result<Item, String>> + Send + 'static>>",
    "HashMap<String, [Option<(u8, &'static [Item])>; 3]>",
    "über::Typ",
    "名前::Typ",
    "crate::модуль::Тип",
    "models::Größe",
    "é::é::É<é::É>",
    "Vec<ü::Ü>",
    "(a::B, ü::C)",
    "😀",
    // identifier characters that continue a name without being letters or digits, inside a path
    "col·lecció::Llibre",
    "x\u{301}::Model",
    "a‿b::Model",
    "m::x\u{301}y::Col·lecció",
    "Vec<col·lecció::Llibre>",
    "HashMap<a‿b::K, (x\u{301}::V, i32)>",
    "पुस्तक::किताब",
    "Option<𠮷田::Profile·2>",
];

#[derive(Debug, Clone, Serialize, Deserialize)]
pub enum Case {
    AttrString { position: usize, text: String },
    TokenAttr { attr: usize, on: String },
    Ident { ident: String, role: String },
    TypeVariant { ty: String, site: String, depth: usize },
    ItemShapes,
    /// an emit with this event name (every string the name alphabet produces, incl. adjacent,
    /// leading and trailing separators)
    EventName { name: String },
    /// `<receiver>.<method>(<n arguments>)` with the name argument in one of three forms
    EmitCall { method: String, nargs: usize, name_form: usize, receiver: usize },
}

pub const EMIT_RECEIVERS: [&str; 5] = ["app", "window", "self.app", "router.bus()", "other"];

fn rust_str_body(s: &str) -> String {
    // LETTERS already carry their own escapes for quote and backslash
    s.to_string()
}

impl Case {
    pub fn project(&self) -> Project {
        let mut s = String::from(gen::PRELUDE);
        s.push_str("use tauri::{AppHandle, Emitter};\nuse tauri::ipc::Channel;\nuse validator::Validate;\n\n");
        match self {
            Case::AttrString { position, text } => {
                let (_, tpl) = STRING_POSITIONS[*position];
                let t = rust_str_body(text);
                if let Some(c) = tpl.strip_prefix("CONTAINER:") {
                    s.push_str(&format!("#[derive(Serialize, Deserialize)]\n{}\npub struct Holder {{ pub some_field: String }}\n", c.replace('@', &t)));
                } else if let Some(v) = tpl.strip_prefix("VARIANT:") {
                    s.push_str(&format!("#[derive(Serialize, Deserialize)]\npub enum Holder {{\n    {}\n    First,\n    Second,\n}}\n", v.replace('@', &t)));
                } else {
                    s.push_str(&format!("#[derive(Serialize, Deserialize, Validate)]\npub struct Holder {{\n    {}\n}}\n", tpl.replace('@', &t)));
                }
                s.push_str("#[tauri::command]\npub fn use_holder(h: Holder) -> Option<Holder> { Some(h) }\n");
            }
            Case::TokenAttr { attr, on } => {
                let a = TOKEN_ATTRS[*attr];
                match on.as_str() {
                    "field" => s.push_str(&format!("#[derive(Serialize, Deserialize, Validate)]\npub struct Holder {{\n    {}\n    pub f: String,\n    pub g: i32,\n}}\n", a)),
                    "struct" => s.push_str(&format!("#[derive(Serialize, Deserialize, Validate)]\n{}\npub struct Holder {{ pub f: String }}\n", a)),
                    "variant" => s.push_str(&format!("#[derive(Serialize, Deserialize)]\npub enum Holder {{\n    {}\n    First,\n    Second,\n}}\n", a)),
                    "param" => {
                        s.push_str("#[derive(Serialize, Deserialize)]\npub struct Holder { pub f: String }\n");
                        s.push_str(&format!("#[tauri::command]\npub fn with_attr({} p: i32) -> i32 {{ p }}\n", a));
                    }
                    _ => s.push_str(&format!("#[derive(Serialize, Deserialize)]\npub struct Holder {{ pub f: String }}\n#[tauri::command]\n{}\npub fn with_attr(p: i32) -> i32 {{ p }}\n", a)),
                }
                s.push_str("#[tauri::command]\npub fn use_holder(h: Holder) -> Option<Holder> { Some(h) }\n");
            }
            Case::Ident { ident, role } => match role.as_str() {
                "command" => s.push_str(&format!("#[tauri::command]\npub fn {}(a: i32) -> i32 {{ a }}\n", ident)),
                "param" => s.push_str(&format!("#[tauri::command]\npub fn cmd({}: i32) -> i32 {{ 1 }}\n", ident)),
                "channel" => s.push_str(&format!("#[tauri::command]\npub fn cmd({}: Channel<i32>) -> i32 {{ 1 }}\n", ident)),
                "field" => s.push_str(&format!("#[derive(Serialize, Deserialize)]\n#[serde(rename_all = \"camelCase\")]\npub struct Holder {{ pub {}: i32 }}\n#[tauri::command]\npub fn cmd(h: Holder) -> Holder {{ h }}\n", ident)),
                "field-plain" => s.push_str(&format!("#[derive(Serialize, Deserialize)]\npub struct Holder {{ pub {}: i32 }}\n#[tauri::command]\npub fn cmd(h: Holder) -> Holder {{ h }}\n", ident)),
                "variant" => s.push_str(&format!("#[derive(Serialize, Deserialize)]\n#[serde(rename_all = \"camelCase\")]\npub enum Holder {{ {}, Other }}\n#[tauri::command]\npub fn cmd(h: Holder) -> Holder {{ h }}\n", ident)),
                "struct" => s.push_str(&format!("#[derive(Serialize, Deserialize)]\npub struct {} {{ pub a: i32 }}\n#[tauri::command]\npub fn cmd(h: {}) -> bool {{ true }}\n", ident, ident)),
                "event-var" => s.push_str(&format!("#[tauri::command]\npub fn cmd(app: AppHandle, {}: i32) -> bool {{ app.emit(\"ev\", {}).unwrap(); true }}\n", ident, ident)),
                _ => {}
            },
            Case::TypeVariant { ty, site, depth } => {
                let mut t = ty.clone();
                for i in 0..*depth {
                    t = match i % 4 {
                        0 => format!("Vec<{}>", t),
                        1 => format!("Option<{}>", t),
                        2 => format!("({}, i32)", t),
                        _ => format!("HashMap<String, {}>", t),
                    };
                }
                s.push_str(&gen::leaf_defs());
                s.push_str("pub struct Wrapper<const N: usize>;\n");
                match site.as_str() {
                    "param" => s.push_str(&format!("#[tauri::command]\npub fn cmd<'a>(p: {}) -> bool {{ true }}\n", t)),
                    "return" => s.push_str(&format!("#[tauri::command]\npub fn cmd<'a>() -> {} {{ todo!() }}\n", t)),
                    "field" => s.push_str(&format!("#[derive(Serialize, Deserialize)]\npub struct Holder<'a> {{ pub f: {} }}\n#[tauri::command]\npub fn cmd(h: Holder) -> bool {{ true }}\n", t)),
                    "channel" => s.push_str(&format!("#[tauri::command]\npub fn cmd<'a>(ch: Channel<{}>) -> bool {{ true }}\n", t)),
                    _ => s.push_str(&format!("#[tauri::command]\npub fn anchor() -> bool {{ true }}\npub fn fire<'a>(app: &AppHandle, p: {}) {{ app.emit(\"ev\", p).unwrap(); }}\n", t)),
                }
            }
            Case::EventName { name } => {
                s.push_str(&format!("#[tauri::command]\npub fn anchor() -> bool {{ true }}\npub fn fire(app: &AppHandle) {{ app.emit({:?}, 1).unwrap(); }}\n", name));
            }
            Case::EmitCall { method, nargs, name_form, receiver } => {
                let name = ["\"ev-name\"", "EVENT_NAME", "&format!(\"ev-{}\", 1)"][*name_form % 3];
                let pool = ["\"main\"", name, "Item { id: 1 }", "extra"];
                // emit: name first; emit_to: target first, then the name
                let args: Vec<&str> = if method == "emit" { pool[1..].iter().chain(pool[..1].iter()).copied().take(*nargs).collect() } else { pool.iter().copied().take(*nargs).collect() };
                s.push_str(&gen::leaf_defs());
                s.push_str(&format!(
                    "#[tauri::command]\npub fn anchor() -> bool {{ true }}\npub struct Holder {{ app: AppHandle }}\nimpl Holder {{ pub fn go(&self) {{}} }}\npub fn fire(app: &AppHandle, window: &tauri::Window, router: &Router, other: &Bus, extra: i32) {{\n    {}.{}({}).unwrap();\n}}\n",
                    EMIT_RECEIVERS[*receiver % EMIT_RECEIVERS.len()].replace("self.app", "holder.app"),
                    method,
                    args.join(", ")
                ));
            }
            Case::ItemShapes => {
                s.push_str(
                    r#"
#[derive(Serialize, Deserialize)] pub struct Tuple(pub i32, pub String);
#[derive(Serialize, Deserialize)] pub struct Unit;
#[derive(Serialize, Deserialize)] pub struct Generic<T> { pub inner: T, pub many: Vec<T> }
#[derive(Serialize, Deserialize)] pub struct Lifetimes<'a> { pub s: &'a str, pub c: std::borrow::Cow<'a, str> }
#[derive(Serialize, Deserialize)] pub enum Data { Unit, Tuple(i32, String), Struct { a: i32, b: Vec<Data> }, #[serde(rename = "r")] Renamed }
#[derive(Serialize, Deserialize)] #[serde(tag = "type", content = "value")] pub enum Tagged { A(i32), B { x: String } }
#[derive(Serialize, Deserialize)] #[serde(untagged)] pub enum Untagged { N(i32), S(String) }
#[derive(Serialize, Deserialize)] pub union NotAUnion { a: i32, b: f32 }
#[derive(Serialize, Deserialize)] pub struct Empty {}
#[derive(Serialize, Deserialize)] pub struct WithDefaultGeneric<T = String> where T: Clone { pub t: T }
pub trait Tr { #[tauri::command] fn in_trait(&self) -> i32; }
impl Tr for Unit { #[tauri::command] fn in_trait(&self) -> i32 { 1 } }
#[tauri::command] pub fn patterns((a, b): (i32, i32), Tuple(x, y): Tuple, [p, q]: [i32; 2], _: i32, mut m: i32, ref r: i32) -> i32 { 0 }
#[tauri::command] pub fn selfish(self: Box<Unit>) -> i32 { 0 }
#[tauri::command] pub fn variadic_like(args: &[&str], f: impl Fn(i32) -> i32, g: &dyn Fn()) -> impl Iterator<Item = i32> { std::iter::empty() }
#[tauri::command] pub async unsafe extern "C" fn qualifiers() {}
#[tauri::command] pub const fn constant() -> i32 { 1 }
#[tauri::command] pub fn where_clause<T>(t: T) -> T where T: serde::Serialize + Clone { t }
#[tauri::command] pub fn uses_all(a: Tuple, b: Unit, c: Generic<i32>, d: Data, e: Tagged, f: Untagged, g: Empty, h: Lifetimes<'static>) -> Result<Generic<Vec<Data>>, Box<dyn std::error::Error>> { todo!() }
pub fn emitter(app: &AppHandle) {
    app.emit("a", ()).unwrap();
    app.emit("b", (1, 2)).unwrap();
    app.emit("c", vec![1]).unwrap();
    app.emit("d", |x: i32| x).unwrap();
    app.emit("e", if true { 1 } else { 2 }).unwrap();
    app.emit("f", Data::Struct { a: 1, b: vec![] }).unwrap();
    app.emit(CONST_NAME, 1).unwrap();
    app.emit(&format!("dyn-{}", 1), 1).unwrap();
    app.emit("g").unwrap();
    app.emit().unwrap();
    app.emit_to("main").unwrap();
    app.emit_to("main", "h", async { 1 }).unwrap();
    app.emit("i", unsafe { std::mem::zeroed::<i32>() }).unwrap();
    app.emit("j", b"bytes").unwrap();
    app.emit("k", 'c').unwrap();
    app.emit("l", 1u128).unwrap();
    let closure = || { app.emit("in-closure", 1).unwrap(); };
    macro_call!(app.emit("in-macro", 1));
}
"#,
                );
            }
        }
        Project::single(s)
    }
    fn fields(&self) -> BTreeMap<String, String> {
        let mut m = BTreeMap::new();
        match self {
            Case::AttrString { position, text } => {
                m.insert("family".into(), "attr-string".into());
                m.insert("position".into(), STRING_POSITIONS[*position].0.into());
                m.insert("text_class".into(), crate::props::c11::message_class(&text.replace("\\\"", "\"").replace("\\\\", "\\")));
            }
            Case::TokenAttr { attr, on } => {
                m.insert("family".into(), "token-attr".into());
                m.insert("attr".into(), TOKEN_ATTRS[*attr].into());
                m.insert("on".into(), on.clone());
            }
            Case::Ident { ident, role } => {
                m.insert("family".into(), "identifier".into());
                m.insert("ident".into(), ident.clone());
                m.insert("role".into(), role.clone());
            }
            Case::TypeVariant { ty, site, depth } => {
                m.insert("family".into(), "type-variant".into());
                m.insert("type".into(), ty.clone());
                m.insert("site".into(), site.clone());
                m.insert("depth".into(), depth.to_string());
            }
            Case::ItemShapes => {
                m.insert("family".into(), "item-shapes".into());
            }
            Case::EventName { name } => {
                m.insert("family".into(), "event-name".into());
                m.insert("name".into(), name.clone());
            }
            Case::EmitCall { method, nargs, name_form, receiver } => {
                m.insert("family".into(), "emit-call".into());
                m.insert("call".into(), format!("{}/{}", method, nargs));
                m.insert("name_form".into(), name_form.to_string());
                m.insert("receiver".into(), EMIT_RECEIVERS[*receiver % EMIT_RECEIVERS.len()].into());
            }
        }
        m
    }
}

/// In-process evaluation, both modes. Returns (panic message if any, parsed as Rust?)
pub fn eval_inproc(case: &Case) -> (Option<(bool, String)>, bool) {
    let p = case.project();
    let parses = p.files.iter().all(|(_, s)| syn::parse_file(s).is_ok());
    for zod in [false, true] {
        let r = run_lib_default(&p, &Cfg::mode(zod));
        if let LibStatus::Panic(m) = r.status {
            return (Some((zod, m)), parses);
        }
    }
    (None, parses)
}

fn mk(case: &Case, class: &str, detail: String) -> Violation {
    let mut v = Violation::new("C15", class, format!("{:?}: {}", case, detail), json!({"case": case}));
    v.fields = case.fields();
    v
}

pub fn replay(case: &Value) -> Vec<Violation> {
    if let Some(p) = case.get("corpus_file") {
        let path = PathBuf::from(p.as_str().unwrap_or(""));
        return corpus_batch(&[path]).0;
    }
    if let Some(text) = case["text"].as_str() {
        // an unparsable file with a multi-byte line, next to a valid one
        let label = case["bad_line"].as_str().unwrap_or("");
        let valid = ("src/valid.rs".to_string(), format!("{}#[derive(Serialize, Deserialize)]\npub struct Solid {{ pub a: i32 }}\n#[tauri::command]\npub fn solid(s: Solid) -> Solid {{ s }}\n", gen::PRELUDE));
        let reference: BTreeMap<String, String> = run_lib_default(&Project { files: vec![valid.clone()], links: vec![] }, &Cfg::mode(false)).files.iter().map(|(k, v)| (k.clone(), strip_timestamp(v))).collect();
        let r = run_lib_default(&Project { files: vec![valid, ("src/i18n.rs".into(), text.to_string())], links: vec![] }, &Cfg::mode(false));
        if let LibStatus::Panic(m) = &r.status {
            return vec![Violation::new("C15", "panic", format!("unparsable file with a multi-byte line ({}): {}", label, m), case.clone()).field("family", "unparsable-multibyte-line").field("file", label.split(':').next().unwrap_or("").to_string())];
        }
        let out: BTreeMap<String, String> = r.files.iter().map(|(k, v)| (k.clone(), strip_timestamp(v))).collect();
        if syn::parse_file(text).is_err() && out != reference {
            return vec![Violation::new("C15", "bad-file-not-isolated", format!("unparsable file ({}) changed the output of the valid file", label), case.clone()).field("family", "unparsable-multibyte-line").field("file", label.split(':').next().unwrap_or("").to_string())];
        }
        return vec![];
    }
    if let Some(p) = case.get("preexisting") {
        let g = |k: &str| p[k].as_u64().unwrap_or(0) as usize;
        let b = |k: &str| p[k].as_bool().unwrap_or(false);
        return preexisting_case(g("name"), g("content"), b("zod"), b("force"), b("build")).into_iter().collect();
    }
    if let Some(p) = case.get("position") {
        let g = |k: &str| p[k].as_u64().unwrap_or(0) as usize;
        return position_case(g("text"), g("n_valid"), g("slot"), g("name"), p["zod"].as_bool().unwrap_or(false)).0.into_iter().collect();
    }
    if let Some(n) = case["cycle"].as_u64() {
        return cycle_case(n as usize, case["visualize"].as_bool().unwrap_or(false), case["mode"].as_str().unwrap_or("none")).into_iter().collect();
    }
    let Ok(c) = serde_json::from_value::<Case>(case["case"].clone()) else { return vec![] };
    match eval_inproc(&c).0 {
        Some((zod, m)) => vec![mk(&c, "panic", format!("panicked ({} mode): {}", if zod { "zod" } else { "none" }, m))],
        None => vec![],
    }
}

pub const BAD_TEXTS: [&str; 4] = [
    "fn broken( {\n",
    "Dear reader, this is a page template and not Rust at all.\n",
    "#[tauri::command]\npub fn half_written( -> i32 { 0 \n",
    "pub const TABLE: [(&str, &str); 1] = [(\"k\", \"漢字😀é\" \"oops漢字\")];\n",
];
pub const BAD_NAMES: [&str; 4] = ["src/bad.rs", "src/a.rs", "src/zz_last.rs", "src/templates/page.rs"];

/// An unparsable file among `n_valid` valid ones (each with a command that takes a channel and a
/// function that emits an event - everything whose source position is looked up after parsing),
/// created as the `slot`-th file: whether it is walked before, between or after the valid files
/// depends on the directory order, which the harness reads back. Returns (violation, the bad
/// file came after at least one valid file in directory order).
pub fn position_case(text: usize, n_valid: usize, slot: usize, name: usize, zod: bool) -> (Option<Violation>, bool) {
    let valid_file = |i: usize| {
        (
            format!("src/m{}.rs", i),
            format!(
                "{}use tauri::{{AppHandle, Emitter}};\nuse tauri::ipc::Channel;\n#[derive(Clone, Serialize, Deserialize)]\npub struct Solid{i} {{ pub a: i32 }}\n#[tauri::command]\npub fn solid_{i}(s: Solid{i}, on_step: Channel<Solid{i}>) -> Solid{i} {{ let _ = on_step; s }}\npub fn tell_{i}(app: &AppHandle, s: Solid{i}) {{ app.emit(\"told-{i}\", s).unwrap(); }}\n",
                gen::PRELUDE,
                i = i
            ),
        )
    };
    let valid: Vec<(String, String)> = (0..n_valid).map(valid_file).collect();
    let mut files = valid.clone();
    files.insert(slot.min(n_valid), (BAD_NAMES[name % BAD_NAMES.len()].to_string(), BAD_TEXTS[text % BAD_TEXTS.len()].to_string()));
    let project = Project { files, links: vec![] };
    // directory order as the walk will see it
    let after = {
        let sb = Sandbox::new();
        let _ = project.write_to(&sb.root);
        let order: Vec<String> = std::fs::read_dir(sb.root.join("src")).map(|d| d.filter_map(|e| e.ok()).map(|e| e.file_name().to_string_lossy().to_string()).collect()).unwrap_or_default();
        let bad_entry = BAD_NAMES[name % BAD_NAMES.len()].trim_start_matches("src/").split('/').next().unwrap_or("").to_string();
        match order.iter().position(|n| *n == bad_entry) {
            Some(p) => order[..p].iter().any(|n| n.starts_with('m') && n.ends_with(".rs")),
            None => false,
        }
    };
    let replay = json!({"position": {"text": text, "n_valid": n_valid, "slot": slot, "name": name, "zod": zod}});
    let label = format!("unparsable {} (text #{}) created as file {} of {} valid files, {} mode", BAD_NAMES[name % BAD_NAMES.len()], text, slot, n_valid, if zod { "zod" } else { "none" });
    let reference: BTreeMap<String, String> = run_lib_default(&Project { files: valid, links: vec![] }, &Cfg::mode(zod)).files.iter().map(|(k, v)| (k.clone(), strip_timestamp(v))).collect();
    let r = run_lib_default(&project, &Cfg::mode(zod));
    let fam = |v: Violation| v.field("family", "unparsable-file-position").field("file", BAD_NAMES[name % BAD_NAMES.len()].to_string());
    if let LibStatus::Panic(m) = &r.status {
        return (Some(fam(Violation::new("C15", "panic", format!("{}: {}", label, m), replay))), after);
    }
    let out: BTreeMap<String, String> = r.files.iter().map(|(k, v)| (k.clone(), strip_timestamp(v))).collect();
    if out != reference {
        return (Some(fam(Violation::new("C15", "bad-file-not-isolated", format!("{}: the output differs from the output of the valid files alone ({})", label, r.status_string()), replay))), after);
    }
    (None, after)
}

pub const PRE_NAMES: [&str; 6] = ["types.ts", "commands.ts", "events.ts", "index.ts", ".typecache", "dependency-graph.txt"];
pub fn pre_contents() -> Vec<(&'static str, String)> {
    vec![
        ("empty", String::new()),
        ("placeholder", "export {};\n".to_string()),
        ("two-byte text", "é".repeat(400)),
        ("three-byte text", "漢".repeat(300)),
        ("four-byte text", "😀".repeat(200)),
        ("one line", format!("// {}\n", "x".repeat(900))),
    ]
}

/// The output directory already holds a file called like a generated one, with content the tool
/// never wrote (empty, a placeholder, multi-byte text of any phase): real binary or build path,
/// plain or forced. Whatever it does with the file, it must not panic.
pub fn preexisting_case(name: usize, content: usize, zod: bool, force: bool, build: bool) -> Option<Violation> {
    use crate::sbx::{self, FileCfg, RunOpts, Seam};
    let sb = Sandbox::new();
    let project = Project::single(format!("{}use tauri::{{AppHandle, Emitter}};\n#[derive(Clone, Serialize, Deserialize)]\npub struct Solid {{ pub a: i32 }}\n#[tauri::command]\npub fn solid(s: Solid) -> Solid {{ s }}\npub fn tell(app: &AppHandle, s: Solid) {{ app.emit(\"told\", s).unwrap(); }}\n", gen::PRELUDE));
    let cfg = FileCfg { zod, visualize_deps: true, ..Default::default() };
    sbx::write_sources(&sb.root, &project, &cfg);
    let od = sbx::out_dir(&sb.root, &cfg);
    let _ = std::fs::create_dir_all(&od);
    let (label, text) = pre_contents().swap_remove(content % pre_contents().len());
    let fname = PRE_NAMES[name % PRE_NAMES.len()];
    let _ = std::fs::write(od.join(fname), &text);
    let seam = if build { Seam::Build } else { Seam::Cli };
    let r = sbx::run_generate(&sb.root, seam, &RunOpts { force_flag: force, ..Default::default() });
    if matches!(r.code, Some(0) | Some(1)) && r.signal.is_none() {
        return None;
    }
    Some(
        Violation::new(
            "C15",
            "panic",
            format!("output directory already holds {} ({}, {} bytes), {} mode, {}{}: {} {}", fname, label, text.len(), if zod { "zod" } else { "none" }, seam.name(), if force { " --force" } else { "" }, r.status_string(), r.stderr.lines().find(|l| l.contains("panicked")).unwrap_or("").trim()),
            json!({"preexisting": {"name": name, "content": content, "zod": zod, "force": force, "build": build}}),
        )
        .field("family", "pre-existing-output-file")
        .field("file", fname.to_string()),
    )
}

/// a reference cycle of `n` serde types through the real binary (unbounded recursion would abort)
pub fn cycle_case(n: usize, viz: bool, mode: &str) -> Option<Violation> {
    let sb = Sandbox::new();
    let mut src = String::from(gen::PRELUDE);
    for i in 0..n {
        let next = (i + 1) % n;
        let field = ["Vec<C@>", "Option<C@>", "HashMap<String, C@>", "(i32, Vec<C@>)"][i % 4].replace('@', &next.to_string());
        src.push_str(&format!("#[derive(Serialize, Deserialize)]\npub struct C{} {{ pub id: i32, pub next: {} }}\n", i, field));
    }
    src.push_str("#[tauri::command]\npub fn head() -> C0 { todo!() }\n");
    Project::single(src).write_to(&sb.path("proj")).unwrap();
    let mut args: Vec<String> = vec!["tauri-typegen".into(), "generate".into(), "-p".into(), "./proj".into(), "-o".into(), "./out".into(), "-v".into(), mode.to_string()];
    if viz {
        args.push("--visualize-deps".into());
    }
    let r = run::spawn(Spawn { program: run::cli_binary(), args, cwd: &sb.root, schedule_env: None, trace_file: None, strace: None, hash_seed: None, fsize_limit: None });
    if !matches!(r.code, Some(0) | Some(1)) {
        return Some(
            Violation::new("C15", "panic-or-abort", format!("reference cycle of {} types, visualize={}, {} mode: {} {}", n, viz, mode, r.status_string(), r.stderr.lines().filter(|l| l.contains("panicked") || l.contains("overflow")).take(2).collect::<Vec<_>>().join(" | ")), json!({"cycle": n, "visualize": viz, "mode": mode}))
                .field("family", "type-cycle")
                .field("file", format!("cycle-{}{}", n, if viz { "+visualize" } else { "" })),
        );
    }
    None
}

pub fn strings(max_len: usize) -> Vec<String> {
    let mut out: Vec<String> = vec![String::new()];
    let mut level: Vec<String> = vec![String::new()];
    for _ in 0..max_len {
        let mut next = vec![];
        for p in &level {
            for l in LETTERS {
                next.push(format!("{}{}", p, l));
            }
        }
        out.extend(next.iter().cloned());
        level = next;
    }
    out
}

// ------------------------------- corpus (subprocess) -------------------------------------------

fn rs_files_under(root: &Path, out: &mut Vec<PathBuf>) {
    let Ok(rd) = std::fs::read_dir(root) else { return };
    let mut entries: Vec<_> = rd.flatten().collect();
    entries.sort_by_key(|e| e.path());
    for e in entries {
        let p = e.path();
        match e.file_type() {
            Ok(ft) if ft.is_dir() => {
                let name = e.file_name();
                if name == "target" || name == ".git" {
                    continue;
                }
                rs_files_under(&p, out);
            }
            Ok(ft) if ft.is_file() => {
                if p.extension().is_some_and(|x| x == "rs") {
                    out.push(p);
                }
            }
            _ => {}
        }
    }
}

/// Run the real binary over a project made of copies of `files`. Bisects on abnormal exit.
fn corpus_batch(files: &[PathBuf]) -> (Vec<Violation>, u64) {
    let sb = Sandbox::new();
    let proj = sb.path("proj/src");
    std::fs::create_dir_all(&proj).unwrap();
    for (i, f) in files.iter().enumerate() {
        if let Ok(bytes) = std::fs::read(f) {
            // only UTF-8 files are in the property's domain
            if std::str::from_utf8(&bytes).is_ok() {
                let _ = std::fs::write(proj.join(format!("f{:04}.rs", i)), bytes);
            }
        }
    }
    let mut runs = 0u64;
    let mut abnormal = None;
    for mode in ["none", "zod"] {
        let r = run::spawn(Spawn {
            program: run::cli_binary(),
            args: vec!["tauri-typegen".into(), "generate".into(), "-p".into(), "./proj".into(), "-o".into(), format!("./out-{}", mode), "-v".into(), mode.into()],
            cwd: &sb.root,
            schedule_env: None,
            trace_file: None,
            strace: None, hash_seed: None, fsize_limit: None
        });
        runs += 1;
        if !matches!(r.code, Some(0) | Some(1)) {
            abnormal = Some((mode, r.status_string(), r.stderr.lines().filter(|l| l.contains("panicked") || l.contains("overflow")).take(2).collect::<Vec<_>>().join(" | ")));
            break;
        }
    }
    let Some((mode, status, msg)) = abnormal else { return (vec![], runs) };
    if files.len() == 1 {
        let v = Violation::new(
            "C15",
            "panic-or-abort",
            format!("{} as a single-file project ({} mode): {} {}", files[0].display(), mode, status, msg),
            json!({"corpus_file": files[0].to_string_lossy()}),
        )
        .field("family", "corpus")
        .field("file", files[0].to_string_lossy().to_string());
        return (vec![v], runs);
    }
    let mid = files.len() / 2;
    let (mut a, ra) = corpus_batch(&files[..mid]);
    let (b, rb) = corpus_batch(&files[mid..]);
    a.extend(b);
    if a.is_empty() {
        // only the combination fails: report the whole batch
        a.push(
            Violation::new("C15", "panic-or-abort", format!("batch of {} files ({} mode): {} {} (no single half reproduces)", files.len(), mode, status, msg), json!({"corpus_batch": files.iter().map(|f| f.to_string_lossy().to_string()).collect::<Vec<_>>()}))
                .field("family", "corpus")
                .field("file", format!("batch:{}", files[0].display())),
        );
    }
    (a, runs + ra + rb)
}

/// Truncations of the repository's fixture files at every line boundary (in process, one project
/// per truncation, next to a valid file whose output must not change).
fn truncation_cases() -> Vec<(String, String)> {
    let mut v = vec![];
    let dir = Path::new("/repo/tests/fixtures");
    let mut files = vec![];
    rs_files_under(dir, &mut files);
    for f in files {
        let Ok(text) = std::fs::read_to_string(&f) else { continue };
        let lines: Vec<&str> = text.split_inclusive('\n').collect();
        for k in 0..lines.len() {
            v.push((format!("{}@{}", f.file_name().unwrap().to_string_lossy(), k), lines[..k].concat()));
        }
    }
    v
}

pub fn run(tier: Tier) -> CheckResult {
    let mut res = CheckResult::new("C15", "exploration");
    let deadline = tier_deadline(tier);
    let mut cases: Vec<Case> = vec![];
    for text in strings(3) {
        for p in 0..STRING_POSITIONS.len() {
            cases.push(Case::AttrString { position: p, text: text.clone() });
        }
    }
    for a in 0..TOKEN_ATTRS.len() {
        for on in ["field", "struct", "variant", "param", "fn"] {
            cases.push(Case::TokenAttr { attr: a, on: on.into() });
        }
    }
    for id in ODD_IDENTS {
        for role in ["command", "param", "channel", "field", "field-plain", "variant", "struct", "event-var"] {
            cases.push(Case::Ident { ident: id.into(), role: role.into() });
        }
    }
    for t in TYPE_VARIANTS {
        for site in ["param", "return", "field", "channel", "event"] {
            for depth in [0usize, 1, 2, 5] {
                cases.push(Case::TypeVariant { ty: t.into(), site: site.into(), depth });
            }
        }
    }
    // non-ASCII project type names at every constructor position (map key, first / later tuple
    // element, set element, Result arms, nested once more) of every site
    {
        use crate::gen::RTy;
        let leaves = [RTy::named("Qualité"), RTy::named("Ключ"), RTy::named("名前"), RTy::named("Région")];
        let mut seen = BTreeSet::new();
        for t in gen::enumerate_spines(&leaves, &[RTy::prim("u32")], 2) {
            if t.depth() == 0 || !seen.insert(t.to_rust()) {
                continue;
            }
            for site in ["param", "return", "field", "channel", "event"] {
                cases.push(Case::TypeVariant { ty: t.to_rust(), site: site.into(), depth: 0 });
            }
        }
    }
    // every event name of the name alphabet (<= 3 characters over letters, digits and the four
    // separators, plus the longer and non-ASCII ones)
    for n in crate::props::c01::event_names(3) {
        cases.push(Case::EventName { name: n });
    }
    for n in ["app://download/finished", "user--login", "ns::evt", "-lead", "trail-", "a//b", "::", "größe", "---"] {
        cases.push(Case::EventName { name: n.to_string() });
    }
    // every arity of emit / emit_to on every receiver form
    for method in ["emit", "emit_to", "emit_filter"] {
        for nargs in 0..=4usize {
            for name_form in 0..3usize {
                for receiver in 0..EMIT_RECEIVERS.len() {
                    cases.push(Case::EmitCall { method: method.into(), nargs, name_form, receiver });
                }
            }
        }
    }
    cases.push(Case::ItemShapes);
    let results: Vec<Option<(Option<(bool, String)>, bool)>> = cases.par_iter().map(|c| if deadline.passed() { None } else { Some(eval_inproc(c)) }).collect();
    let mut evaluations = 0u64;
    let mut exhaustive = true;
    let mut parsed_as_rust = 0u64;
    let mut all_v = vec![];
    for (c, r) in cases.iter().zip(results) {
        match r {
            None => exhaustive = false,
            Some((p, parses)) => {
                evaluations += 2;
                if parses {
                    parsed_as_rust += 1;
                }
                if let Some((zod, m)) = p {
                    all_v.push(mk(c, "panic", format!("panicked ({} mode): {}", if zod { "zod" } else { "none" }, m)));
                }
            }
        }
    }
    // deep nesting: subprocess (stack exhaustion would abort)
    let mut deep_files: Vec<(usize, PathBuf)> = vec![];
    let deep_sb = Sandbox::new();
    for (i, depth) in [16usize, 64, 256, if tier == Tier::Quick { 256 } else { 2000 }].iter().enumerate() {
        for (j, site) in ["param", "return", "field", "event"].iter().enumerate() {
            let c = Case::TypeVariant { ty: "Item".into(), site: site.to_string(), depth: *depth };
            let p = deep_sb.path(&format!("deep_{}_{}.rs", i, j));
            std::fs::write(&p, &c.project().files[0].1).unwrap();
            deep_files.push((*depth, p));
        }
    }
    let deep_res: Vec<(Vec<Violation>, u64)> = deep_files.par_iter().map(|(_, p)| corpus_batch(std::slice::from_ref(p))).collect();
    let mut subprocess_runs = 0u64;
    for ((depth, _), (v, n)) in deep_files.iter().zip(deep_res) {
        subprocess_runs += n;
        for mut x in v {
            x.fields.insert("family".into(), "deep-nesting".into());
            x.fields.insert("file".into(), format!("depth-{}", depth));
            all_v.push(x);
        }
    }
    // truncations + isolation (in process)
    let valid = ("src/valid.rs".to_string(), format!("{}#[derive(Serialize, Deserialize)]\npub struct Solid {{ pub a: i32 }}\n#[tauri::command]\npub fn solid(s: Solid) -> Solid {{ s }}\n", gen::PRELUDE));
    let reference: BTreeMap<String, String> = run_lib_default(&Project { files: vec![valid.clone()], links: vec![] }, &Cfg::mode(false)).files.iter().map(|(k, v)| (k.clone(), strip_timestamp(v))).collect();
    let truncs = truncation_cases();
    let tres: Vec<Option<Violation>> = truncs
        .par_iter()
        .map(|(label, text)| {
            if deadline.passed() {
                return None;
            }
            let p = Project { files: vec![valid.clone(), ("src/truncated.rs".into(), text.clone())], links: vec![] };
            let r = run_lib_default(&p, &Cfg::mode(false));
            if let LibStatus::Panic(m) = &r.status {
                return Some(Violation::new("C15", "panic", format!("fixture truncation {}: {}", label, m), json!({"truncation": label})).field("family", "truncation").field("file", label.clone()));
            }
            // if the truncated file does not parse it must change nothing
            if syn::parse_file(text).is_err() {
                let out: BTreeMap<String, String> = r.files.iter().map(|(k, v)| (k.clone(), strip_timestamp(v))).collect();
                if out != reference {
                    return Some(Violation::new("C15", "bad-file-not-isolated", format!("unparsable truncation {} changed the output of the valid file", label), json!({"truncation": label})).field("family", "truncation").field("file", label.clone()));
                }
            }
            None
        })
        .collect();
    evaluations += truncs.len() as u64;
    all_v.extend(tres.into_iter().flatten());
    // unparsable files whose offending line is full of multi-byte characters: the syntax error sits
    // after a prefix of 0..120 characters of 2, 3 or 4 bytes, with 0 / 40 / 100 more after it
    let mut bad_lines: Vec<(String, String)> = vec![];
    for (cn, c) in [("2-byte", "é"), ("3-byte", "漢"), ("4-byte", "😀"), ("mixed", "aé漢😀")] {
        for prefix in 0..=120usize {
            for tail in [0usize, 40, 100] {
                let pre: String = c.chars().cycle().take(prefix).collect();
                let post: String = c.chars().cycle().take(tail).collect();
                bad_lines.push((format!("{}:{}+{}", cn, prefix, tail), format!("pub const TABLE: [(&str, &str); 1] = [(\"k\", \"{}\" \"oops{}\")];\n", pre, post)));
            }
        }
    }
    let bres: Vec<Option<Violation>> = bad_lines
        .par_iter()
        .map(|(label, text)| {
            if deadline.passed() {
                return None;
            }
            let p = Project { files: vec![valid.clone(), ("src/i18n.rs".into(), text.clone())], links: vec![] };
            let r = run_lib_default(&p, &Cfg::mode(false));
            if let LibStatus::Panic(m) = &r.status {
                return Some(Violation::new("C15", "panic", format!("unparsable file with a multi-byte line ({}): {}", label, m), json!({"bad_line": label, "text": text})).field("family", "unparsable-multibyte-line").field("file", label.split(':').next().unwrap_or("").to_string()));
            }
            let out: BTreeMap<String, String> = r.files.iter().map(|(k, v)| (k.clone(), strip_timestamp(v))).collect();
            if syn::parse_file(text).is_err() && out != reference {
                return Some(Violation::new("C15", "bad-file-not-isolated", format!("unparsable file ({}) changed the output of the valid file", label), json!({"bad_line": label, "text": text})).field("family", "unparsable-multibyte-line").field("file", label.split(':').next().unwrap_or("").to_string()));
            }
            None
        })
        .collect();
    evaluations += bad_lines.len() as u64;
    all_v.extend(bres.into_iter().flatten());
    // where an unparsable file sits among valid ones: every text x 1..3 valid files x every creation
    // slot x four names x both modes; the directory order is read back and counted
    let mut pos_cases: Vec<(usize, usize, usize, usize, bool)> = vec![];
    for text in 0..BAD_TEXTS.len() {
        for n_valid in 1..=3usize {
            for slot in 0..=n_valid {
                for name in 0..BAD_NAMES.len() {
                    for zod in [false, true] {
                        pos_cases.push((text, n_valid, slot, name, zod));
                    }
                }
            }
        }
    }
    let pres: Vec<(Option<Violation>, bool)> = pos_cases.par_iter().map(|(t, n, sl, nm, z)| position_case(*t, *n, *sl, *nm, *z)).collect();
    evaluations += pos_cases.len() as u64;
    let bad_after_valid = pres.iter().filter(|(_, a)| *a).count() as u64;
    let bad_before_all = pres.len() as u64 - bad_after_valid;
    all_v.extend(pres.into_iter().filter_map(|(v, _)| v));
    // a file called like a generated one is already there, with content the tool never wrote
    let mut pre: Vec<(usize, usize, bool, bool, bool)> = vec![];
    for name in 0..PRE_NAMES.len() {
        for content in 0..pre_contents().len() {
            for zod in [false, true] {
                for force in [false, true] {
                    for build in [false, true] {
                        pre.push((name, content, zod, force, build));
                    }
                }
            }
        }
    }
    let preres: Vec<Option<Violation>> = pre.par_iter().map(|(n, c, z, f, b)| if deadline.passed() { None } else { preexisting_case(*n, *c, *z, *f, *b) }).collect();
    subprocess_runs += pre.len() as u64;
    all_v.extend(preres.into_iter().flatten());
    // reference cycles of 1..6 serde types, with and without the dependency visualisation, through
    // the real binary (unbounded recursion would abort the process)
    let cyc: Vec<(usize, bool, &str)> = (1..=6usize).flat_map(|n| [(n, false, "none"), (n, true, "none"), (n, true, "zod")]).collect();
    let cyres: Vec<Option<Violation>> = cyc
        .par_iter()
        .map(|(n, viz, mode)| cycle_case(*n, *viz, mode))
        .collect();
    subprocess_runs += cyc.len() as u64;
    all_v.extend(cyres.into_iter().flatten());
    // corpus
    let mut corpus: Vec<PathBuf> = vec![];
    rs_files_under(Path::new("/repo/src"), &mut corpus);
    rs_files_under(Path::new("/repo/tests"), &mut corpus);
    corpus.push(PathBuf::from("/repo/build.rs"));
    let repo_files = corpus.len();
    if tier == Tier::Thorough {
        let home = std::env::var("HOME").unwrap_or("/root".into());
        let reg = PathBuf::from(home).join(".cargo/registry/src");
        rs_files_under(&reg, &mut corpus);
    }
    let batches: Vec<&[PathBuf]> = corpus.chunks(if tier == Tier::Quick { 12 } else { 150 }).collect();
    let cres: Vec<Option<(Vec<Violation>, u64)>> = batches.par_iter().map(|b| if deadline.passed() { None } else { Some(corpus_batch(b)) }).collect();
    let mut corpus_done = 0usize;
    for (b, r) in batches.iter().zip(cres) {
        match r {
            None => exhaustive = false,
            Some((v, n)) => {
                corpus_done += b.len();
                subprocess_runs += n;
                all_v.extend(v);
            }
        }
    }
    // re-confirm in-process panics through the real binary (exit 101)
    let mut confirmed = vec![];
    for v in all_v {
        if v.class == "panic" && v.replay.get("case").is_some() {
            if let Ok(c) = serde_json::from_value::<Case>(v.replay["case"].clone()) {
                let sb = Sandbox::new();
                c.project().write_to(&sb.path("proj")).unwrap();
                let r = run::spawn(Spawn {
                    program: run::cli_binary(),
                    args: vec!["tauri-typegen".into(), "generate".into(), "-p".into(), "./proj".into(), "-o".into(), "./out".into(), "-v".into(), if v.detail.contains("(zod mode)") { "zod".into() } else { "none".into() }],
                    cwd: &sb.root,
                    schedule_env: None,
                    trace_file: None,
                    strace: None, hash_seed: None, fsize_limit: None
                });
                subprocess_runs += 1;
                if r.code != Some(101) && r.signal.is_none() {
                    res.machinery_errors.push(format!("in-process panic not reproduced by the binary ({}): {}", r.status_string(), v.key()));
                    continue;
                }
            }
        }
        confirmed.push(v);
    }
    confirmed.sort_by_key(|v| v.key());
    let mut seen = BTreeSet::new();
    for v in confirmed {
        // one finding per (class, family, position/role/site, text class)
        let mut f = v.fields.clone();
        f.remove("depth");
        let k = format!("{}|{:?}", v.class, f);
        if seen.insert(k) {
            res.violations.push(v);
        } else {
            res.derived += 1;
        }
    }
    res.coverage.set("evaluations", evaluations + subprocess_runs);
    res.coverage.set("in_process_cases", cases.len() as u64);
    res.coverage.set("cases_that_parse_as_rust", parsed_as_rust);
    res.coverage.set("distinct_nontrivial", parsed_as_rust + corpus_done as u64);
    res.coverage.set("truncations", truncs.len() as u64);
    res.coverage.set("unparsable_file_walked_after_a_valid_one", bad_after_valid);
    res.coverage.set("unparsable_file_walked_first", bad_before_all);
    if bad_after_valid == 0 || bad_before_all == 0 {
        res.machinery_errors.push(format!("unparsable-file-position family did not cover both directory orders (after a valid file: {}, first: {})", bad_after_valid, bad_before_all));
    }
    res.coverage.set("corpus_files", corpus_done as u64);
    res.coverage.set("corpus_repo_files", repo_files as u64);
    res.coverage.set("subprocess_runs", subprocess_runs);
    res.coverage.set("exhaustive", exhaustive);
    res.coverage.set("samples", json!([
        {"AttrString": {"position": "validate-length-message", "text": "é)"}},
        {"TokenAttr": {"attr": "#[validate(length(min = ))]", "on": "field"}},
        {"Ident": {"ident": "__", "role": "command"}},
        {"TypeVariant": {"ty": "for<'a> fn(&'a str) -> &'a str", "site": "event", "depth": 5}},
        {"corpus": "/repo/src/analysis/mod.rs"}
    ]));
    res.coverage.set("rule", format!("(i) every string of <= {} letters over a 21-letter alphabet (ASCII, space, 2/3/4-byte characters, escaped quote, escaped backslash, parentheses, comma, '=', and the words the scanners look for) injected at 9 attribute-string positions; 40 raw attribute token forms (empty, missing values, non-literal values, duplicates, raw strings, cfg_attr) on fields, structs, variants, parameters and fns; (ii) 14 odd identifiers in 8 roles; (iii) 40 exotic syn::Type forms (incl. path segments with identifier characters that are neither letters nor digits) at the five sites wrapped to depth 0..5 in process, four non-ASCII project type names at every constructor position (map key / value, each tuple element, set element, Result arms, nested once more) of the five sites, every event name of <= 3 characters over letters, digits and the separators (adjacent, leading and trailing separators included), every arity 0..4 of emit / emit_to / emit_filter x 3 forms of the name argument x 5 receiver forms, nesting depth up to {} in a subprocess; an item-shape zoo (tuple/unit/generic structs, data-carrying and tagged enums, unions, trait and impl methods, pattern parameters, qualifiers, emit calls of every arity and payload expression); (iv) every .rs file under /repo{} as single-file projects through the real binary (batched, bisected on exit status outside {{0,1}}), every line-boundary truncation of tests/fixtures next to a valid file; unparsable files whose offending line holds 0..120 characters of 2 / 3 / 4 bytes before the error and 0 / 40 / 100 after it; six kinds of foreign content (empty, a placeholder, 2/3/4-byte text, one long line) already sitting in the output directory under each generated file's name, plain and forced, binary and build path; four unparsable texts under four file names created before, between and after 1..3 valid files that each hold a command with a channel and an emitting function (the directory order is read back: both 'walked first' and 'walked after a valid file' must occur); reference cycles of 1..6 serde types with and without the dependency visualisation through the real binary; oracle: no panic (in process: catch_unwind, re-confirmed through the binary), exit status in {{0,1}}, and an unparsable file leaves the output of the valid file unchanged.", 3, if tier == Tier::Quick { 256 } else { 2000 }, if tier == Tier::Thorough { " and every .rs file in ~/.cargo/registry/src" } else { "" }));
    res.assumptions = vec!["totality is claimed only over these finite sets".into()];
    res
}
