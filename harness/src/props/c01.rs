//! C01 - every generated file is syntactically valid TypeScript.

use crate::core::*;
use crate::gen::{self, Project, RTy};
use crate::props::c05;
use crate::run::{run_lib_default, Cfg, LibRun};
use crate::ts::{self, ParseErrorKind};
use crate::typesite::{self, Site, SITES};
use rayon::prelude::*;
use serde::{Deserialize, Serialize};
use serde_json::{json, Value};
use std::collections::{BTreeMap, BTreeSet};

pub const RENAME_ALL: [&str; 8] = [
    "lowercase",
    "UPPERCASE",
    "PascalCase",
    "camelCase",
    "snake_case",
    "SCREAMING_SNAKE_CASE",
    "kebab-case",
    "SCREAMING-KEBAB-CASE",
];

pub const JS_RESERVED_LEGAL_RUST: [&str; 22] = [
    "delete", "new", "class", "function", "var", "void", "with", "export", "import", "default", "switch", "case", "throw", "catch", "finally", "null", "this",
    "interface", "package", "instanceof", "extends", "debugger",
];

#[derive(Debug, Clone, Serialize, Deserialize)]
pub enum Case {
    FieldKey { rename_all: Option<String>, rename: Option<String>, ident: String },
    VariantLit { rename_all: Option<String>, rename: Option<String>, ident: String },
    CommandName { ident: String, with_param: bool },
    ParamName {
        ident: String,
        case: Option<String>,
        /// the named parameter is a channel (beside an ordinary parameter) instead of a value
        #[serde(default)]
        channel: bool,
    },
    FieldCase { ident: String, case: String },
    EventName { name: String },
    Message { text: String },
    TypeAt { site: String, ty: RTy },
    Mapping { target: String, site: String },
    PathType { text: String, site: String },
}

fn rust_str(s: &str) -> String {
    let mut o = String::from("\"");
    for c in s.chars() {
        match c {
            '"' => o.push_str("\\\""),
            '\\' => o.push_str("\\\\"),
            '\n' => o.push_str("\\n"),
            c => o.push(c),
        }
    }
    o.push('"');
    o
}

impl Case {
    pub fn kind(&self) -> &'static str {
        match self {
            Case::FieldKey { .. } => "field-key",
            Case::VariantLit { .. } => "variant-literal",
            Case::CommandName { .. } => "command-name",
            Case::ParamName { .. } => "param-name",
            Case::FieldCase { .. } => "field-case",
            Case::EventName { .. } => "event-name",
            Case::Message { .. } => "validator-message",
            Case::TypeAt { .. } => "type",
            Case::Mapping { .. } => "type-mapping",
            Case::PathType { .. } => "path-type",
        }
    }

    pub fn project(&self) -> (Project, Cfg) {
        let mut cfg = Cfg::default();
        let mut s = String::from(gen::PRELUDE);
        s.push_str("use tauri::{AppHandle, Emitter};\nuse tauri::ipc::Channel;\n\n");
        match self {
            Case::FieldKey { rename_all, rename, ident } => {
                s.push_str("#[derive(Serialize, Deserialize)]\n");
                if let Some(ra) = rename_all {
                    s.push_str(&format!("#[serde(rename_all = \"{}\")]\n", ra));
                }
                s.push_str("pub struct Holder {\n");
                if let Some(r) = rename {
                    s.push_str(&format!("    #[serde(rename = {})]\n", rust_str(r)));
                }
                s.push_str(&format!("    pub {}: String,\n    pub other_field: Option<i32>,\n}}\n", ident));
                s.push_str("#[tauri::command]\npub fn use_holder(h: Holder) -> Holder { h }\n");
            }
            Case::VariantLit { rename_all, rename, ident } => {
                s.push_str("#[derive(Serialize, Deserialize)]\n");
                if let Some(ra) = rename_all {
                    s.push_str(&format!("#[serde(rename_all = \"{}\")]\n", ra));
                }
                s.push_str("pub enum Kind {\n");
                if let Some(r) = rename {
                    s.push_str(&format!("    #[serde(rename = {})]\n", rust_str(r)));
                }
                s.push_str(&format!("    {},\n    OtherVariant,\n}}\n", ident));
                s.push_str("#[tauri::command]\npub fn use_kind(k: Kind) -> Kind { k }\n");
            }
            Case::CommandName { ident, with_param } => {
                if *with_param {
                    s.push_str(&format!("#[tauri::command]\npub fn {}(value: i32, ch: Channel<i32>) -> i32 {{ value }}\n", ident));
                } else {
                    s.push_str(&format!("#[tauri::command]\npub fn {}() -> i32 {{ 1 }}\n", ident));
                }
            }
            Case::ParamName { ident, case, channel } => {
                cfg.default_parameter_case = case.clone();
                if *channel {
                    s.push_str(&format!("#[tauri::command]\npub fn cmd(first_arg: i32, {}: Channel<i32>, last_one: Channel<String>) -> i32 {{ 1 }}\n#[tauri::command]\npub fn only_channels({}: Channel<i32>) -> i32 {{ 1 }}\n", ident, ident));
                } else {
                    s.push_str(&format!("#[tauri::command]\npub fn cmd({}: i32, second_arg: Option<String>) -> i32 {{ 1 }}\n", ident));
                }
            }
            Case::FieldCase { ident, case } => {
                cfg.default_field_case = Some(case.clone());
                s.push_str(&format!("#[derive(Serialize, Deserialize)]\npub struct Holder {{ pub {}: String }}\n", ident));
                s.push_str("#[tauri::command]\npub fn use_holder(h: Holder) -> Holder { h }\n");
            }
            Case::EventName { name } => {
                s.push_str("#[tauri::command]\npub fn anchor() -> bool { true }\n");
                s.push_str(&format!("pub fn fire(app: &AppHandle) {{ app.emit({}, 1).unwrap(); }}\n", rust_str(name)));
            }
            Case::Message { text } => {
                cfg.zod = true;
                s.push_str(&format!(
                    "#[derive(Serialize, Deserialize)]\npub struct Holder {{\n    #[validate(length(min = 1, message = {}))]\n    pub name: String,\n}}\n",
                    rust_str(text)
                ));
                s.push_str("#[tauri::command]\npub fn use_holder(h: Holder) -> bool { true }\n");
            }
            Case::TypeAt { site, ty } => {
                let site = Site::from_name(site).unwrap_or(Site::Field);
                return (typesite::build_project(site, std::slice::from_ref(ty), &gen::leaf_defs()), cfg);
            }
            Case::Mapping { target, site } => {
                cfg.type_mappings = vec![("Mapped".into(), target.clone())];
                let site = Site::from_name(site).unwrap_or(Site::Field);
                let tys = [RTy::named("Mapped"), RTy::vec(RTy::named("Mapped")), RTy::opt(RTy::named("Mapped"))];
                return (typesite::build_project(site, &tys, &gen::leaf_defs()), cfg);
            }
            Case::PathType { text, site } => {
                let site = Site::from_name(site).unwrap_or(Site::Field);
                let defs = format!("{}pub mod models {{ pub use super::Item; }}\n", gen::leaf_defs());
                return (typesite::build_project(site, &[RTy::named(text)], &defs), cfg);
            }
        }
        (Project::single(s), cfg)
    }

    fn fields(&self) -> BTreeMap<String, String> {
        let mut m = BTreeMap::new();
        m.insert("kind".into(), self.kind().to_string());
        let opt = |o: &Option<String>| o.clone().unwrap_or_else(|| "-".into());
        match self {
            Case::FieldKey { rename_all, rename, ident } | Case::VariantLit { rename_all, rename, ident } => {
                m.insert("rename_all".into(), opt(rename_all));
                m.insert("rename".into(), opt(rename));
                m.insert("ident".into(), ident.clone());
            }
            Case::CommandName { ident, with_param } => {
                m.insert("ident".into(), ident.clone());
                m.insert("with_param".into(), with_param.to_string());
            }
            Case::ParamName { ident, case, channel } => {
                m.insert("ident".into(), ident.clone());
                m.insert("case".into(), opt(case));
                m.insert("channel".into(), channel.to_string());
            }
            Case::FieldCase { ident, case } => {
                m.insert("ident".into(), ident.clone());
                m.insert("case".into(), case.clone());
            }
            Case::EventName { name } => {
                m.insert("name".into(), name.clone());
            }
            Case::Message { text } => {
                m.insert("text".into(), text.clone());
            }
            Case::TypeAt { site, .. } => {
                m.insert("site".into(), site.clone());
            }
            Case::Mapping { target, site } => {
                m.insert("target".into(), target.clone());
                m.insert("site".into(), site.clone());
            }
            Case::PathType { text, site } => {
                m.insert("text".into(), text.clone());
                m.insert("site".into(), site.clone());
            }
        }
        m
    }
}

pub enum FileVerdict {
    Ok,
    Syntax(String),
    Unsupported(String),
}

pub fn judge_files(run: &LibRun) -> Vec<(String, FileVerdict)> {
    let mut v = vec![];
    for (name, content) in &run.files {
        if !name.ends_with(".ts") {
            continue;
        }
        match ts::parse_module(content) {
            Ok(_) => v.push((name.clone(), FileVerdict::Ok)),
            Err(e) => {
                let line = content.lines().nth(e.line.saturating_sub(1)).unwrap_or("").trim().to_string();
                let msg = format!("{} at {}:{}:{} near `{}`", e.msg, name, e.line, e.col, line);
                match e.kind {
                    ParseErrorKind::Syntax => v.push((name.clone(), FileVerdict::Syntax(msg))),
                    ParseErrorKind::Unsupported => v.push((name.clone(), FileVerdict::Unsupported(msg))),
                }
            }
        }
    }
    v
}

/// Evaluate one case in one mode: None = accepted and valid; Some(violation) otherwise.
pub fn eval(case: &Case, zod: bool, machinery: &mut Vec<String>, accepted: &mut bool) -> Option<Violation> {
    let (project, mut cfg) = case.project();
    if zod {
        cfg.zod = true;
    }
    let run = run_lib_default(&project, &cfg);
    if !run.ok() {
        *accepted = false;
        return None; // not accepted (error) or panic: C15's business
    }
    *accepted = true;
    let mut bad = vec![];
    for (f, v) in judge_files(&run) {
        match v {
            FileVerdict::Ok => {}
            FileVerdict::Syntax(m) => bad.push((f, m)),
            FileVerdict::Unsupported(m) => machinery.push(format!("oracle does not cover {}: {}", f, m)),
        }
    }
    if bad.is_empty() {
        return None;
    }
    let mut v = Violation::new(
        "C01",
        "syntax-error",
        format!("{:?} ({} mode): {}", case, cfg.mode_name(), bad.iter().map(|(_, m)| m.clone()).collect::<Vec<_>>().join(" ; ")),
        json!({"case": case, "zod": cfg.zod}),
    );
    v.fields = case.fields();
    v.fields.insert("mode".into(), cfg.mode_name().into());
    v.fields.insert("files".into(), bad.iter().map(|(f, _)| f.clone()).collect::<Vec<_>>().join(","));
    if let Case::TypeAt { ty, .. } = case {
        v.ty = Some(ty.clone());
        v.rank = (ty.depth() * 1000 + ty.to_rust().len()) as u64;
    }
    Some(v)
}

pub const REGEN_HISTORIES: [&str; 7] = ["zod-then-none", "none-then-zod", "fields-and-channel-removed", "fields-and-channel-removed-zod", "events-removed", "other-project", "other-project-2"];

/// Generate one project, then another (smaller, or in the other mode) into the same output
/// directory through the real binary / build path; every file left must still parse.
pub fn regenerate_case(label: &str, build: bool) -> Option<Violation> {
    use crate::projects;
    use crate::sbx::{self, FileCfg, RunOpts, Seam};
    let b0 = projects::base_b0();
    let smaller = |names: &[&str]| {
        let mut p = b0.clone();
        for n in names {
            if let Some(e) = projects::edits_b0().into_iter().find(|e| &e.name == n) {
                p = e.apply(&p).unwrap_or(p);
            }
        }
        p
    };
    let (first, zod1, second, zod2) = match label {
        "zod-then-none" => (b0.clone(), true, b0.clone(), false),
        "none-then-zod" => (b0.clone(), false, b0.clone(), true),
        "fields-and-channel-removed" => (b0.clone(), false, smaller(&["field_remove", "remove_channel", "validator_remove"]), false),
        "fields-and-channel-removed-zod" => (b0.clone(), true, smaller(&["field_remove", "remove_channel", "validator_remove"]), true),
        "events-removed" => (b0.clone(), true, smaller(&["event_remove"]), true),
        "other-project" => (b0.clone(), true, projects::base_b1(), false),
        _ => (projects::base_b2(), false, projects::base_b1(), false),
    };
    let seam = if build { Seam::Build } else { Seam::Cli };
    let sb = crate::run::Sandbox::new();
    sbx::write_sources(&sb.root, &first, &FileCfg { zod: zod1, ..Default::default() });
    let r1 = sbx::run_generate(&sb.root, seam, &RunOpts::default());
    let cfg2 = FileCfg { zod: zod2, ..Default::default() };
    sbx::write_sources(&sb.root, &second, &cfg2);
    let r2 = sbx::run_generate(&sb.root, seam, &RunOpts::default());
    if !r1.success() || !r2.success() {
        return None;
    }
    let files = crate::run::read_out_dir(&sbx::out_dir(&sb.root, &cfg2));
    let mut bad = vec![];
    for (name, content) in &files {
        if !name.ends_with(".ts") {
            continue;
        }
        if let Err(e) = ts::parse_module(content) {
            if e.kind == ParseErrorKind::Syntax {
                bad.push(format!("{} at {}:{}:{} near `{}`", e.msg, name, e.line, e.col, content.lines().nth(e.line.saturating_sub(1)).unwrap_or("").trim()));
            }
        }
    }
    if bad.is_empty() {
        return None;
    }
    Some(
        Violation::new("C01", "syntax-error", format!("regeneration history {} via {}: {}", label, seam.name(), bad.join(" ; ")), json!({"regenerate": label, "build": build}))
            .field("kind", "regenerate-over-previous-output")
            .field("history", label.to_string())
            .field("seam", seam.name()),
    )
}

pub fn replay(case: &Value) -> Vec<Violation> {
    if let Some(label) = case["regenerate"].as_str() {
        return regenerate_case(label, case["build"].as_bool().unwrap_or(false)).into_iter().collect();
    }
    let Ok(c) = serde_json::from_value::<Case>(case["case"].clone()) else { return vec![] };
    let zod = case["zod"].as_bool().unwrap_or(false);
    let mut m = vec![];
    let mut acc = false;
    eval(&c, zod, &mut m, &mut acc).into_iter().collect()
}

pub fn event_names(max_len: usize) -> Vec<String> {
    let alphabet = ['a', 'B', '7', '-', '_', '/', ':'];
    let mut out: Vec<String> = vec![];
    let mut level: Vec<String> = vec![String::new()];
    for _ in 0..max_len {
        let mut next = vec![];
        for p in &level {
            for c in alphabet {
                let mut s = p.clone();
                s.push(c);
                next.push(s);
            }
        }
        out.extend(next.iter().cloned());
        level = next;
    }
    out.extend(
        ["user-created", "user:created", "app://ready", "download/progress", "state_changed", "A-B", "x-1", "plugin:fs|read", "v2/api:call", "__internal",
            // characters Rust (and Tauri's event-name rule) counts as alphanumeric that JavaScript does
            // not allow in an identifier, letters outside ASCII and outside the BMP
            "area-m²-changed", "grade-🄰", "half-½", "circled-①", "Ⓐ", "café-opened", "漢字-ready", "x₁", "𠮷田:saved", "²"]
            .iter()
            .map(|s| s.to_string()),
    );
    out
}

pub fn name_cases(tier: Tier) -> Vec<Case> {
    let mut v = vec![];
    let field_idents = ["a", "id", "user_id", "user_id2", "x1_y", "http_url", "a__b", "_p", "r#type", "r#match"];
    let variant_idents = ["A", "Done", "InProgress", "HTTPServer", "V2Beta", "Io", "r#Self_"];
    let renames = ["a", "user-id", "USER-ID", "2x", "a b", "a.b", "ünï", "type", "say \"hi\"", "", "back\\slash", "it's", "$ok", "class", "m²", "CO₂", "Ⓐ", "🄰", "x₁", "½", "\u{301}x", "größe", "名前", "𠮷", "a\u{200d}b", "col·lecció"];
    let mut ras: Vec<Option<String>> = vec![None];
    ras.extend(RENAME_ALL.iter().map(|s| Some(s.to_string())));
    for ra in &ras {
        for id in field_idents {
            v.push(Case::FieldKey { rename_all: ra.clone(), rename: None, ident: id.into() });
        }
        for id in variant_idents {
            if id == "r#Self_" {
                continue;
            }
            v.push(Case::VariantLit { rename_all: ra.clone(), rename: None, ident: id.into() });
        }
    }
    for r in renames {
        for ra in [None, Some("camelCase".to_string()), Some("kebab-case".to_string())] {
            v.push(Case::FieldKey { rename_all: ra.clone(), rename: Some(r.into()), ident: "user_id".into() });
            v.push(Case::VariantLit { rename_all: ra.clone(), rename: Some(r.into()), ident: "InProgress".into() });
        }
    }
    let mut cmd_names: Vec<String> = JS_RESERVED_LEGAL_RUST.iter().map(|s| s.to_string()).collect();
    cmd_names.extend(["get_user", "r#type", "r#fn", "_private", "trailing_", "double__under", "get_user2", "x", "do_it_2_times", "arguments", "eval", "await_it", "yield_now", "let_go", "static_"].iter().map(|s| s.to_string()));
    for n in &cmd_names {
        v.push(Case::CommandName { ident: n.clone(), with_param: false });
        v.push(Case::CommandName { ident: n.clone(), with_param: true });
    }
    let param_names = ["a", "user_id", "user_id2", "x_1", "_x", "a__b", "type_", "r#type", "http2_url", "delete", "new", "class", "r#fn", "default"];
    let cases6 = ["camelCase", "snake_case", "PascalCase", "SCREAMING_SNAKE_CASE", "kebab-case", "SCREAMING-KEBAB-CASE"];
    for p in param_names {
        for channel in [false, true] {
            v.push(Case::ParamName { ident: p.into(), case: None, channel });
            for c in cases6 {
                v.push(Case::ParamName { ident: p.into(), case: Some(c.into()), channel });
            }
        }
    }
    for id in ["user_id", "a", "http_url", "x1_y"] {
        for c in cases6 {
            v.push(Case::FieldCase { ident: id.into(), case: c.into() });
        }
    }
    for n in event_names(if tier == Tier::Quick { 3 } else { 4 }) {
        v.push(Case::EventName { name: n });
    }
    let msgs = ["ok", "é", "漢字", "😀", "say \"hi\"", "back\\slash", "a)b", "a,b", "x = 1", "email", "line\nbreak", "tab\there", "${x}", "`tick`", "it's", "</script>", "\u{2028}sep"];
    for m in msgs {
        v.push(Case::Message { text: m.into() });
    }
    for target in ["string", "number", "boolean", "Record<string, number>", "Array<string>", "{ a: number }", "string | null", "Date", "[number, number]"] {
        for s in SITES {
            v.push(Case::Mapping { target: target.into(), site: s.name().into() });
        }
    }
    for text in ["models::Item", "crate::Item", "self::models::Item", "std::collections::HashMap<String, i32>", "std::vec::Vec<Item>", "std::option::Option<Item>", "std::string::String", "Box<Item>", "std::path::PathBuf", "chrono::DateTime<Utc>", "uuid::Uuid"] {
        for s in SITES {
            v.push(Case::PathType { text: text.into(), site: s.name().into() });
        }
    }
    v
}

pub fn run(tier: Tier) -> CheckResult {
    let mut res = CheckResult::new("C01", "exploration");
    let deadline = tier_deadline(tier);
    let mut cases = name_cases(tier);
    let n_name_cases = cases.len();
    // types: in zod mode the field and param sites carry schemas - they must parse too
    let types: Vec<RTy> = match tier {
        Tier::Quick => {
            let mut t = c05::enumerate(Tier::Quick);
            t.extend(gen::enumerate_full(&[c05::leaf("u8"), c05::leaf("bool"), c05::leaf("Kind"), c05::leaf("f64")], 1));
            t
        }
        Tier::Thorough => c05::enumerate(Tier::Thorough),
    };
    let mut types = types;
    types.extend(gen::enumerate_spines(&[RTy::named("models::Item"), RTy::named("crate::dto::Kind"), RTy::named("self::Item")], &[c05::leaf("i32"), c05::leaf("Item")], 2));
    let mut seen = std::collections::HashSet::new();
    let types: Vec<RTy> = types.into_iter().filter(|t| seen.insert(t.clone())).collect();

    // --- name-like cases: solo, both modes
    let name_results: Vec<(usize, bool, Option<Violation>, Vec<String>, bool)> = (0..cases.len() * 2)
        .into_par_iter()
        .map(|k| {
            let (i, zod) = (k / 2, k % 2 == 1);
            let mut m = vec![];
            let mut acc = false;
            if deadline.passed() {
                return (i, zod, None, vec!["deadline".into()], false);
            }
            let v = eval(&cases[i], zod, &mut m, &mut acc);
            (i, zod, v, m, acc)
        })
        .collect();
    let mut evaluations = 0u64;
    let mut accepted = 0u64;
    let mut exhaustive = true;
    let mut nontrivial: BTreeSet<String> = BTreeSet::new();
    let mut kinds: BTreeMap<String, u64> = BTreeMap::new();
    for (i, zod, v, m, acc) in name_results {
        if m.iter().any(|x| x == "deadline") {
            exhaustive = false;
            continue;
        }
        evaluations += 1;
        if acc {
            accepted += 1;
            nontrivial.insert(format!("{}|{:?}", zod, cases[i]));
            *kinds.entry(cases[i].kind().to_string()).or_default() += 1;
        }
        res.machinery_errors.extend(m);
        if let Some(v) = v {
            res.violations.push(v);
        }
    }

    // --- regeneration over the output of a larger project / the other mode (real binary): what is
    // left in the output directory must still be whole files
    for label in REGEN_HISTORIES {
        for build in [false, true] {
            evaluations += 2;
            res.violations.extend(regenerate_case(label, build));
        }
    }

    // --- types: batched per site/mode; a batch whose files all parse is fine as a whole
    let defs = gen::leaf_defs();
    let mut work: Vec<(Site, bool, Vec<RTy>)> = vec![];
    for s in SITES {
        for zod in [false, true] {
            for chunk in types.chunks(s.batch_size()) {
                work.push((s, zod, chunk.to_vec()));
            }
        }
    }
    let type_results: Vec<Option<(u64, u64, Vec<Violation>, Vec<String>, Vec<(Site, bool, RTy)>)>> = work
        .par_iter()
        .map(|(s, zod, chunk)| {
            if deadline.passed() {
                return None;
            }
            let cfg = Cfg::mode(*zod);
            let project = typesite::build_project(*s, chunk, &defs);
            let run = run_lib_default(&project, &cfg);
            let mut evals = 1u64;
            let mut acc = 0u64;
            let mut vs = vec![];
            let mut mach = vec![];
            let mut failing = vec![];
            let all_ok = run.ok() && judge_files(&run).iter().all(|(_, v)| matches!(v, FileVerdict::Ok));
            if all_ok {
                acc += chunk.len() as u64;
            } else {
                for t in chunk {
                    let case = Case::TypeAt { site: s.name().into(), ty: t.clone() };
                    let mut a = false;
                    evals += 1;
                    if let Some(v) = eval(&case, *zod, &mut mach, &mut a) {
                        failing.push((*s, *zod, t.clone()));
                        vs.push(v);
                    }
                    if a {
                        acc += 1;
                    }
                }
            }
            Some((evals, acc, vs, mach, failing))
        })
        .collect();
    let mut failing_set: BTreeSet<(Site, bool, RTy)> = BTreeSet::new();
    let mut type_viol = vec![];
    for r in type_results {
        match r {
            None => exhaustive = false,
            Some((e, a, vs, mach, failing)) => {
                evaluations += e;
                accepted += a;
                res.machinery_errors.extend(mach);
                failing_set.extend(failing);
                type_viol.extend(vs);
            }
        }
    }
    for v in type_viol {
        let site = Site::from_name(&v.fields["site"]).unwrap();
        let zod = v.fields["mode"] == "zod";
        let t = v.ty.clone().unwrap();
        if t.children().iter().any(|c| failing_set.contains(&(site, zod, (*c).clone()))) {
            res.derived += 1;
        } else {
            res.violations.push(v);
        }
    }
    res.machinery_errors.sort();
    res.machinery_errors.dedup();
    res.machinery_errors.truncate(5);
    for t in &types {
        if t.depth() >= 1 {
            nontrivial.insert(format!("type|{}", t.to_rust()));
        }
    }
    res.coverage.set("evaluations", evaluations);
    res.coverage.set("accepted_projects_or_cases", accepted);
    res.coverage.set("distinct_nontrivial", nontrivial.len() as u64);
    res.coverage.set("name_like_cases", n_name_cases as u64);
    res.coverage.set("cases_by_kind", json!(kinds));
    res.coverage.set("type_expressions", types.len() as u64);
    res.coverage.set("exhaustive", exhaustive);
    cases.truncate(0);
    res.coverage.set("samples", json!([
        {"FieldKey": {"rename_all": "kebab-case", "ident": "user_id"}},
        {"CommandName": {"ident": "delete", "with_param": true}},
        {"EventName": {"name": "a:/"}},
        {"TypeAt": {"site": "return", "ty": "HashMap<(String, Item), Result<Item, String>>"}},
        {"Message": {"text": "say \"hi\""}}
    ]));
    res.coverage.set("rule", "[round 7: every parameter name also as a channel parameter, beside an ordinary parameter and alone, under every naming-case setting] name-like inputs (field keys and variant literals under every rename_all and a rename alphabet, command / parameter / event names incl. JS reserved words and raw identifiers, naming-case settings, validator messages, type-mapping targets, path-qualified types) each as its own project in both modes; type expressions (full product to depth 2, thorough adds depth-3 spines) at all five sites in both modes, batched, failing batches re-run case by case; oracle: every written .ts file is accepted by the strict TypeScript parser of Appendix A (illegal identifiers, unquoted non-identifier keys, unbalanced brackets, '::', 'r#' are syntax errors there); a case is non-trivial when the tool accepted the project and wrote files");
    res.assumptions = vec!["the parser's grammar (DESIGN.md Appendix A) is the definition of 'parses as a TypeScript module'; output outside that grammar ends the check with exit 2".into()];
    res
}
