//! C09 - in Zod mode no schema is read before it is defined (inputs x iteration-order schedules).

use crate::core::*;
use crate::modinfo::{DeclKind, ModInfo};
use crate::props::c07::{self, Case as GraphCase, Root, CONTEXTS};
use crate::run::{explore_schedules, run_lib, Cfg, Schedule};
use crate::shape;
use crate::ts;
use rayon::prelude::*;
use serde_json::{json, Value};
use std::collections::{BTreeMap, BTreeSet};
use std::sync::atomic::{AtomicU64, Ordering};

fn is_acyclic(n: usize, mask: u32) -> bool {
    // Kahn on <= 5 nodes
    let mut indeg = vec![0; n];
    for u in 0..n {
        for v in 0..n {
            if mask >> (u * n + v) & 1 == 1 {
                if u == v {
                    return false;
                }
                indeg[v] += 1;
            }
        }
    }
    let mut removed = vec![false; n];
    for _ in 0..n {
        let Some(u) = (0..n).find(|&u| !removed[u] && indeg[u] == 0) else { return false };
        removed[u] = true;
        for v in 0..n {
            if mask >> (u * n + v) & 1 == 1 {
                indeg[v] -= 1;
            }
        }
    }
    true
}

/// Declaration-before-use problems of a Zod types.ts.
pub fn order_problems(src: &str) -> Result<Vec<String>, String> {
    let m = ts::parse_module(src).map_err(|e| format!("SYNTAX types.ts: {}", e))?;
    let mi = ModInfo::of(&m);
    let mut declared: BTreeSet<String> = BTreeSet::new();
    let all_consts: BTreeSet<String> = mi.vars.iter().map(|(n, _, _)| n.clone()).collect();
    let mut problems = vec![];
    let mut seen_params_schema = false;
    for d in mi.decls.iter().filter(|d| d.kind == DeclKind::Const) {
        let init = mi.var_init(&d.name);
        if let Some(init) = init {
            let mut refs = vec![];
            shape::schema_refs_outside_functions(init, &mut refs);
            for r in refs {
                if all_consts.contains(&r) && !declared.contains(&r) {
                    if r == d.name {
                        problems.push(format!("{} reads itself outside z.lazy", d.name));
                    } else {
                        problems.push(format!("{} reads {} before its definition", d.name, r));
                    }
                }
            }
        }
        if d.name.ends_with("ParamsSchema") {
            seen_params_schema = true;
        } else if d.name.ends_with("Schema") && seen_params_schema {
            problems.push(format!("struct/enum schema {} comes after a parameter schema", d.name));
        }
        declared.insert(d.name.clone());
    }
    Ok(problems)
}

fn mk(gc: &GraphCase, s: &Schedule, problems: &[String]) -> Violation {
    let mut ctxs: BTreeSet<&str> = BTreeSet::new();
    ctxs.insert(CONTEXTS[gc.ctx]);
    if let Some((_, c)) = gc.deviate {
        ctxs.insert(CONTEXTS[c]);
    }
    Violation::new(
        "C09",
        "use-before-definition",
        format!("{:?} edges {:?} under iteration-order schedule {:?}: {}", gc, gc.edges(), s.0, problems.join("; ")),
        json!({"graph": gc, "schedule": s.0}),
    )
    .field("contexts", ctxs.into_iter().collect::<Vec<_>>().join(" + "))
    .field("schedule", if s.0.iter().all(|c| *c == 0) { "identity" } else { "deviating" })
    .rank((gc.n * 100 + gc.mask.count_ones() as usize * 10 + s.0.len()) as u64)
}

pub fn replay(case: &Value) -> Vec<Violation> {
    if let Some(src) = case["shared_project"].as_str() {
        let s = Schedule(case["schedule"].as_array().map(|a| a.iter().map(|x| x.as_u64().unwrap_or(0) as usize).collect()).unwrap_or_default());
        let run = run_lib(&crate::gen::Project::single(src.to_string()), &Cfg::mode(true), &s);
        return match run.file("types.ts").map(order_problems) {
            Some(Ok(p)) if !p.is_empty() => vec![Violation::new("C09", "use-before-definition", p.join("; "), case.clone()).field("contexts", "bare + tuple + module path, every type also used by a command").field("schedule", "replayed")],
            _ => vec![],
        };
    }
    let Ok(gc) = serde_json::from_value::<GraphCase>(case["graph"].clone()) else { return vec![] };
    let s = Schedule(case["schedule"].as_array().map(|a| a.iter().map(|x| x.as_u64().unwrap_or(0) as usize).collect()).unwrap_or_default());
    let run = run_lib(&gc.project(), &Cfg::mode(true), &s);
    match run.file("types.ts").map(order_problems) {
        Some(Ok(p)) if !p.is_empty() => vec![mk(&gc, &s, &p)],
        _ => vec![],
    }
}

pub fn run(tier: Tier) -> CheckResult {
    let mut res = CheckResult::new("C09", "model_checking");
    let deadline = tier_deadline(tier);
    let mut graphs: Vec<(usize, u32)> = vec![];
    let max_n = 4;
    for n in 1..=max_n {
        for mask in 0..(1u32 << (n * n)) {
            if is_acyclic(n, mask) {
                graphs.push((n, mask));
            }
        }
    }
    if tier == Tier::Thorough {
        // 5-node DAGs: chains, diamonds and fans with <= 5 edges over the upper triangle (already
        // covers every unlabelled shape of that size up to relabelling by topological order)
        for mask in 0..(1u32 << 25) {
            if mask.count_ones() <= 4 && (0..5).all(|u| (0..5).all(|v| mask >> (u * 5 + v) & 1 == 0 || u < v)) && mask.count_ones() >= 3 {
                graphs.push((5, mask));
            }
        }
    }
    let mut cases: Vec<GraphCase> = vec![];
    for (gi, (n, mask)) in graphs.iter().enumerate() {
        for ctx in 0..CONTEXTS.len() {
            if *n >= 4 && (gi + ctx) % (if *n == 4 { if tier == Tier::Quick { 3 } else { 2 } } else { 5 }) != 0 {
                continue;
            }
            for layout in 0..3 {
                if *n >= 3 && (gi + ctx + layout) % 3 != 0 {
                    continue;
                }
                cases.push(GraphCase { n: *n, mask: *mask, root: if (gi + ctx) % 4 == 0 { Root::ReturnOk } else { Root::Param }, ctx, deviate: None, layout, derive_style: (gi + ctx) % 4, zod: true, naming: 0, mapped: None });
                // the whole graph reachable through an event payload only (typed parameter and annotated let)
                if *n <= 3 && ctx <= 2 {
                    for root in [Root::Event, Root::EventLet] {
                        cases.push(GraphCase { n: *n, mask: *mask, root, ctx, deviate: None, layout, derive_style: 0, zod: true, naming: (gi + ctx) % 2 * 4, mapped: None });
                    }
                }
                // the other naming schemes (caseless scripts, names that contain each other, ...) on
                // the direct, tuple and module-path contexts
                if *n <= 3 && [0usize, 6, 10].contains(&ctx) && layout == 0 {
                    for naming in 1..c07::NAMINGS.len() {
                        cases.push(GraphCase { n: *n, mask: *mask, root: Root::Param, ctx, deviate: None, layout: (gi + naming) % 3, derive_style: 0, zod: true, naming, mapped: None });
                    }
                }
            }
        }
        let n_edges = mask.count_ones() as usize;
        if n_edges >= 2 && *n <= 3 {
            for e in 0..n_edges {
                for c in 1..CONTEXTS.len() {
                    cases.push(GraphCase { n: *n, mask: *mask, root: Root::Param, ctx: 0, deviate: Some((e, c)), layout: (gi + e) % 3, derive_style: 0, zod: true, naming: 0, mapped: None });
                }
            }
        }
    }
    let runs = AtomicU64::new(0);
    let schedules = AtomicU64::new(0);
    let capped = AtomicU64::new(0);
    let not_parsable = AtomicU64::new(0);
    let nontrivial = AtomicU64::new(0);
    let divergences = AtomicU64::new(0);
    let violations = std::sync::Mutex::new(Vec::<Violation>::new());
    let site_stats = std::sync::Mutex::new(BTreeMap::<String, u64>::new());
    let stopped = std::sync::atomic::AtomicBool::new(false);
    cases.par_iter().for_each(|gc| {
        if deadline.passed() {
            stopped.store(true, Ordering::Relaxed);
            return;
        }
        let project = gc.project();
        let cfg = Cfg::mode(true);
        let bound = if gc.n <= 3 { None } else { Some(if tier == Tier::Quick { 2 } else { 3 }) };
        let mut first_output: Option<String> = None;
        let mut any_choice = false;
        let mut local_sites: BTreeMap<String, u64> = BTreeMap::new();
        let (count, complete) = explore_schedules(bound, 3000, |s| {
            let run = run_lib(&project, &cfg, s);
            runs.fetch_add(1, Ordering::Relaxed);
            for cp in &run.trace {
                if cp.n >= 2 {
                    any_choice = true;
                    *local_sites.entry(cp.site.clone()).or_default() += 1;
                }
            }
            if let Some(src) = run.file("types.ts") {
                match order_problems(src) {
                    Ok(p) => {
                        if !p.is_empty() {
                            violations.lock().unwrap().push(mk(gc, s, &p));
                        }
                    }
                    Err(_) => {
                        not_parsable.fetch_add(1, Ordering::Relaxed);
                    }
                }
                if first_output.is_none() {
                    // replay divergence: same schedule, fresh analyser (fresh hash seeds)
                    let again = run_lib(&project, &cfg, s);
                    runs.fetch_add(1, Ordering::Relaxed);
                    if again.file("types.ts").map(crate::run::strip_timestamp) != Some(crate::run::strip_timestamp(src)) {
                        divergences.fetch_add(1, Ordering::Relaxed);
                        violations.lock().unwrap().push(
                            Violation::new("C09", "replay-divergence", format!("{:?}: identical schedule {:?} produced two different types.ts (uncontrolled nondeterminism)", gc, s.0), json!({"graph": gc, "schedule": s.0}))
                                .field("contexts", CONTEXTS[gc.ctx])
                                .field("schedule", "same-twice"),
                        );
                    }
                    first_output = Some(src.to_string());
                }
            }
            run.trace
        });
        schedules.fetch_add(count as u64, Ordering::Relaxed);
        if !complete {
            capped.fetch_add(1, Ordering::Relaxed);
        }
        if any_choice && gc.mask != 0 {
            nontrivial.fetch_add(1, Ordering::Relaxed);
        }
        let mut g = site_stats.lock().unwrap();
        for (k, v) in local_sites {
            *g.entry(k).or_default() += v;
        }
    });
    // every type also has a use of its own (a command taking it inside a container) while the
    // fields mention their dependencies bare, inside a tuple and through a module path: for every
    // naming scheme and every assignment of its names to the three roles
    let mut shared_runs = 0u64;
    {
        let mut projects: Vec<(String, crate::gen::Project)> = vec![];
        for (ni, names) in c07::NAMINGS.iter().enumerate() {
            for a in 0..4 {
                for b in 0..4 {
                    for c in 0..4 {
                        if a == b || a == c || b == c {
                            continue;
                        }
                        let (n0, n1, n2) = (names[a], names[b], names[c]);
                        let src = format!(
                            "{}#[derive(Serialize, Deserialize)]\npub struct {n0} {{ pub id: i32, pub first: {n1}, pub second: ({n2}, u32), pub third: models::{n1} }}\n#[derive(Serialize, Deserialize)]\npub struct {n1} {{ pub id: i32, pub inner: {n2} }}\n#[derive(Serialize, Deserialize)]\npub enum {n2} {{ One, Two }}\n#[tauri::command]\npub fn take_all(x: Vec<{n0}>) -> bool {{ true }}\n#[tauri::command]\npub fn take_mid(y: Option<{n1}>) -> bool {{ true }}\n#[tauri::command]\npub fn take_leaf(z: Vec<{n2}>) -> Option<{n2}> {{ None }}\n",
                            crate::gen::PRELUDE,
                            n0 = n0,
                            n1 = n1,
                            n2 = n2
                        );
                        // once more with a command (first in the file) that mentions the two dependencies
                        // in two spellings each, the second spelling being exactly a field's type text:
                        // what is remembered about a type text must not depend on what was seen before it
                        let twice = src.replacen(
                            "#[tauri::command]\npub fn take_all",
                            &format!("#[tauri::command]\npub fn both_ways(a: Vec<{n2}>, b: {n2}, c: Option<{n1}>, d: {n1}) -> bool {{ true }}\n#[tauri::command]\npub fn take_all", n1 = n1, n2 = n2),
                            1,
                        );
                        projects.push((format!("naming {} roles {}>{}>{} (dependencies first seen in two spellings)", ni, n0, n1, n2), crate::gen::Project::single(twice)));
                        // once more with the dependencies mentioned only inside tuples that start or end
                        // with another tuple
                        let nested = src.replacen(
                            &format!("pub first: {n1}, pub second: ({n2}, u32), pub third: models::{n1} }}", n1 = n1, n2 = n2),
                            &format!("pub first: (String, (u32, {n1})), pub second: (({n2}, u32), String), pub third: ((u8, u8), (u32, {n2})) }}", n1 = n1, n2 = n2),
                            1,
                        );
                        assert_ne!(nested, src);
                        projects.push((format!("naming {} roles {}>{}>{} (dependencies only inside nested tuples)", ni, n0, n1, n2), crate::gen::Project::single(nested)));
                        projects.push((format!("naming {} roles {}>{}>{}", ni, n0, n1, n2), crate::gen::Project::single(src)));
                    }
                }
            }
        }
        let pv: Vec<Violation> = projects
            .par_iter()
            .flat_map(|(label, project)| {
                let mut out = vec![];
                let (_count, _complete) = explore_schedules(Some(1), 200, |s| {
                    let run = run_lib(project, &Cfg::mode(true), s);
                    if let Some(Ok(p)) = run.file("types.ts").map(order_problems) {
                        if !p.is_empty() && out.is_empty() {
                            out.push(
                                Violation::new("C09", "use-before-definition", format!("{} under iteration-order schedule {:?}: {}", label, s.0, p.join("; ")), json!({"shared_project": project.files[0].1, "schedule": s.0}))
                                    .field("contexts", "bare + tuple + module path, every type also used by a command")
                                    .field("schedule", if s.0.iter().all(|c| *c == 0) { "identity" } else { "deviating" }),
                            );
                        }
                    }
                    run.trace
                });
                out
            })
            .collect();
        shared_runs += projects.len() as u64;
        violations.lock().unwrap().extend(pv);
    }
    let mut all_v = violations.into_inner().unwrap();
    all_v.sort_by_key(|v| (v.rank, v.key()));
    let mut seen = BTreeSet::new();
    for v in all_v {
        let k = format!("{}|{}|{}", v.class, v.fields["contexts"], v.fields["schedule"]);
        if seen.insert(k) {
            res.violations.push(v);
        } else {
            res.derived += 1;
        }
    }
    let exhaustive = !stopped.load(Ordering::Relaxed) && capped.load(Ordering::Relaxed) == 0;
    res.coverage.set("states", cases.len() as u64);
    res.coverage.set("transitions", runs.load(Ordering::Relaxed));
    res.coverage.set("schedules", schedules.load(Ordering::Relaxed));
    res.coverage.set("traces_validated_against_impl", runs.load(Ordering::Relaxed));
    res.coverage.set("evaluations", runs.load(Ordering::Relaxed));
    res.coverage.set("distinct_nontrivial", nontrivial.load(Ordering::Relaxed));
    res.coverage.set("dags", graphs.len() as u64);
    res.coverage.set("shared_use_projects", shared_runs);
    res.coverage.set("choice_points_by_site", json!(*site_stats.lock().unwrap()));
    res.coverage.set("schedule_cap_hits", capped.load(Ordering::Relaxed));
    res.coverage.set("outputs_not_parsable_here", not_parsable.load(Ordering::Relaxed));
    res.coverage.set("exhaustive", exhaustive);
    res.coverage.set("hooks_enabled", crate::run::HOOKS_ENABLED);
    res.coverage.set("samples", json!(cases.iter().step_by((cases.len() / 4).max(1)).take(4).collect::<Vec<_>>()));
    res.coverage.set("rule", format!("every shared-use project once more with a first command that mentions both dependencies in two spellings each (the second being exactly a field type text); states = (labelled DAG on 1..{} nodes [thorough: + 5-node shapes with 3..4 edges], constructor context of the edges [uniform / one deviating], file layout; root = command parameter / return type, or - for up to three nodes - an event payload only); transitions = one in-process Zod generation per iteration-order schedule at hook sites S1 (files), S5 (topological roots), S6 (per-node dependencies): full product for <= 3 nodes, deviation bound {} beyond; oracle on every run: in the parsed types.ts every schema constant read outside a function body is defined earlier, and all parameter schemas follow all struct/enum schemas; the first run of every state is executed twice to expose uncontrolled nondeterminism. Plus 144 three-type projects (each in three variants: as described, with the dependencies first seen in two spellings, and with the dependencies mentioned only inside tuples that start or end with another tuple) (six naming schemes x every assignment of names to roles) in which every type is also used by a command of its own while fields mention dependencies bare, in a tuple and through a module path. Non-trivial = at least one hook site had >= 2 elements to order.", max_n, if tier == Tier::Quick { 1 } else { 2 }));
    res.assumptions = vec!["iteration orders are owned through the verif-hooks sites; the sort that follows a hook site normalises the order, so a change that drops the sort is what the schedules expose".into()];
    let _ = c07::ROOTS;
    res
}
