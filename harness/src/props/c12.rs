//! C12 - one correctly named, correctly subscribed listener per emitted event.

use crate::core::*;
use crate::gen::{self, Project, RTy};
use crate::modinfo::{self, DeclKind, ModInfo};
use crate::props::c01;
use crate::run::{run_lib_default, Cfg};
use crate::shape::{self, Shape};
use crate::ts::{self, Expr, Type};
use rayon::prelude::*;
use serde::{Deserialize, Serialize};
use serde_json::{json, Value};
use std::collections::{BTreeMap, BTreeSet};

/// statement templates; `@` is replaced by the emit call expression
pub const PLACEMENTS: [(&str, &str); 17] = [
    ("expr-stmt", "    @;\n"),
    ("let-init", "    let _r = @;\n"),
    ("if-then", "    if flag { @.unwrap(); }\n"),
    ("if-else", "    if flag { let _ = 1; } else { @.unwrap(); }\n"),
    ("else-if", "    if flag { let _ = 1; } else if !flag { @.unwrap(); } else { let _ = 2; }\n"),
    ("match-arm-block", "    match n { 1 => { @.unwrap(); } _ => {} }\n"),
    ("match-arm-expr", "    match n { 1 => @.unwrap(), _ => () }\n"),
    ("loop-body", "    loop { @.unwrap(); break; }\n"),
    ("while-body", "    while flag { @.unwrap(); break; }\n"),
    ("for-body", "    for _i in 0..n { @.unwrap(); }\n"),
    ("nested-block", "    { { { @.unwrap(); } } }\n"),
    ("try", "    @?;\n"),
    ("await", "    @.await;\n"),
    ("unwrap-receiver", "    @.unwrap();\n"),
    ("ok-receiver", "    @.ok();\n"),
    ("if-in-loop-in-match", "    match n { 0 => { for _i in 0..n { if flag { @.unwrap(); } } } _ => {} }\n"),
    ("let-in-if", "    if flag { let _r = @; }\n"),
];

/// (label, receiver expression, is an emitter per the documented rule)
pub const RECEIVERS: [(&str, &str, bool); 11] = [
    ("app", "app", true),
    ("window", "window", true),
    ("webview", "webview", true),
    ("self.app", "this.app", true),
    ("ctx.window", "ctx.window", true),
    ("ctx.webview", "ctx.webview", true),
    ("method-call", "app.app_handle()", true),
    ("method-call-other", "other.handle()", true),
    ("other-var", "other", false),
    ("emitter-var", "emitter", false),
    ("my_app-var", "my_app", false),
];

#[derive(Debug, Clone, Serialize, Deserialize)]
pub enum Payload {
    /// literal expression text and its expected type
    Lit(String),
    StructExpr,
    TypedParam(RTy),
    TypedLet(RTy),
    /// `let data: T = <initialiser #i>;` - the annotation is the evident type whatever the initialiser
    TypedLetInit(RTy, usize),
    InferredLet,
    RefOfParam(RTy),
    CloneOfParam(RTy),
    TupleExpr,
    Call,
    FieldAccess,
    MethodCall,
    Unit,
}

#[derive(Debug, Clone, Serialize, Deserialize)]
pub struct Emit {
    pub name: String,
    pub placement: usize,
    pub receiver: usize,
    pub emit_to: bool,
    pub payload: Payload,
    /// file index
    pub file: usize,
    /// how the receivers `app` / `window` / `webview` are declared (index into SIGNATURES)
    #[serde(default)]
    pub sig: usize,
}

/// (generics of the function, declarations of app / window / webview)
pub const SIGNATURES: [(&str, &str); 4] = [
    ("", "app: &AppHandle, window: &tauri::Window, webview: &tauri::Webview"),
    ("<R: tauri::Runtime>", "app: AppHandle<R>, window: &WebviewWindow<R>, webview: tauri::Webview<R>"),
    ("<E: Emitter>", "app: &tauri::AppHandle<tauri::Wry>, window: tauri::WebviewWindow, webview: &E"),
    ("<R: tauri::Runtime>", "app: &tauri::AppHandle<R>, window: tauri::Window<R>, webview: &tauri::WebviewWindow<R>"),
];

#[derive(Debug, Clone, Serialize, Deserialize)]
pub struct Case {
    pub emits: Vec<Emit>,
    pub zod: bool,
}

/// initialisers of an annotated binding (none of them names the annotated type reliably)
pub const LET_INITS: [&str; 8] = ["Default::default()", "Vec::new()", "Other::build()", "std::mem::take(&mut slot)", "serde_json::from_str(\"1\").unwrap()", "make().into()", "Wrapper::new(1).inner()", "Item::load(1)"];

impl Payload {
    /// (extra fn params, statements before, payload expression, expected shape)
    fn render(&self, k: usize) -> (String, String, String, Shape) {
        match self {
            Payload::Lit(l) => {
                let sh = if l.starts_with('"') {
                    Shape::Str
                } else if l == "true" || l == "false" {
                    Shape::Bool
                } else {
                    Shape::Num
                };
                (String::new(), String::new(), l.clone(), sh)
            }
            Payload::StructExpr => (String::new(), String::new(), "Item { id: 1 }".into(), Shape::Ref("Item".into(), vec![])),
            // the payload variable has the same name (`data`) in every function on purpose
            Payload::TypedParam(t) => (format!(", data: {}", t.to_rust()), String::new(), "data".to_string(), shape::denote(t)),
            Payload::TypedLet(t) => (String::new(), format!("    let data: {} = make();\n", t.to_rust()), "data".to_string(), shape::denote(t)),
            Payload::TypedLetInit(t, i) => (String::new(), format!("    let data: {} = {};\n", t.to_rust(), LET_INITS[*i % LET_INITS.len()]), "data".to_string(), shape::denote(t)),
            Payload::InferredLet => (String::new(), "    let data = make();\n".to_string(), "data".to_string(), Shape::Unknown),
            Payload::RefOfParam(t) => (format!(", p{}: {}", k, t.to_rust()), String::new(), format!("&p{}", k), shape::denote(t)),
            Payload::CloneOfParam(t) => (format!(", p{}: {}", k, t.to_rust()), String::new(), format!("p{}.clone()", k), shape::denote(t)),
            Payload::TupleExpr => (String::new(), String::new(), "(1, true)".into(), Shape::Unknown),
            Payload::Call => (String::new(), String::new(), "make()".into(), Shape::Unknown),
            Payload::FieldAccess => (", holder: Item".to_string(), String::new(), "holder.id".into(), Shape::Unknown),
            Payload::MethodCall => (", holder: Item".to_string(), String::new(), "holder.to_payload()".into(), Shape::Unknown),
            Payload::Unit => (String::new(), String::new(), "()".into(), Shape::Void),
        }
    }
}

fn rust_str(s: &str) -> String {
    format!("\"{}\"", s.replace('\\', "\\\\").replace('"', "\\\""))
}

impl Case {
    pub fn project(&self) -> Project {
        let n_files = self.emits.iter().map(|e| e.file).max().unwrap_or(0) + 1;
        let mut files: Vec<String> = (0..n_files).map(|_| String::from("use tauri::{AppHandle, Emitter, Manager};\n")).collect();
        files[0].push_str(gen::PRELUDE);
        files[0].push_str(&gen::leaf_defs());
        files[0].push_str("#[tauri::command]\npub fn anchor() -> bool { true }\n\n");
        for (k, e) in self.emits.iter().enumerate() {
            let (params, pre, expr, _) = e.payload.render(k);
            let recv = RECEIVERS[e.receiver].1;
            let call = if e.emit_to { format!("{}.emit_to(\"main\", {}, {})", recv, rust_str(&e.name), expr) } else { format!("{}.emit({}, {})", recv, rust_str(&e.name), expr) };
            let body = PLACEMENTS[e.placement].1.replace('@', &call);
            let is_async = PLACEMENTS[e.placement].0 == "await";
            let returns_result = PLACEMENTS[e.placement].0 == "try";
            files[e.file].push_str(&format!(
                "pub {}fn fire_{}{}({}, this: &Ctx, ctx: &Ctx, other: &Ctx, emitter: &AppHandle, my_app: &AppHandle, flag: bool, n: i32{}){} {{\n{}{}{}}}\n\n",
                if is_async { "async " } else { "" },
                k,
                SIGNATURES[e.sig % SIGNATURES.len()].0,
                SIGNATURES[e.sig % SIGNATURES.len()].1,
                params,
                if returns_result { " -> Result<(), tauri::Error>" } else { "" },
                pre,
                body,
                if returns_result { "    Ok(())\n" } else { "" }
            ));
        }
        Project { files: files.into_iter().enumerate().map(|(i, s)| (format!("src/f{}.rs", i), s)).collect(), links: vec![] }
    }

    /// expected: event name -> payload shape (None = sites disagree)
    pub fn expected(&self) -> BTreeMap<String, Option<Shape>> {
        let mut m: BTreeMap<String, Option<Shape>> = BTreeMap::new();
        for (k, e) in self.emits.iter().enumerate() {
            if !RECEIVERS[e.receiver].2 {
                continue;
            }
            let (_, _, _, sh) = e.payload.render(k);
            match m.get(&e.name) {
                None => {
                    m.insert(e.name.clone(), Some(sh));
                }
                Some(Some(prev)) if *prev != sh => {
                    m.insert(e.name.clone(), None);
                }
                _ => {}
            }
        }
        m
    }
}

pub struct Listener {
    pub function: String,
    pub event: Option<String>,
    pub payload: Option<Shape>,
    pub listen_type_arg: Option<Shape>,
}

pub fn observe(files: &BTreeMap<String, String>) -> Result<(Vec<Listener>, Vec<String>, bool), String> {
    let index_reexports_events = match files.get("index.ts") {
        Some(src) => {
            let m = ts::parse_module(src).map_err(|e| format!("SYNTAX index.ts: {}", e))?;
            ModInfo::of(&m).star_reexports.iter().any(|s| s == "./events")
        }
        None => false,
    };
    let Some(src) = files.get("events.ts") else {
        return Ok((vec![], vec![], index_reexports_events));
    };
    let m = ts::parse_module(src).map_err(|e| format!("SYNTAX events.ts: {}", e))?;
    let mi = ModInfo::of(&m);
    let mut ls = vec![];
    for d in mi.decls.iter().filter(|d| d.exported && d.kind == DeclKind::Function) {
        let f = &mi.funcs[&d.name];
        let calls = modinfo::calls_of(f, "listen");
        let event = match calls.first().and_then(|c| c.args.first()) {
            Some(Expr::Str(s)) => Some(s.clone()),
            _ => None,
        };
        let listen_type_arg = calls.first().and_then(|c| c.type_args.first()).map(shape::from_ts);
        let payload = match f.params.first().and_then(|p| p.ty.as_ref()) {
            Some(Type::Fn { params, .. }) => params.first().and_then(|p| p.ty.as_ref()).map(shape::from_ts),
            _ => None,
        };
        if calls.len() != 1 {
            return Err(format!("listener {} contains {} listen calls", d.name, calls.len()));
        }
        ls.push(Listener { function: d.name.clone(), event, payload, listen_type_arg });
    }
    Ok((ls, mi.duplicate_exports.clone(), index_reexports_events))
}

pub fn eval(case: &Case) -> (Vec<Violation>, bool, Option<String>) {
    let run = run_lib_default(&case.project(), &Cfg::mode(case.zod));
    if !run.ok() {
        return (vec![], false, None);
    }
    // listener identifiers must be legal whatever else is wrong with the file (a parse failure of
    // events.ts as a whole is C01's business, an illegal listener name is named by this property)
    if let Some(src) = run.file("events.ts") {
        for line in src.lines() {
            if let Some(rest) = line.trim_start().strip_prefix("export async function ").or_else(|| line.trim_start().strip_prefix("export function ")) {
                let name: String = rest.chars().take_while(|c| *c != '(' && *c != '<' && !c.is_whitespace()).collect();
                let mut cs = name.chars();
                let legal = match cs.next() {
                    Some(c) => (c == '_' || c == '$' || unicode_ident::is_xid_start(c)) && cs.all(|c| c == '$' || c == '\u{200c}' || c == '\u{200d}' || unicode_ident::is_xid_continue(c)),
                    None => false,
                };
                if !legal {
                    return (vec![mk(case, "illegal-listener-identifier", format!("events.ts declares a listener named `{}`, which is not a legal identifier", name))], true, None);
                }
            }
        }
    }
    let (listeners, dups, reexported) = match observe(&run.files) {
        Ok(x) => x,
        Err(e) if e.starts_with("SYNTAX") => return (vec![], true, Some(e)),
        // the observer does not understand the module's shape: that is the observer's limit, not a verdict
        Err(e) => return (vec![], true, Some(format!("ORACLE events.ts: {}", e))),
    };
    let exp = case.expected();
    let mut vs = vec![];
    if !dups.is_empty() {
        // two exported functions of one name: the module does not compile and the per-event
        // reading below (functions are looked up by name) would be meaningless
        return (vec![mk(case, "listener-name-collision", format!("events.ts declares {:?} more than once", dups))], true, None);
    }
    let mut by_event: BTreeMap<String, Vec<&Listener>> = BTreeMap::new();
    for l in &listeners {
        match &l.event {
            Some(e) => by_event.entry(e.clone()).or_default().push(l),
            None => return (vec![], true, Some(format!("ORACLE {} does not subscribe to a literal event name", l.function))),
        }
    }
    for (name, want) in &exp {
        match by_event.get(name) {
            None => vs.push(mk(case, "missing-listener", format!("no listener subscribes to {:?}; events.ts subscribes to {:?}", name, by_event.keys().collect::<Vec<_>>()))),
            Some(ls) => {
                if ls.len() > 1 {
                    vs.push(mk(case, "duplicate-listener", format!("{} listeners for {:?}: {:?}", ls.len(), name, ls.iter().map(|l| &l.function).collect::<Vec<_>>())));
                }
                let l = ls[0];
                match (want, &l.payload) {
                    (Some(w), Some(g)) => {
                        if g != w {
                            vs.push(mk(case, "payload-type", format!("event {:?}: payload typed {} but the Rust payload is {}", name, g.show(), w.show())));
                        }
                    }
                    (None, Some(g)) => {
                        // emit sites disagree: anything but a single site's type pretending to be the type is fine only if unknown
                        if *g != Shape::Unknown {
                            vs.push(mk(case, "payload-type", format!("event {:?} is emitted with different payload types but the listener is typed {}", name, g.show())));
                        }
                    }
                    (_, None) => return (vec![], true, Some(format!("ORACLE {}: handler parameter has no readable payload type", l.function))),
                }
                if l.listen_type_arg.is_some() && l.listen_type_arg != l.payload {
                    vs.push(mk(case, "payload-type", format!("{}: listen<..> type argument differs from the handler's payload type", l.function)));
                }
            }
        }
    }
    for name in by_event.keys() {
        if !exp.contains_key(name) {
            vs.push(mk(case, "extra-listener", format!("listener for {:?}, which no documented emitter emits", name)));
        }
    }
    if !dups.is_empty() {
        vs.push(mk(case, "listener-name-collision", format!("events.ts declares {:?} more than once", dups)));
    }
    let has_events_file = run.files.contains_key("events.ts");
    if exp.is_empty() && (has_events_file || reexported) {
        vs.push(mk(case, "events-module-without-events", format!("no events expected but events.ts written={} re-exported={}", has_events_file, reexported)));
    }
    if !exp.is_empty() && has_events_file && !reexported {
        vs.push(mk(case, "events-module-not-reexported", "events.ts written but index.ts does not re-export it".into()));
    }
    (vs, true, None)
}

fn mk(case: &Case, class: &str, detail: String) -> Violation {
    let e0 = &case.emits[0];
    let payloads: BTreeSet<String> = case
        .emits
        .iter()
        .map(|e| match &e.payload {
            Payload::Lit(l) => format!("lit:{}", if l.starts_with('"') { "str" } else if l.contains('.') { "float" } else if l == "true" { "bool" } else { "int" }),
            Payload::TypedParam(_) => "typed-param".into(),
            Payload::TypedLet(_) => "typed-let".into(),
            Payload::TypedLetInit(_, i) => format!("typed-let-init:{}", LET_INITS[*i % LET_INITS.len()]),
            Payload::RefOfParam(_) => "ref-of-param".into(),
            Payload::CloneOfParam(_) => "clone-of-param".into(),
            other => format!("{:?}", other),
        })
        .collect();
    let mut v = Violation::new("C12", class, format!("{}\n→ {}", case.project().files.iter().map(|(_, s)| s.lines().filter(|l| l.contains("emit") || l.contains("let v")).collect::<Vec<_>>().join("\n")).collect::<Vec<_>>().join("\n"), detail), serde_json::to_value(case).unwrap())
        .field("placement", if case.emits.len() == 1 { PLACEMENTS[e0.placement].0.to_string() } else { "multi".into() })
        .field("receiver", if case.emits.len() == 1 { RECEIVERS[e0.receiver].0.to_string() } else { "multi".into() })
        .field("call", if e0.emit_to { "emit_to" } else { "emit" })
        .field("payload", payloads.into_iter().collect::<Vec<_>>().join("+"))
        .field("emits", case.emits.len().to_string())
        .field("names", name_class(&case.emits.iter().map(|e| e.name.as_str()).collect::<Vec<_>>()))
        .field("mode", if case.zod { "zod" } else { "none" })
        .rank(case.emits.len() as u64 * 10);
    let tys: Vec<&RTy> = case
        .emits
        .iter()
        .filter_map(|e| match &e.payload {
            Payload::TypedParam(t) | Payload::TypedLet(t) | Payload::TypedLetInit(t, _) | Payload::RefOfParam(t) | Payload::CloneOfParam(t) => Some(t),
            _ => None,
        })
        .collect();
    if tys.len() == 1 {
        v.ty = Some(tys[0].clone());
    }
    v
}

fn name_class(names: &[&str]) -> String {
    let distinct: BTreeSet<&str> = names.iter().copied().collect();
    if distinct.len() == 1 {
        let n = names[0];
        if n.chars().all(|c| c.is_ascii_alphanumeric() || c == '-' || c == '_') {
            "plain".into()
        } else {
            "special-chars".into()
        }
    } else {
        let norm: BTreeSet<String> = distinct.iter().map(|n| n.chars().map(|c| if c.is_ascii_alphanumeric() { c.to_ascii_lowercase() } else { '_' }).collect()).collect();
        if norm.len() < distinct.len() {
            "normalise-alike".into()
        } else {
            "distinct".into()
        }
    }
}

pub fn replay(case: &Value) -> Vec<Violation> {
    serde_json::from_value::<Case>(case.clone()).map(|c| eval(&c).0).unwrap_or_default()
}

pub fn run(tier: Tier) -> CheckResult {
    let mut res = CheckResult::new("C12", "exploration");
    let deadline = tier_deadline(tier);
    let one = |name: &str, placement: usize, receiver: usize, emit_to: bool, payload: Payload| Emit { name: name.into(), placement, receiver, emit_to, payload, file: 0, sig: 0 };
    let mut cases: Vec<Case> = vec![];
    // (1) placement x receiver x emit/emit_to (payload: literal)
    for p in 0..PLACEMENTS.len() {
        for r in 0..RECEIVERS.len() {
            for emit_to in [false, true] {
                cases.push(Case { emits: vec![one("state-changed", p, r, emit_to, Payload::Lit("1".into()))], zod: (p + r) % 2 == 0 });
            }
        }
    }
    // (1b) every declaration form of the three documented receiver variables (generic parameters,
    // qualified paths, by value / by reference) x those receivers x emit / emit_to
    for sig in 1..SIGNATURES.len() {
        for r in 0..3 {
            for emit_to in [false, true] {
                for zod in [false, true] {
                    let mut e = one("state-changed", 0, r, emit_to, Payload::Lit("1".into()));
                    e.sig = sig;
                    cases.push(Case { emits: vec![e], zod });
                }
            }
        }
    }
    // (2) payload forms x payload types
    let mut tys: Vec<RTy> = vec![RTy::prim("String"), RTy::prim("i32"), RTy::prim("bool"), RTy::prim("f64"), RTy::prim("u8"), RTy::named("Item"), RTy::named("Kind")];
    let d1 = gen::enumerate_full(&[RTy::prim("String"), RTy::named("Item")], 1);
    tys.extend(d1.into_iter().filter(|t| t.depth() == 1));
    if tier == Tier::Thorough {
        tys.extend(gen::enumerate_full(&[RTy::prim("i32"), RTy::named("Item")], 2).into_iter().filter(|t| t.depth() == 2));
    } else {
        tys.extend(gen::enumerate_full(&[RTy::named("Item")], 2).into_iter().filter(|t| t.depth() == 2));
    }
    // how `Option` directly under a sequence is *rendered* is C05's open finding (`T | null[]`); what
    // C12 decides is which Rust type the payload is taken to have, so those types stay out here
    let c05_owned = TyPred::DirectT("Seq".into(), "Option".into());
    tys.retain(|t| !c05_owned.eval(t));
    let mut seen_t = BTreeSet::new();
    tys.retain(|t| seen_t.insert(t.clone()));
    let mut payloads: Vec<Payload> = vec![
        Payload::Lit("\"hi\"".into()),
        Payload::Lit("1".into()),
        Payload::Lit("1.5".into()),
        Payload::Lit("true".into()),
        Payload::StructExpr,
        Payload::InferredLet,
        Payload::TupleExpr,
        Payload::Call,
        Payload::FieldAccess,
        Payload::MethodCall,
        Payload::Unit,
    ];
    for t in &tys {
        payloads.push(Payload::TypedParam(t.clone()));
        payloads.push(Payload::TypedLet(t.clone()));
        payloads.push(Payload::RefOfParam(t.clone()));
        payloads.push(Payload::CloneOfParam(t.clone()));
    }
    // annotated bindings under every initialiser form, for a leaf, a named type and containers of it
    for t in [RTy::prim("String"), RTy::named("Item"), RTy::vec(RTy::named("Item")), RTy::opt(RTy::named("Kind")), RTy::vec(RTy::prim("i32"))] {
        for i in 0..LET_INITS.len() {
            payloads.push(Payload::TypedLetInit(t.clone(), i));
        }
    }
    for (i, pl) in payloads.iter().enumerate() {
        for (placement, emit_to) in [(0usize, false), (5, true), (13, false)] {
            cases.push(Case { emits: vec![one("data-ready", placement, i % 3, emit_to, pl.clone())], zod: false });
            cases.push(Case { emits: vec![one("data-ready", placement, i % 3, emit_to, pl.clone())], zod: true });
        }
    }
    // (3) event names
    for n in c01::event_names(if tier == Tier::Quick { 2 } else { 3 }) {
        cases.push(Case { emits: vec![one(&n, 13, 0, false, Payload::Lit("1".into()))], zod: n.len() % 2 == 0 });
    }
    // (4) one name emitted 1..3 times over 1..2 files, same and different payloads, mixed emitter / non-emitter receivers
    for n in 2..=3usize {
        for files in 1..=2usize {
            for variant in 0..4 {
                let emits: Vec<Emit> = (0..n)
                    .map(|k| Emit {
                        name: "item-changed".into(),
                        placement: [13, 2, 7][k % 3],
                        receiver: if variant == 3 && k == 1 { 8 } else { k % 3 },
                        emit_to: k == 1,
                        payload: match variant {
                            0 => Payload::StructExpr,
                            1 => [Payload::StructExpr, Payload::Lit("1".into()), Payload::Lit("true".into())][k % 3].clone(),
                            2 => Payload::TypedParam(RTy::vec(RTy::named("Item"))),
                            _ => Payload::Lit("\"x\"".into()),
                        },
                        file: k % files,
                        sig: 0,
                    })
                    .collect();
                cases.push(Case { emits: emits.clone(), zod: false });
                cases.push(Case { emits, zod: true });
            }
        }
    }
    // (4a) two sites whose payloads are spelled differently in Rust but translate to the same type:
    // the listener keeps that type
    for (a, b) in [
        (Payload::Lit("\"hi\"".into()), Payload::TypedParam(RTy::Ref(Box::new(RTy::prim("str"))))),
        (Payload::Lit("\"hi\"".into()), Payload::TypedParam(RTy::prim("String"))),
        (Payload::Lit("0".into()), Payload::TypedParam(RTy::prim("u8"))),
        (Payload::TypedParam(RTy::prim("i64")), Payload::RefOfParam(RTy::prim("f32"))),
        (Payload::TypedParam(RTy::vec(RTy::named("Item"))), Payload::TypedLet(RTy::BTreeSet(Box::new(RTy::named("Item"))))),
        (Payload::TypedParam(RTy::HashMap(Box::new(RTy::prim("String")), Box::new(RTy::prim("i32")))), Payload::CloneOfParam(RTy::BTreeMap(Box::new(RTy::prim("String")), Box::new(RTy::prim("u64"))))),
        (Payload::StructExpr, Payload::TypedParam(RTy::named("Item"))),
    ] {
        for files in 1..=2usize {
            for zod in [false, true] {
                let mut e0 = one("same-shape", 13, 0, false, a.clone());
                let mut e1 = one("same-shape", 2, 1, true, b.clone());
                e0.file = 0;
                e1.file = files - 1;
                cases.push(Case { emits: vec![e0, e1], zod });
            }
        }
    }
    // (4b) interleavings of two and three names (A B A, A B B A, A B C A B ...), over 1..2 files
    for pattern in [vec![0usize, 1, 0], vec![0, 1, 1, 0], vec![0, 1, 2, 0, 1], vec![1, 0, 0, 1, 0], vec![0, 1, 0, 1]] {
        for files in 1..=2usize {
            for differing in [false, true] {
                let names = ["job-progress", "job-done", "job-failed"];
                let emits: Vec<Emit> = pattern
                    .iter()
                    .enumerate()
                    .map(|(k, n)| Emit {
                        name: names[*n].into(),
                        placement: [13, 0, 2, 5][k % 4],
                        receiver: k % 3,
                        emit_to: k % 2 == 1,
                        payload: if differing && k >= 2 { Payload::Lit("true".into()) } else { [Payload::StructExpr, Payload::Lit("1".into()), Payload::Lit("\"s\"".into())][*n].clone() },
                        file: k % files,
                        sig: 0,
                    })
                    .collect();
                cases.push(Case { emits: emits.clone(), zod: false });
                cases.push(Case { emits, zod: true });
            }
        }
    }
    // (4c) state must not leak between functions: an earlier function binds a name to a type, a
    // later one emits an untyped local of the same name (expected: unknown), and vice versa
    for (first, second) in [
        (Payload::TypedParam(RTy::named("Item")), Payload::InferredLet),
        (Payload::TypedLet(RTy::vec(RTy::prim("String"))), Payload::InferredLet),
        (Payload::InferredLet, Payload::TypedParam(RTy::named("Kind"))),
    ] {
        for zod in [false, true] {
            // both payload variables are called v0/p0 in their own function: force the same name
            cases.push(Case { emits: vec![one("first-event", 13, 0, false, first.clone()), one("second-event", 13, 0, false, second.clone())], zod });
        }
    }
    // (5) pairs of distinct names, incl. names that normalise alike
    for (a, b) in [("a-b", "a_b"), ("a:b", "a/b"), ("user-created", "user_created"), ("x", "y"), ("item-added", "item-removed"), ("A-b", "a-B"), ("ab", "a-b")] {
        for zod in [false, true] {
            cases.push(Case { emits: vec![one(a, 13, 0, false, Payload::Lit("1".into())), Emit { file: 0, ..one(b, 13, 1, false, Payload::Lit("true".into())) }], zod });
        }
    }
    // (6) no documented emitter at all
    for r in 8..RECEIVERS.len() {
        cases.push(Case { emits: vec![one("ghost", 13, r, false, Payload::Lit("1".into()))], zod: r % 2 == 0 });
    }
    let results: Vec<Option<(Vec<Violation>, bool, Option<String>)>> = cases.par_iter().map(|c| if deadline.passed() { None } else { Some(eval(c)) }).collect();
    let mut evaluations = 0u64;
    let mut exhaustive = true;
    let mut not_parsable = 0u64;
    let mut nontrivial = 0u64;
    let mut all_v = vec![];
    for r in results {
        match r {
            None => exhaustive = false,
            Some((v, acc, unp)) => {
                evaluations += 1;
                if let Some(u) = unp.as_ref().filter(|u| u.starts_with("ORACLE")) {
                    res.machinery_errors.push(format!("observer does not cover the generated events module: {}", u));
                }
                if unp.is_some() {
                    not_parsable += 1;
                } else if acc {
                    nontrivial += 1;
                }
                all_v.extend(v);
            }
        }
    }
    all_v.sort_by_key(|v| (v.rank, v.key()));
    let mut seen = BTreeSet::new();
    for v in all_v {
        // identity of a finding: class + the dimension that matters for it
        let k = match v.class.as_str() {
            "payload-type" => format!("{}|{}|{}", v.class, v.fields["payload"], v.ty.as_ref().map(|t| t.ctor_name()).unwrap_or_default()),
            "missing-listener" | "extra-listener" => format!("{}|{}|{}|{}", v.class, v.fields["placement"], v.fields["receiver"], v.fields["call"]),
            _ => format!("{}|{}|{}", v.class, v.fields["names"], v.fields["emits"]),
        };
        if seen.insert(k) {
            res.violations.push(v);
        } else {
            res.derived += 1;
        }
    }
    res.coverage.set("evaluations", evaluations);
    res.coverage.set("distinct_nontrivial", nontrivial);
    res.coverage.set("cases", cases.len() as u64);
    res.coverage.set("payload_forms", payloads.len() as u64);
    res.coverage.set("outputs_not_parsable_here", not_parsable);
    res.coverage.set("exhaustive", exhaustive);
    res.coverage.set("samples", json!(cases.iter().step_by((cases.len() / 5).max(1)).take(5).collect::<Vec<_>>()));
    res.coverage.set("rule", "emit sites: 17 placements (statement, let initialiser, if/else/else-if branches, match arms, loop/while/for bodies, nested blocks, under ? and .await, as receiver of .unwrap()/.ok(), combinations) x 11 receiver forms (8 documented emitters, 3 non-emitters) x emit/emit_to; payload forms (literals, struct expression, typed parameter / typed let / &x / x.clone() over the payload type alphabet, inferred let, tuple, call, field access, method call, unit); the event-name alphabet of C01; one name emitted 2..3 times over 1..2 files with equal / different payloads and mixed receivers; pairs of names incl. ones that normalise alike; non-emitters only. Oracle on the parsed events.ts: listeners <-> distinct emitted names is a bijection, listen's literal equals the name, exported names unique, payload Shape = denotation of the evident Rust type else unknown, no events => no events.ts and no re-export.");
    res.assumptions = vec!["`evident` payloads are exactly the forms the statement lists; inferred bindings, tuples, calls, field accesses and method calls other than clone() must be typed unknown".into()];
    res
}
