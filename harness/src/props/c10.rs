//! C10 - Zod schemas describe the same structure as the plain TypeScript declarations.

use crate::core::*;
use crate::gen::{self, Project, RTy};
use crate::modinfo::{DeclKind, ModInfo};
use crate::projects;
use crate::props::{c05, c06};
use crate::run::{run_lib_default, Cfg, LibRun};
use crate::shape::{self, prop_key_string, Shape, ZSchema};
use crate::ts::{self, Member};
use crate::typesite::{self, Site};
use rayon::prelude::*;
use serde_json::{json, Value};
use std::collections::{BTreeMap, BTreeSet};

/// Option is rendered as omittable in schemas (`.optional()` = undefined) and as `| null` in the
/// plain declarations: identify the two absence markers before comparing.
pub fn norm_absent(s: &Shape) -> Shape {
    match s {
        Shape::Null | Shape::Undef => Shape::Null,
        Shape::Arr(e) => Shape::Arr(Box::new(norm_absent(e))),
        Shape::Set(e) => Shape::Set(Box::new(norm_absent(e))),
        Shape::Rec(k, v) => Shape::Rec(Box::new(norm_absent(k)), Box::new(norm_absent(v))),
        Shape::MapObj(k, v) => Shape::MapObj(Box::new(norm_absent(k)), Box::new(norm_absent(v))),
        Shape::Tup(v) => Shape::Tup(v.iter().map(norm_absent).collect()),
        Shape::Union(v) => Shape::union(v.iter().map(norm_absent)),
        Shape::Obj(m, idx) => Shape::Obj(m.iter().map(|(k, (s, o))| (k.clone(), (norm_absent(s), *o))).collect(), idx.as_ref().map(|s| Box::new(norm_absent(s)))),
        Shape::Ref(n, a) => Shape::Ref(n.clone(), a.iter().map(norm_absent).collect()),
        other => other.clone(),
    }
}

fn not_json(s: &Shape) -> Option<String> {
    let mut found = None;
    s.any_node(&|n| match n {
        Shape::Set(_) | Shape::MapObj(..) | Shape::Fn => true,
        Shape::Other(o) if o == "Date" => true,
        _ => false,
    })
    .then(|| found = Some(s.show()));
    found
}

fn schema_fields(run: &LibRun, schema_const: &str) -> Result<BTreeMap<String, ZSchema>, String> {
    let src = run.file("types.ts").ok_or("types.ts not written")?;
    let m = ts::parse_module(src).map_err(|e| format!("SYNTAX types.ts: {}", e))?;
    let mi = ModInfo::of(&m);
    let init = mi.var_init(schema_const).ok_or_else(|| format!("MISSING {} not declared", schema_const))?;
    let z = shape::read_zod(init).map_err(|e| format!("ZOD {}: {}", schema_const, e))?;
    Ok(z.fields)
}

#[derive(Debug, Clone)]
enum V10 {
    Ok,
    Mismatch(Shape, Shape),
    NotJson(String),
    Skip(String),
    Machinery(String),
}

fn judge_batch(site: Site, types: &[RTy], run: &LibRun) -> Vec<V10> {
    if !run.ok() {
        return types.iter().map(|_| V10::Skip(run.status_string())).collect();
    }
    let (schema, prefix) = match site {
        Site::Field => ("HolderSchema", "f"),
        _ => ("CmdParamsSchema", "p"),
    };
    match schema_fields(run, schema) {
        Err(e) if e.starts_with("SYNTAX") || e.starts_with("MISSING") => types.iter().map(|_| V10::Skip(e.clone())).collect(),
        Err(e) => types.iter().map(|_| V10::Machinery(e.clone())).collect(),
        Ok(fields) => types
            .iter()
            .enumerate()
            .map(|(i, t)| match fields.get(&format!("{}{}", prefix, i)) {
                None => V10::Skip(format!("{}{} missing", prefix, i)),
                Some(z) => {
                    let got = norm_absent(&z.shape);
                    let want = norm_absent(&shape::denote(t));
                    if let Some(nj) = not_json(&z.shape) {
                        V10::NotJson(nj)
                    } else if got == want {
                        V10::Ok
                    } else {
                        V10::Mismatch(got, want)
                    }
                }
            })
            .collect(),
    }
}

fn mk(site: Site, ty: &RTy, class: &str, detail: String) -> Violation {
    Violation::new("C10", class, format!("{} as {} (Zod mode): {}", ty.to_rust(), site.name(), detail), json!({"site": site.name(), "ty": ty}))
        .field("site", site.name())
        .with_ty(ty)
        .rank((ty.depth() * 1000 + ty.to_rust().len()) as u64)
}

pub fn replay(case: &Value) -> Vec<Violation> {
    if let Some(name) = case.get("names_project") {
        return names_case(name.as_str().unwrap_or("")).0;
    }
    let Some(site) = case["site"].as_str().and_then(Site::from_name) else { return vec![] };
    let Ok(ty) = serde_json::from_value::<RTy>(case["ty"].clone()) else { return vec![] };
    let p = typesite::build_project(site, std::slice::from_ref(&ty), &gen::leaf_defs());
    let run = run_lib_default(&p, &Cfg::mode(true));
    match judge_batch(site, std::slice::from_ref(&ty), &run).remove(0) {
        V10::Mismatch(g, w) => vec![mk(site, &ty, "schema-shape-mismatch", format!("schema describes {} but the declaration denotes {}", g.show(), w.show()))],
        V10::NotJson(s) => vec![mk(site, &ty, "schema-not-json", format!("schema produces a value that is not JSON-serialisable: {}", s))],
        _ => vec![],
    }
}

/// Declared names and keys must be the same in both modes.
fn declared(run: &LibRun) -> Result<BTreeMap<String, BTreeSet<String>>, String> {
    let src = run.file("types.ts").ok_or("types.ts not written")?;
    let m = ts::parse_module(src).map_err(|e| format!("SYNTAX {}", e))?;
    let mi = ModInfo::of(&m);
    let mut out: BTreeMap<String, BTreeSet<String>> = BTreeMap::new();
    for d in mi.decls.iter().filter(|d| d.exported) {
        match d.kind {
            DeclKind::Interface => {
                let (extends, members) = &mi.interfaces[&d.name];
                let mut keys: BTreeSet<String> = members.iter().filter_map(|m| if let Member::Prop { key, .. } = m { Some(prop_key_string(key)) } else { None }).collect();
                // channel members are plain TypeScript in both modes: their message type is part
                // of the structure compared
                for m in members {
                    if let Member::Prop { key, ty: ts::Type::Ref { name, args }, .. } = m {
                        if name.last().map(|s| s.as_str()) == Some("Channel") && args.len() == 1 {
                            keys.insert(format!("{}: Channel<{}>", prop_key_string(key), shape::from_ts(&args[0]).show()));
                        }
                    }
                }
                for e in extends {
                    if let ts::Type::Ref { args, .. } = e {
                        if let Some(ts::Type::TypeOf(q)) = args.first() {
                            if let Some(init) = q.last().and_then(|n| mi.var_init(n)) {
                                if let Ok(z) = shape::read_zod(init) {
                                    keys.extend(z.fields.keys().cloned());
                                }
                            }
                        }
                    }
                }
                out.insert(d.name.clone(), keys);
            }
            DeclKind::TypeAlias => {
                let t = &mi.aliases[&d.name];
                let keys: BTreeSet<String> = match t {
                    ts::Type::Ref { name, args } if name == &vec!["z".to_string(), "infer".to_string()] => match args.first() {
                        Some(ts::Type::TypeOf(q)) => match q.last().and_then(|n| mi.var_init(n)).map(shape::read_zod) {
                            Some(Ok(z)) => match &z.shape {
                                Shape::Obj(..) => z.fields.keys().cloned().collect(),
                                Shape::Union(alts) => alts.iter().filter_map(|a| if let Shape::Lit(s) = a { Some(format!("\"{}\"", s)) } else { None }).collect(),
                                _ => BTreeSet::new(),
                            },
                            _ => return Err(format!("ZOD cannot read schema behind {}", d.name)),
                        },
                        _ => BTreeSet::new(),
                    },
                    other => match shape::from_ts(other) {
                        Shape::Union(alts) => alts.iter().filter_map(|a| if let Shape::Lit(s) = a { Some(format!("\"{}\"", s)) } else { None }).collect(),
                        Shape::Lit(s) => [format!("\"{}\"", s)].into_iter().collect(),
                        _ => BTreeSet::new(),
                    },
                };
                out.insert(d.name.clone(), keys);
            }
            _ => {}
        }
    }
    Ok(out)
}

/// type mappings that go with a names project
fn names_mappings(name: &str) -> Vec<(String, String)> {
    if name == "mapped" {
        vec![("Uuid".into(), "string".into()), ("Timestamp".into(), "number".into()), ("PathBuf".into(), "string".into()), ("Money".into(), "string".into())]
    } else {
        vec![]
    }
}

fn names_project(name: &str) -> Option<Project> {
    if let Some(b) = name.strip_prefix("base:") {
        return Some(projects::base_by_name(b));
    }
    if name == "events-nested" {
        // types that only an event payload reaches, directly and through fields
        return Some(Project::single(format!(
            "{}use tauri::{{AppHandle, Emitter}};\n#[derive(Serialize, Deserialize)]\npub struct SyncProgress {{ pub step: Step, pub history: Vec<Step>, pub phase: Option<Phase> }}\n#[derive(Serialize, Deserialize)]\npub struct Step {{ pub index: u32, pub phase: Phase }}\n#[derive(Serialize, Deserialize)]\npub enum Phase {{ Start, Done }}\n#[derive(Serialize, Deserialize)]\npub struct Solo {{ pub n: i32 }}\n#[tauri::command]\npub fn anchor(n: i32) -> i32 {{ n }}\npub fn fire(app: &AppHandle, p: SyncProgress, s: Solo) {{\n    app.emit(\"sync-progress\", p).unwrap();\n    app.emit(\"solo\", &s).unwrap();\n}}\n#[derive(Serialize, Deserialize)]\npub struct JobFailure {{ pub id: i32, pub reason: FailureReason }}\n#[derive(Serialize, Deserialize)]\npub enum FailureReason {{ Timeout, Crash }}\n#[derive(Serialize, Deserialize)]\npub struct JobDone {{ pub id: i32 }}\npub fn first_site(app: &AppHandle, d: JobDone) {{ app.emit(\"job-status\", d).unwrap(); }}\npub fn between(app: &AppHandle) {{ app.emit(\"other\", 1).unwrap(); }}\npub fn later_site(app: &AppHandle, f: JobFailure) {{ app.emit(\"job-status\", f).unwrap(); }}\npub fn third_site(app: &AppHandle, s: Solo) {{ app.emit(\"job-status\", s.clone()).unwrap(); }}\n",
            gen::PRELUDE
        )));
    }
    if name == "mapped" {
        return Some(Project::single(format!(
            "{}use tauri::ipc::Channel;\nuse tauri::{{AppHandle, Emitter}};\n#[derive(Serialize, Deserialize)]\npub struct Job {{ pub id: Uuid, pub at: Option<Timestamp>, pub files: Vec<PathBuf>, pub by: HashMap<String, Uuid> }}\n#[tauri::command]\npub fn start(id: Uuid, on_finished: Channel<Uuid>, on_ticks: Channel<Vec<Timestamp>>, on_last: Channel<Option<Timestamp>>, on_job: Channel<Job>) -> Vec<Uuid> {{ vec![] }}\n#[tauri::command]\npub fn paths(at: Timestamp, since: Option<Timestamp>, ids: Vec<Uuid>, by_id: HashMap<String, Uuid>) -> HashMap<String, Vec<PathBuf>> {{ todo!() }}\n#[tauri::command]\npub fn subscribe(on_tick: Channel<Timestamp>) -> bool {{ true }}\n#[tauri::command]\npub fn pay(price: Money, tips: Vec<Money>) -> bool {{ true }}\npub fn fire(app: &AppHandle, ids: Vec<Uuid>) {{ app.emit(\"ids\", ids).unwrap(); }}\n#[derive(Serialize, Deserialize)]\npub struct Money {{ pub amount: i64, pub currency: Currency }}\n#[derive(Serialize, Deserialize)]\npub enum Currency {{ Eur, Usd }}\n#[derive(Serialize, Deserialize)]\npub struct Invoice {{ pub total: Money, pub lines: Vec<Money> }}\n#[tauri::command]\npub fn get_invoice(id: Uuid) -> Invoice {{ todo!() }}\npub fn paid(app: &AppHandle, i: Invoice) {{ app.emit(\"paid\", i).unwrap(); }}\n",
            gen::PRELUDE
        )));
    }
    if let Some(k) = name.strip_prefix("c06:") {
        let mut parts = k.split(':');
        let conv: usize = parts.next()?.parse().ok()?;
        let is_enum = parts.next()? == "enum";
        let its: Vec<c06::ItemSpec> = c06::items().into_iter().filter(|i| i.conv == conv && i.is_enum == is_enum).collect();
        let mut s = String::from(gen::PRELUDE);
        for it in &its {
            s.push_str(&c06::item_source(it));
            s.push_str(&format!("#[tauri::command]\npub fn use_{}(x: {}) -> bool {{ let _ = x; true }}\n\n", it.name.to_lowercase(), it.name));
        }
        return Some(Project::single(s));
    }
    None
}

fn names_case(name: &str) -> (Vec<Violation>, u64) {
    let Some(p) = names_project(name) else { return (vec![], 0) };
    let plain = run_lib_default(&p, &Cfg { type_mappings: names_mappings(name), ..Cfg::mode(false) });
    let zod = run_lib_default(&p, &Cfg { type_mappings: names_mappings(name), ..Cfg::mode(true) });
    if !plain.ok() || !zod.ok() {
        return (vec![], 2);
    }
    let (a, b) = match (declared(&plain), declared(&zod)) {
        (Ok(a), Ok(b)) => (a, b),
        _ => return (vec![], 2),
    };
    let mut vs = vec![];
    if a != b {
        let mut diffs = vec![];
        for k in a.keys().chain(b.keys()).collect::<BTreeSet<_>>() {
            if a.get(k) != b.get(k) {
                diffs.push(format!("{}: plain {:?} vs zod {:?}", k, a.get(k), b.get(k)));
            }
        }
        vs.push(
            Violation::new("C10", "declared-names-or-keys-differ", format!("project {}: {}", name, diffs.join("; ")), json!({"names_project": name}))
                .field("project", name.to_string()),
        );
    }
    // under a mapping table: every key that an interface of the plain run and the schema of the same
    // name in the Zod run have in common admits the same values
    if name == "mapped" {
        if let (Some(Ok(pm)), Some(Ok(zm))) = (plain.file("types.ts").map(ts::parse_module), zod.file("types.ts").map(ts::parse_module)) {
            let (pi, zi) = (ModInfo::of(&pm), ModInfo::of(&zm));
            let mut compared = 0;
            for (iname, (_, members)) in &pi.interfaces {
                let Some(init) = zi.var_init(&format!("{}Schema", iname)) else { continue };
                let Ok(z) = shape::read_zod(init) else { continue };
                for m in members {
                    let Member::Prop { key, ty, .. } = m else { continue };
                    let k = prop_key_string(key);
                    let Some(zf) = z.fields.get(&k) else { continue };
                    compared += 1;
                    let (a, b) = (norm_absent(&shape::from_ts(ty)), norm_absent(&zf.shape));
                    if a != b {
                        vs.push(
                            Violation::new("C10", "key-shape-differs-between-modes", format!("project {}: {}.{} is {} in the plain declaration but the Zod schema admits {}", name, iname, k, a.show(), b.show()), json!({"names_project": name}))
                                .field("project", name.to_string())
                                .field("key", format!("{}.{}", iname, k)),
                        );
                    }
                }
            }
            if compared == 0 {
                vs.push(Violation::new("C10", "ORACLE", format!("project {}: no key could be compared between the modes", name), json!({"names_project": name})).field("project", name.to_string()));
            }
        }
    }
    (vs, 2)
}

pub fn run(tier: Tier) -> CheckResult {
    let mut res = CheckResult::new("C10", "exploration");
    let deadline = tier_deadline(tier);
    let types = c05::enumerate(tier);
    let defs = gen::leaf_defs();
    let mut work: Vec<(Site, Vec<RTy>)> = vec![];
    for s in [Site::Field, Site::Param] {
        for chunk in types.chunks(s.batch_size()) {
            work.push((s, chunk.to_vec()));
        }
    }
    let results: Vec<Option<(Site, Vec<(RTy, V10)>, u64)>> = work
        .par_iter()
        .map(|(s, chunk)| {
            if deadline.passed() {
                return None;
            }
            let p = typesite::build_project(*s, chunk, &defs);
            let run = run_lib_default(&p, &Cfg::mode(true));
            let mut evals = 1;
            let mut v = judge_batch(*s, chunk, &run);
            if chunk.len() > 1 && v.iter().all(|x| matches!(x, V10::Skip(_) | V10::Machinery(_))) {
                v = chunk
                    .iter()
                    .map(|t| {
                        evals += 1;
                        let p = typesite::build_project(*s, std::slice::from_ref(t), &defs);
                        judge_batch(*s, std::slice::from_ref(t), &run_lib_default(&p, &Cfg::mode(true))).remove(0)
                    })
                    .collect();
            }
            Some((*s, chunk.iter().cloned().zip(v).collect(), evals))
        })
        .collect();
    let mut evaluations = 0u64;
    let mut judged = 0u64;
    let mut skipped = 0u64;
    let mut exhaustive = true;
    let mut failing: BTreeSet<(Site, RTy)> = BTreeSet::new();
    let mut bad: Vec<(Site, RTy, V10)> = vec![];
    let mut nontrivial = 0u64;
    for r in results {
        let Some((s, v, e)) = r else {
            exhaustive = false;
            continue;
        };
        evaluations += e;
        for (t, x) in v {
            match &x {
                V10::Ok => {
                    judged += 1;
                    if t.depth() >= 1 {
                        nontrivial += 1;
                    }
                }
                V10::Mismatch(..) | V10::NotJson(_) => {
                    judged += 1;
                    failing.insert((s, t.clone()));
                    bad.push((s, t, x));
                }
                V10::Skip(_) => {
                    skipped += 1;
                    failing.insert((s, t.clone()));
                }
                V10::Machinery(m) => res.machinery_errors.push(m.clone()),
            }
        }
    }
    res.machinery_errors.sort();
    res.machinery_errors.dedup();
    res.machinery_errors.truncate(5);
    for (s, t, x) in bad {
        if t.children().iter().any(|c| failing.contains(&(s, (*c).clone()))) {
            res.derived += 1;
            continue;
        }
        match x {
            V10::Mismatch(g, w) => res.violations.push(mk(s, &t, "schema-shape-mismatch", format!("schema describes {} but the declaration denotes {}", g.show(), w.show()))),
            V10::NotJson(n) => res.violations.push(mk(s, &t, "schema-not-json", format!("schema produces a value that is not JSON-serialisable: {}", n))),
            _ => {}
        }
    }
    // names / keys across modes
    let mut name_projects: Vec<String> = vec!["base:b0".into(), "base:b1".into(), "base:b2".into(), "events-nested".into(), "mapped".into()];
    for conv in 0..c06::conventions().len() {
        if !c06::enum_only(conv) {
            name_projects.push(format!("c06:{}:struct", conv));
        }
        name_projects.push(format!("c06:{}:enum", conv));
    }
    let nres: Vec<(Vec<Violation>, u64)> = name_projects.par_iter().map(|n| names_case(n)).collect();
    for (v, e) in nres {
        evaluations += e;
        res.violations.extend(v);
    }
    res.coverage.set("evaluations", evaluations);
    res.coverage.set("schemas_judged", judged);
    res.coverage.set("not_evaluable_here", skipped);
    res.coverage.set("distinct_nontrivial", nontrivial);
    res.coverage.set("type_expressions", types.len() as u64);
    res.coverage.set("name_key_projects", name_projects.len() as u64);
    res.coverage.set("exhaustive", exhaustive);
    res.coverage.set("samples", json!(types.iter().step_by((types.len() / 6).max(1)).take(6).map(|t| t.to_rust()).collect::<Vec<_>>()));
    res.coverage.set("rule", "[round 7: under a mapping table the shape of every key an interface of the plain run shares with the schema of the same name in the Zod run is compared; the mapped project has a channel-only command and mapped types as parameters] C05's type enumeration placed at the field and parameter sites, generated in Zod mode; the field / parameter schema is read back from the parsed z.object(...) initialiser into a Shape and compared with the reference denotation of the Rust type under the property's relation (null and undefined identified, coerce ignored; z.set / z.map / functions are never equal to arrays / records and are flagged as not JSON-serialisable); plus: for the three base projects, a project whose types are reached only through event payloads, a project with mapped types at parameter / field / channel / return / event positions (channel message types included in the comparison) and the C06 item groups (one per container setting and item kind), the declared names and their key sets (interfaces vs z.infer aliases, literal unions vs z.enum) must be identical in both modes. Non-trivial = composite type whose schema was read and agreed.");
    res.assumptions = vec!["the plain side of the relation is the reference denotation (whether the plain rendering itself matches it is C05's business)".into()];
    res
}
