//! C08 - the cache never leaves stale bindings: explicit-state BFS over edit/run histories,
//! every transition executes the real binary (CLI) or the real build-script path.

use crate::core::*;
use crate::gen::Project;
use crate::projects::{self, Edit};
use crate::run::{self, strip_timestamp};
use crate::sbx::{self, FileCfg, RunOpts, Seam};
use rayon::prelude::*;
use serde::{Deserialize, Serialize};
use serde_json::{json, Value};
use std::collections::{BTreeMap, BTreeSet, HashMap};
use std::sync::Mutex;

#[derive(Debug, Clone, Serialize, Deserialize, PartialEq, Eq, Hash, PartialOrd, Ord)]
pub enum Action {
    /// toggle source edit #i of the base project's edit alphabet
    Edit(String),
    /// toggle a configuration setting
    Cfg(String),
    /// delete a generated file behind the tool's back
    DeleteOut(String),
    /// truncate a generated file behind the tool's back
    TruncateOut(String),
    /// a generated file is replaced by a symbolic link whose target no longer exists (the file was
    /// moved to a shared place that was then cleaned up): the name is still listed, the file is gone
    DanglingOut(String),
    /// no change at all (pure re-run)
    Nop,
    /// the inner action, followed by a FORCED run (--force on the CLI, force: true in the file on
    /// the build path) instead of a plain one
    Forced(Box<Action>),
}

impl Action {
    pub fn name(&self) -> String {
        match self {
            Action::Edit(n) => format!("edit:{}", n),
            Action::Cfg(n) => format!("cfg:{}", n),
            Action::DeleteOut(f) => format!("delete:{}", f),
            Action::TruncateOut(f) => format!("truncate:{}", f),
            Action::DanglingOut(f) => format!("dangling-link:{}", f),
            Action::Nop => "nop".into(),
            Action::Forced(inner) => format!("forced:{}", inner.name()),
        }
    }
}

#[derive(Debug, Clone)]
pub struct HState {
    /// names of applied edits, in application order
    pub applied: Vec<String>,
    pub cfg: FileCfg,
    /// output directory: name -> raw bytes (including .typecache)
    pub out: BTreeMap<String, Vec<u8>>,
    pub history: Vec<Action>,
}

pub fn project_of(base: &Project, alphabet: &[Edit], applied: &[String]) -> Result<Project, String> {
    let mut p = base.clone();
    for name in applied {
        let e = alphabet
            .iter()
            .find(|e| &e.name == name)
            .ok_or_else(|| format!("unknown edit {}", name))?;
        p = e.apply(&p)?;
    }
    Ok(p)
}

pub fn cfg_toggle(cfg: &FileCfg, which: &str) -> FileCfg {
    let mut c = cfg.clone();
    match which {
        "mode" => c.zod = !c.zod,
        "mapping" => {
            if c.type_mappings.is_empty() {
                c.type_mappings = vec![("Progress".into(), "number".into())];
            } else {
                c.type_mappings.clear();
            }
        }
        "mapping2" => {
            let e = ("Status".to_string(), "string".to_string());
            if c.type_mappings.contains(&e) {
                c.type_mappings.retain(|x| x != &e);
            } else {
                c.type_mappings.push(e);
            }
        }
        "visualize" => c.visualize_deps = !c.visualize_deps,
        "param_case" => {
            c.default_parameter_case = if c.default_parameter_case.is_none() {
                Some("snake_case".into())
            } else {
                None
            }
        }
        "field_case" => {
            c.default_field_case = if c.default_field_case.is_none() {
                Some("camelCase".into())
            } else {
                None
            }
        }
        _ => {}
    }
    c
}

pub const CFG_TOGGLES: [&str; 6] = ["mode", "mapping", "mapping2", "param_case", "field_case", "visualize"];
pub const GEN_FILES: [&str; 6] = ["types.ts", "commands.ts", "events.ts", "index.ts", "dependency-graph.txt", "dependency-graph.dot"];

/// content standing for "a symbolic link to a file that does not exist" in a recorded output directory
pub const DANGLING: &[u8] = b"\0\0dangling symbolic link\0\0";

pub fn materialize(root: &std::path::Path, project: &Project, st: &HState) {
    sbx::write_sources(root, project, &st.cfg);
    let od = sbx::out_dir(root, &st.cfg);
    if !st.out.is_empty() {
        std::fs::create_dir_all(&od).unwrap();
        for (n, b) in &st.out {
            if b.as_slice() == DANGLING {
                std::fs::create_dir_all(root.join("moved-away")).unwrap();
                std::os::unix::fs::symlink(root.join("moved-away").join(n), od.join(n)).unwrap();
            } else {
                std::fs::write(od.join(n), b).unwrap();
            }
        }
    }
}

pub fn read_raw_out(dir: &std::path::Path) -> BTreeMap<String, Vec<u8>> {
    let mut m = BTreeMap::new();
    if let Ok(rd) = std::fs::read_dir(dir) {
        for e in rd.flatten() {
            if e.path().is_file() {
                m.insert(
                    e.file_name().to_string_lossy().to_string(),
                    std::fs::read(e.path()).unwrap_or_default(),
                );
            }
        }
    }
    m
}

pub fn stripped(out: &BTreeMap<String, Vec<u8>>) -> BTreeMap<String, String> {
    out.iter()
        .map(|(k, v)| (k.clone(), strip_timestamp(&String::from_utf8_lossy(v))))
        .collect()
}

fn state_key(project: &Project, st: &HState) -> String {
    let mut s = String::new();
    for (n, c) in &project.files {
        s.push_str(n);
        s.push('\0');
        s.push_str(c);
        s.push('\0');
    }
    s.push_str(&st.cfg.to_json());
    for (n, c) in stripped(&st.out) {
        s.push_str(&n);
        s.push('\0');
        s.push_str(&c);
        s.push('\0');
    }
    stable_hash(&s)
}

pub struct StepOutcome {
    pub next: Option<HState>,
    pub exit_ok: bool,
    pub status: String,
    pub stdout: String,
    pub discrepancies: Vec<String>,
    pub took_cache_hit: bool,
}

/// Apply `action` to `st` and run one non-forced generation through `seam`.
pub fn step(
    base: &Project,
    alphabet: &[Edit],
    st: &HState,
    action: &Action,
    seam: Seam,
    refs: &Mutex<HashMap<String, Option<BTreeMap<String, String>>>>,
) -> Option<StepOutcome> {
    let mut next = st.clone();
    let (action_applied, forced) = match action {
        Action::Forced(inner) => (&**inner, true),
        other => (other, false),
    };
    match action_applied {
        Action::Forced(_) => return None,
        Action::Edit(name) => {
            if let Some(pos) = next.applied.iter().position(|n| n == name) {
                next.applied.remove(pos);
            } else {
                next.applied.push(name.clone());
            }
        }
        Action::Cfg(which) => next.cfg = cfg_toggle(&st.cfg, which),
        Action::DeleteOut(f) => {
            next.out.remove(f)?;
        }
        Action::TruncateOut(f) => {
            let b = next.out.get_mut(f)?;
            if b.is_empty() {
                return None;
            }
            b.truncate(b.len() / 2);
        }
        Action::DanglingOut(f) => {
            let b = next.out.get_mut(f)?;
            *b = DANGLING.to_vec();
        }
        Action::Nop => {}
    }
    let project = project_of(base, alphabet, &next.applied).ok()?;
    next.history.push(action.clone());
    let sb = run::Sandbox::new();
    materialize(&sb.root, &project, &next);
    if forced && seam == Seam::Build {
        let mut c = next.cfg.clone();
        c.force = Some(true);
        std::fs::write(sb.root.join("typegen.json"), c.to_json()).unwrap();
    }
    let r = sbx::run_generate(&sb.root, seam, &RunOpts { force_flag: forced && seam == Seam::Cli, ..Default::default() });
    next.out = read_raw_out(&sbx::out_dir(&sb.root, &next.cfg));
    let exit_ok = r.success();
    let took_cache_hit = r.stdout.contains("up to date");
    let mut discrepancies = vec![];
    if exit_ok {
        let key = {
            let mut s = String::new();
            for (n, c) in &project.files {
                s.push_str(n);
                s.push('\0');
                s.push_str(c);
                s.push('\0');
            }
            s.push_str(&next.cfg.to_json());
            stable_hash(&s)
        };
        let cached = refs.lock().unwrap().get(&key).cloned();
        let reference = match cached {
            Some(r) => r,
            None => {
                let r = sbx::reference_output(&project, &next.cfg);
                refs.lock().unwrap().insert(key, r.clone());
                r
            }
        };
        match reference {
            Some(reference) => {
                discrepancies = sbx::diff_against_reference(&stripped(&next.out), &reference);
            }
            None => discrepancies.push("reference (forced) generation failed although the non-forced run reported success".into()),
        }
    }
    Some(StepOutcome {
        next: Some(next),
        exit_ok,
        status: r.status_string(),
        stdout: r.stdout,
        discrepancies,
        took_cache_hit,
    })
}

/// the actions of the deeper plan (names as printed by Action::name)
const CORE_ACTIONS: [&str; 16] = ["edit:skip_add", "edit:variant_add", "edit:field_add", "edit:event_add", "edit:move_type", "edit:rename_command", "edit:blank_line_before_command", "edit:add_unreachable_type", "cfg:visualize", "cfg:mode", "delete:types.ts", "dangling-link:types.ts", "nop", "forced:cfg:mode", "forced:edit:field_add", "forced:nop"];

fn actions_for(alphabet: &[Edit], st: &HState, with_cfg: bool) -> Vec<Action> {
    let mut v: Vec<Action> = alphabet.iter().map(|e| Action::Edit(e.name.clone())).collect();
    if with_cfg {
        for c in CFG_TOGGLES {
            v.push(Action::Cfg(c.to_string()));
        }
    }
    for f in GEN_FILES {
        if st.out.contains_key(f) {
            v.push(Action::DeleteOut(f.to_string()));
        }
    }
    for f in ["types.ts", "index.ts"] {
        if st.out.contains_key(f) {
            v.push(Action::DanglingOut(f.to_string()));
        }
    }
    v.push(Action::Nop);
    // forced runs after a mode switch, after an edit, after nothing
    v.push(Action::Forced(Box::new(Action::Cfg("mode".into()))));
    v.push(Action::Forced(Box::new(Action::Edit("field_add".into()))));
    v.push(Action::Forced(Box::new(Action::Cfg("visualize".into()))));
    v.push(Action::Forced(Box::new(Action::Nop)));
    v
}

fn replay_doc(base: &str, seam: Seam, zod: bool, history: &[Action]) -> Value {
    json!({"base": base, "seam": seam.name(), "zod": zod, "history": history})
}

fn make_violation(base: &str, seam: Seam, zod: bool, history: &[Action], o: &StepOutcome) -> Violation {
    let last = history.last().map(|a| a.name()).unwrap_or_default();
    let prefix: Vec<String> = history[..history.len().saturating_sub(1)].iter().map(|a| a.name()).collect();
    Violation::new(
        "C08",
        "stale-output",
        format!(
            "history [{}] via {} ({} mode, base {}): run reported success ({}; cache hit: {}) but output is not current: {}",
            history.iter().map(|a| a.name()).collect::<Vec<_>>().join(" ; run ; ") + " ; run",
            seam.name(),
            if zod { "zod" } else { "none" },
            base,
            o.status,
            o.took_cache_hit,
            o.discrepancies.join("; ")
        ),
        replay_doc(base, seam, zod, history),
    )
    .field("action", last)
    .field("prefix", prefix.join(">"))
    .field("seam", seam.name())
    .field("mode", if zod { "zod" } else { "none" })
    .field("base", base)
    .rank(history.len() as u64)
}

pub fn replay(case: &Value) -> Vec<Violation> {
    let base_name = case["base"].as_str().unwrap_or("b0").to_string();
    let seam = if case["seam"] == "build" { Seam::Build } else { Seam::Cli };
    let zod = case["zod"].as_bool().unwrap_or(false);
    let history: Vec<Action> = serde_json::from_value(case["history"].clone()).unwrap_or_default();
    let base = projects::base_by_name(&base_name);
    let alphabet = projects::edits_for(&base_name);
    let refs = Mutex::new(HashMap::new());
    let mut st = initial_state(&base, zod, seam);
    let Some(mut st0) = st.take() else { return vec![] };
    let mut out = vec![];
    let alternating = case["alternating"].as_bool().unwrap_or(false);
    for (i, a) in history.iter().enumerate() {
        let level = i + 1;
        let run_seam = if alternating && level % 2 == 1 { if seam == Seam::Cli { Seam::Build } else { Seam::Cli } } else { seam };
        let Some(o) = step(&base, &alphabet, &st0, a, run_seam, &refs) else { return out };
        if o.exit_ok && !o.discrepancies.is_empty() && i + 1 == history.len() {
            out.push(make_violation(&base_name, seam, zod, &history[..=i], &o));
        }
        st0 = o.next.unwrap();
    }
    out
}

fn initial_state(base: &Project, zod: bool, seam: Seam) -> Option<HState> {
    let st = HState {
        applied: vec![],
        cfg: FileCfg { zod, ..Default::default() },
        out: BTreeMap::new(),
        history: vec![],
    };
    let sb = run::Sandbox::new();
    materialize(&sb.root, base, &st);
    let r = sbx::run_generate(&sb.root, seam, &RunOpts::default());
    if !r.success() {
        return None;
    }
    let mut s = st;
    s.out = read_raw_out(&sbx::out_dir(&sb.root, &s.cfg));
    Some(s)
}

pub fn run(tier: Tier) -> CheckResult {
    let mut res = CheckResult::new("C08", "model_checking");
    let deadline = tier_deadline(tier);
    let (bases, depth): (Vec<&str>, usize) = match tier {
        Tier::Quick => (vec!["b0", "b1"], 2),
        Tier::Thorough => (vec!["b0", "b1", "b2"], 3),
    };
    let refs: Mutex<HashMap<String, Option<BTreeMap<String, String>>>> = Mutex::new(HashMap::new());
    let mut states_total = 0u64;
    let mut transitions = 0u64;
    let mut cache_hits = 0u64;
    let mut rejected = 0u64;
    let mut max_depth = 0usize;
    let mut derived = 0u64;
    let mut violations: Vec<Violation> = vec![];
    let mut outcomes: BTreeSet<String> = BTreeSet::new();
    let mut samples: Vec<Value> = vec![];
    let mut completed: Vec<Value> = vec![];
    let mut exhaustive = true;
    let mut nontrivial_keys: BTreeSet<String> = BTreeSet::new();

    'outer: for base_name in &bases {
        let base = projects::base_by_name(base_name);
        let alphabet = projects::edits_for(base_name);
        // sanity: every edit must apply to the base project, otherwise the alphabet is broken
        for e in &alphabet {
            if let Err(m) = e.apply(&base) {
                res.machinery_errors.push(format!("edit alphabet: {}", m));
            }
        }
        for zod in [false, true] {
            // seam plans: all runs through the CLI, all through the build path, and (b0 only)
            // alternating between the two, starting with either
            // (seam, alternating?, core alphabet only?)
            let mut plans: Vec<(Seam, bool, bool)> = if *base_name == "b0" { vec![(Seam::Cli, false, false), (Seam::Build, false, false), (Seam::Cli, true, false), (Seam::Build, true, false)] } else { vec![(Seam::Cli, false, false), (Seam::Build, false, false)] };
            if *base_name == "b0" {
                // one level deeper over a core alphabet of actions that interact with each other
                // (reachability, visualisation, mode, renames, moves, file loss)
                plans.push((Seam::Cli, false, true));
                if tier == Tier::Thorough {
                    plans.push((Seam::Build, true, true));
                }
            }
            for (seam, alternating, core) in plans {
                // the build path at depth 3 is run only for b0 to bound cost
                let d = if core { depth + 1 } else if (seam == Seam::Build || alternating) && tier == Tier::Thorough && *base_name != "b0" { 2 } else if alternating { if tier == Tier::Thorough { 3 } else { 2 } } else { depth };
                let Some(s0) = initial_state(&base, zod, seam) else {
                    res.machinery_errors.push(format!("initial generation failed for {} {} {}", base_name, zod, seam.name()));
                    continue;
                };
                let mut seen: BTreeSet<String> = BTreeSet::new();
                seen.insert(state_key(&base, &s0));
                states_total += 1;
                let mut frontier = vec![s0];
                let mut bad_first_actions: BTreeSet<String> = BTreeSet::new();
                for level in 1..=d {
                    if deadline.passed() {
                        exhaustive = false;
                        completed.push(json!({"base":base_name,"zod":zod,"seam":seam.name(),"completed_depth":level-1,"stopped":"deadline"}));
                        break 'outer;
                    }
                    let work: Vec<(usize, Action)> = frontier
                        .iter()
                        .enumerate()
                        .flat_map(|(i, st)| actions_for(&alphabet, st, true).into_iter().filter(|a| !core || CORE_ACTIONS.contains(&a.name().as_str())).map(move |a| (i, a)))
                        .collect();
                    let results: Vec<(usize, Action, Option<StepOutcome>)> = work
                        .into_par_iter()
                        .map(|(i, a)| {
                            if deadline.passed() {
                                return (i, a, None);
                            }
                            // the initial generation used `seam`; with an alternating plan run k uses
                            // the other seam for odd k
                            let run_seam = if alternating && level % 2 == 1 { if seam == Seam::Cli { Seam::Build } else { Seam::Cli } } else { seam };
                            let o = step(&base, &alphabet, &frontier[i], &a, run_seam, &refs);
                            (i, a, o)
                        })
                        .collect();
                    let mut next_frontier = vec![];
                    for (_i, a, o) in results {
                        let Some(o) = o else { continue };
                        transitions += 1;
                        max_depth = max_depth.max(level);
                        let st = o.next.clone().unwrap();
                        if o.took_cache_hit {
                            cache_hits += 1;
                        }
                        outcomes.insert(format!("{}|hit={}|bad={}", o.status, o.took_cache_hit, !o.discrepancies.is_empty()));
                        if !o.exit_ok {
                            rejected += 1;
                            continue;
                        }
                        if matches!(a, Action::Edit(_) | Action::Cfg(_) | Action::DeleteOut(_) | Action::TruncateOut(_) | Action::DanglingOut(_) | Action::Forced(_)) {
                            nontrivial_keys.insert(format!("{}|{}|{}|{}", base_name, zod, seam.name(), st.history.iter().map(|x| x.name()).collect::<Vec<_>>().join(">")));
                        }
                        if !o.discrepancies.is_empty() {
                            if level == 1 {
                                bad_first_actions.insert(a.name());
                                violations.push(make_violation(base_name, seam, zod, &st.history, &o).field("alternating", alternating.to_string()).field("plan", if core { "core-deep" } else { "full" }).with_replay_field("alternating", json!(alternating)));
                            } else if bad_first_actions.contains(&a.name()) {
                                derived += 1;
                            } else {
                                violations.push(make_violation(base_name, seam, zod, &st.history, &o).field("alternating", alternating.to_string()).field("plan", if core { "core-deep" } else { "full" }).with_replay_field("alternating", json!(alternating)));
                            }
                            continue; // bad states are not expanded
                        }
                        let k = state_key(&project_of(&base, &alphabet, &st.applied).unwrap(), &st);
                        if seen.insert(k) {
                            states_total += 1;
                            if samples.len() < 4 && level == d {
                                samples.push(json!({"base":base_name,"seam":seam.name(),"zod":zod,"history":st.history.iter().map(|x| x.name()).collect::<Vec<_>>(),"cache_hit_on_last_run":o.took_cache_hit}));
                            }
                            next_frontier.push(st);
                        }
                    }
                    frontier = next_frontier;
                }
                completed.push(json!({"base":base_name,"zod":zod,"seam":seam.name(),"alternating_seams":alternating,"core_alphabet_only":core,"completed_depth":d,"edit_alphabet":alphabet.len(),"cfg_toggles":CFG_TOGGLES.len()}));
            }
        }
    }
    if samples.is_empty() {
        samples.push(json!({"history":["edit:field_type","nop"],"note":"no deep sample recorded"}));
    }
    res.violations = violations;
    res.derived = derived;
    res.coverage.set("states", states_total);
    res.coverage.set("transitions", transitions);
    res.coverage.set("max_depth", max_depth as u64);
    res.coverage.set("traces_validated_against_impl", transitions);
    res.coverage.set("evaluations", transitions);
    res.coverage.set("distinct_nontrivial", nontrivial_keys.len() as u64);
    res.coverage.set("runs_taking_cache_hit_branch", cache_hits);
    res.coverage.set("runs_rejected_nonzero_exit", rejected);
    res.coverage.set("reference_generations", refs.lock().unwrap().len() as u64);
    res.coverage.set("distinct_outcomes", outcomes.len() as u64);
    res.coverage.set("outcomes", json!(outcomes));
    res.coverage.set("completed", json!(completed));
    res.coverage.set("samples", json!(samples));
    res.coverage.set("exhaustive", exhaustive);
    res.coverage.set("rule", "[round 7: action dangling-link:<file> - a generated file replaced by a symbolic link whose target is gone] explicit-state BFS: state = (sources variant, configuration, output directory minus timestamp line, cache file); transition = one action (toggle a source edit / configuration setting, delete a generated file, or nothing) followed by one non-forced run - or, for four designated actions, a FORCED run - of the real binary or build-script path under the identity schedule; invariant in every state reached by a successful run: every file of a forced reference generation exists with equal content; states violating the invariant are reported and not expanded; plans: the full action alphabet to the tier's depth through one seam, the same with alternating seams (b0), and one level deeper over a twelve-action core alphabet (b0); a history is non-trivial when it contains at least one edit/config/file action and its last run exited 0");
    res.assumptions = vec![
        "all runs use the hooks-on binary under the identity schedule so that byte comparison is meaningful (order nondeterminism is C13's business)".into(),
        "edit alphabet: one representative per output-affecting edit class (projects.rs)".into(),
    ];
    res
}
