//! C17 - a failed run is never remembered as up to date. Fault enumeration: for every mutating
//! syscall the run issues on the output directory (recorded with strace), inject an I/O error or a
//! crash (SIGKILL) exactly there, then run the recovery suffix and compare with a fresh generation.

use crate::core::*;
use crate::gen::Project;
use crate::projects::{self, Edit};
use crate::run::{self};
use crate::sbx::{self, FileCfg, RunOpts, Seam};
use rayon::prelude::*;
use serde::{Deserialize, Serialize};
use serde_json::{json, Value};
use std::collections::{BTreeMap, BTreeSet};
use std::path::Path;

#[derive(Debug, Clone, Serialize, Deserialize, PartialEq)]
pub struct Event {
    /// "openat" or "write"
    pub syscall: String,
    /// 1-based index among the main thread's calls of that syscall
    pub index: usize,
    /// output file the call addresses (basename)
    pub file: String,
    /// for openat: opened for writing?
    pub for_write: bool,
}

/// Parse an strace log (trace=openat,write) into the events on files of `out_dir_marker`.
pub fn parse_events(log: &str, out_marker: &str) -> Vec<Event> {
    let mut main_tid: Option<&str> = None;
    let mut n_open = 0usize;
    let mut n_write = 0usize;
    let mut n_unlink = [0usize; 2];
    let mut fdmap: BTreeMap<String, String> = BTreeMap::new();
    let mut evs = vec![];
    for line in log.lines() {
        let mut parts = line.splitn(2, char::is_whitespace);
        let tid = parts.next().unwrap_or("");
        let rest = parts.next().unwrap_or("").trim_start();
        if main_tid.is_none() {
            main_tid = Some(tid);
        }
        if Some(tid) != main_tid {
            continue;
        }
        if let Some(r) = rest.strip_prefix("openat(") {
            n_open += 1;
            let path = r.split('"').nth(1).unwrap_or("");
            let ret = r.rsplit(" = ").next().unwrap_or("").trim();
            let fd = ret.split_whitespace().next().unwrap_or("");
            if path.contains(out_marker) {
                let mut base = path.rsplit('/').next().unwrap_or("").to_string();
                if base.starts_with(".write_test_generated_") {
                    base = ".write_test_generated_PID".to_string();
                }
                let for_write = r.contains("O_WRONLY") || r.contains("O_RDWR") || r.contains("O_CREAT");
                if fd.parse::<i32>().is_ok_and(|f| f >= 0) {
                    fdmap.insert(fd.to_string(), base.clone());
                }
                evs.push(Event { syscall: "openat".into(), index: n_open, file: base, for_write });
            } else if fd.parse::<i32>().is_ok_and(|f| f >= 0) {
                fdmap.remove(fd);
            }
        } else if rest.starts_with("unlink(") || rest.starts_with("unlinkat(") {
            let is_at = rest.starts_with("unlinkat(");
            n_unlink[is_at as usize] += 1;
            let path = rest.split('"').nth(1).unwrap_or("");
            if path.contains(out_marker) {
                let mut base = path.rsplit('/').next().unwrap_or("").to_string();
                if base.starts_with(".write_test_generated_") {
                    base = ".write_test_generated_PID".to_string();
                }
                evs.push(Event { syscall: if is_at { "unlinkat".into() } else { "unlink".into() }, index: n_unlink[is_at as usize], file: base, for_write: false });
            }
        } else if let Some(r) = rest.strip_prefix("write(") {
            n_write += 1;
            let fd = r.split(',').next().unwrap_or("").trim();
            if let Some(file) = fdmap.get(fd) {
                evs.push(Event { syscall: "write".into(), index: n_write, file: file.clone(), for_write: true });
            }
        }
    }
    evs
}

#[derive(Debug, Clone, Copy, PartialEq, Eq, Serialize, Deserialize, PartialOrd, Ord)]
pub enum Fault {
    Eio,
    Enospc,
    Eacces,
    Kill,
}
impl Fault {
    fn inject(self, syscall: &str, when: usize) -> String {
        match self {
            Fault::Eio => format!("inject={}:error=EIO:when={}", syscall, when),
            Fault::Enospc => format!("inject={}:error=ENOSPC:when={}", syscall, when),
            Fault::Eacces => format!("inject={}:error=EACCES:when={}", syscall, when),
            Fault::Kill => format!("inject={}:signal=KILL:when={}", syscall, when),
        }
    }
}

#[derive(Debug, Clone, Serialize, Deserialize)]
pub struct Scenario {
    pub base: String,
    pub zod: bool,
    pub seam: String,
    pub visualize: bool,
    /// None: fault on the very first run; Some(edit): generate, apply edit, fault on the next run
    /// ("@none": generate, no edit)
    pub pre_edit: Option<String>,
    /// the faulty run is a forced one (--force on the CLI, force: true in the file on the build
    /// path); the recovery runs are plain
    #[serde(default)]
    pub forced: bool,
}

impl Scenario {
    fn faulty_opts(&self) -> RunOpts {
        RunOpts { force_flag: self.forced && self.seam == "cli", ..Default::default() }
    }
    /// configuration file for the faulty run / for every other run
    fn write_cfg(&self, root: &Path, cfg: &FileCfg, faulty: bool) {
        let mut c = cfg.clone();
        c.force = if faulty && self.forced && self.seam != "cli" { Some(true) } else { None };
        std::fs::write(root.join("typegen.json"), c.to_json()).unwrap();
    }
}

#[derive(Debug, Clone, Serialize, Deserialize)]
pub struct FaultCase {
    pub scenario: Scenario,
    pub event: Event,
    pub fault: Fault,
    /// "direct": non-forced run after the fault; "revert": revert the edit first, then run
    pub recovery: String,
}

fn seam_of(s: &str) -> Seam {
    if s == "build" {
        Seam::Build
    } else {
        Seam::Cli
    }
}

fn prepare(sc: &Scenario, root: &Path) -> Option<(Project, Project, FileCfg)> {
    let base = projects::base_by_name(&sc.base);
    let cfg = FileCfg { zod: sc.zod, visualize_deps: sc.visualize, ..Default::default() };
    sbx::write_sources(root, &base, &cfg);
    let mut current = base.clone();
    if let Some(name) = &sc.pre_edit {
        let r = sbx::run_generate(root, seam_of(&sc.seam), &RunOpts::default());
        if !r.success() {
            return None;
        }
        if name != "@none" {
            let alphabet: Vec<Edit> = projects::edits_for(&sc.base);
            let e = alphabet.iter().find(|e| &e.name == name)?;
            current = e.apply(&base).ok()?;
            sbx::write_sources(root, &current, &cfg);
        }
    }
    Some((base, current, cfg))
}

fn strace_args(log: &Path, inject: Option<String>) -> Vec<String> {
    let mut v = vec!["-f".to_string(), "-o".to_string(), log.to_string_lossy().to_string(), "-e".to_string(), "trace=openat,write,unlink,unlinkat".to_string()];
    if let Some(i) = inject {
        v.push("-e".into());
        v.push(i);
    }
    v
}

pub fn record(sc: &Scenario) -> Option<Vec<Event>> {
    let sb = run::Sandbox::new();
    let (_, _, cfg) = prepare(sc, &sb.root)?;
    sc.write_cfg(&sb.root, &cfg, true);
    let log = sb.path("strace.log");
    let r = sbx::run_generate(&sb.root, seam_of(&sc.seam), &RunOpts { strace: Some(strace_args(&log, None)), ..sc.faulty_opts() });
    if !r.success() {
        return None;
    }
    let text = std::fs::read_to_string(&log).ok()?;
    Some(parse_events(&text, "/gen/"))
}

pub struct FaultOutcome {
    pub fired: bool,
    pub violations: Vec<Violation>,
    pub outcome: String,
}

pub fn eval_fault(fc: &FaultCase) -> FaultOutcome {
    let sc = &fc.scenario;
    let seam = seam_of(&sc.seam);
    let sb = run::Sandbox::new();
    let Some((base, current, cfg)) = prepare(sc, &sb.root) else {
        return FaultOutcome { fired: false, violations: vec![], outcome: "prepare-failed".into() };
    };
    let log = sb.path("strace.log");
    sc.write_cfg(&sb.root, &cfg, true);
    let r = sbx::run_generate(
        &sb.root,
        seam,
        &RunOpts { strace: Some(strace_args(&log, Some(fc.fault.inject(&fc.event.syscall, fc.event.index)))), ..sc.faulty_opts() },
    );
    sc.write_cfg(&sb.root, &cfg, false);
    let text = std::fs::read_to_string(&log).unwrap_or_default();
    let _ = std::fs::remove_file(&log);
    // did the fault hit the planned call?
    let fired = match fc.fault {
        Fault::Kill => text.contains("killed by SIGKILL") && r.signal == Some(9),
        _ => text.lines().any(|l| {
            l.contains("(INJECTED)")
                && l.contains(&format!("{}(", fc.event.syscall))
                && (fc.event.syscall == "write"
                    || fc.event.syscall.starts_with("unlink")
                    || l.contains(&format!("/{}\"", fc.event.file))
                    || (fc.event.file == ".write_test_generated_PID" && l.contains("/.write_test_generated_")))
        }),
    };
    if !fired {
        return FaultOutcome { fired: false, violations: vec![], outcome: format!("not-fired:{:?}@{}#{}:{} seam={} pre={:?} -> {}", fc.fault, fc.event.syscall, fc.event.index, fc.event.file, sc.seam, sc.pre_edit, r.status_string()) };
    }
    let mk = |class: &str, detail: String| {
        Violation::new("C17", class, detail, serde_json::to_value(fc).unwrap())
            .field("scenario", sc.pre_edit.clone().map(|e| format!("after-edit:{}", e)).unwrap_or("first-run".into()))
            .field("forced", sc.forced.to_string())
            .field("fault", format!("{:?}", fc.fault))
            .field("target", format!("{}:{}", fc.event.syscall, fc.event.file))
            .field("recovery", fc.recovery.clone())
            .field("seam", sc.seam.clone())
            .field("mode", cfg.mode_name())
    };
    let mut vs = vec![];
    let binding_or_graph = fc.event.file != ".typecache";
    if fc.fault != Fault::Kill && binding_or_graph && fc.event.for_write && r.success() {
        vs.push(mk(
            "exit-zero-on-failed-write",
            format!("{:?} injected at {} of {} but the run exited 0; stdout tail: {}", fc.fault, fc.event.syscall, fc.event.file, r.stdout.lines().rev().take(2).collect::<Vec<_>>().join(" | ")),
        ));
    }
    // recovery suffix
    let target_project = if fc.recovery == "revert" {
        sbx::write_sources(&sb.root, &base, &cfg);
        sc.write_cfg(&sb.root, &cfg, false);
        base.clone()
    } else {
        current.clone()
    };
    let rec = sbx::run_generate(&sb.root, seam, &RunOpts::default());
    let out = run::read_out_dir(&sbx::out_dir(&sb.root, &cfg));
    let outcome = format!("{:?}@{}:{} -> {} ; recovery({}) -> {}", fc.fault, fc.event.syscall, fc.event.file, r.status_string(), fc.recovery, rec.status_string());
    if !rec.success() {
        vs.push(mk("recovery-run-failed", format!("recovery run exited {}: {}", rec.status_string(), rec.stderr.trim())));
    } else if let Some(reference) = sbx::reference_output(&target_project, &cfg) {
        let d = sbx::diff_against_reference(&out, &reference);
        if !d.is_empty() {
            vs.push(mk(
                "stale-after-recovery",
                format!(
                    "{} ; faulty run ({:?} at {} of {}, {}) ; {} ; non-forced run reported success (cache hit: {}) but output is not a fresh generation: {}",
                    sc.pre_edit.clone().map(|e| format!("generate ; edit {}", e)).unwrap_or("fresh project".into()),
                    fc.fault,
                    fc.event.syscall,
                    fc.event.file,
                    r.status_string(),
                    if fc.recovery == "revert" { "revert the edit" } else { "no change" },
                    rec.stdout.contains("up to date"),
                    d.join("; ")
                ),
            ));
        }
    }
    FaultOutcome { fired: true, violations: vs, outcome }
}

// ----- short writes: RLIMIT_FSIZE -----

#[derive(Debug, Clone, Serialize, Deserialize)]
pub struct LimitCase {
    pub scenario: Scenario,
    /// RLIMIT_FSIZE of the faulty run, in bytes
    pub limit: u64,
    pub recovery: String,
    /// run the faulty generation through `init` (CLI only)
    #[serde(default)]
    pub via_init: bool,
}

/// faulty run under a file-size limit (the kernel cuts the write short, the next one fails), then
/// the recovery suffix without the limit
pub fn eval_limit(lc: &LimitCase) -> (Vec<Violation>, String) {
    let sc = &lc.scenario;
    let seam = seam_of(&sc.seam);
    let sb = run::Sandbox::new();
    let Some((base, current, cfg)) = prepare(sc, &sb.root) else { return (vec![], "prepare-failed".into()) };
    let Some(reference) = sbx::reference_output(&current, &cfg) else { return (vec![], "no-reference".into()) };
    let largest = reference.values().map(|t| t.len() as u64).max().unwrap_or(0);
    sc.write_cfg(&sb.root, &cfg, true);
    let r = if lc.via_init {
        std::fs::write(sb.root.join("src-tauri/tauri.conf.json"), "{\"productName\":\"demo\"}").unwrap();
        let mut args: Vec<String> = vec!["tauri-typegen".into(), "init".into(), "-p".into(), "./src-tauri".into(), "-g".into(), cfg.output_path.clone(), "-v".into(), cfg.mode_name().into()];
        if sc.visualize {
            args.push("--visualize-deps".into());
        }
        run::spawn(run::Spawn { program: run::cli_binary(), args, cwd: &sb.root, schedule_env: None, trace_file: None, strace: None, hash_seed: None, fsize_limit: Some(lc.limit) })
    } else {
        sbx::run_generate(&sb.root, seam, &RunOpts { fsize_limit: Some(lc.limit), ..sc.faulty_opts() })
    };
    sc.write_cfg(&sb.root, &cfg, false);
    let mk = |class: &str, detail: String| {
        Violation::new("C17", class, detail, json!({"limit_case": lc}))
            .field("scenario", sc.pre_edit.clone().map(|e| format!("after-edit:{}", e)).unwrap_or("first-run".into()))
            .field("forced", sc.forced.to_string())
            .field("fault", "FileSizeLimit")
            .field("target", if lc.limit < largest { "below-largest-file" } else { "above-all-files" })
            .field("recovery", lc.recovery.clone())
            .field("seam", if lc.via_init { "init".to_string() } else { sc.seam.clone() })
            .field("mode", cfg.mode_name())
    };
    let mut vs = vec![];
    // some binding / graph file does not fit: the run must say so
    if lc.limit < largest && r.success() {
        vs.push(mk("exit-zero-on-failed-write", format!("file size limit {} bytes (largest generated file: {} bytes) but the run exited 0; stdout tail: {}", lc.limit, largest, r.stdout.lines().rev().take(2).collect::<Vec<_>>().join(" | "))));
    }
    let target_project = if lc.recovery == "revert" {
        sbx::write_sources(&sb.root, &base, &cfg);
        sc.write_cfg(&sb.root, &cfg, false);
        base.clone()
    } else {
        current.clone()
    };
    let rec = sbx::run_generate(&sb.root, seam, &RunOpts::default());
    let out = run::read_out_dir(&sbx::out_dir(&sb.root, &cfg));
    let outcome = format!("limit{}{} -> {} ; recovery({}) -> {}", if lc.limit < largest { "<largest" } else { ">=largest" }, if lc.via_init { " via init" } else { "" }, r.status_string(), lc.recovery, rec.status_string());
    if !rec.success() {
        vs.push(mk("recovery-run-failed", format!("recovery run exited {}: {}", rec.status_string(), rec.stderr.trim())));
    } else if let Some(reference) = sbx::reference_output(&target_project, &cfg) {
        let d = sbx::diff_against_reference(&out, &reference);
        if !d.is_empty() {
            vs.push(mk("stale-after-recovery", format!("faulty run under a {}-byte file size limit ({}) ; {} ; non-forced run reported success (cache hit: {}) but output is not a fresh generation: {}", lc.limit, r.status_string(), if lc.recovery == "revert" { "revert the edit" } else { "no change" }, rec.stdout.contains("up to date"), d.join("; "))));
        }
    }
    (vs, outcome)
}

// ----- unusable output paths -----

#[derive(Debug, Clone, Serialize, Deserialize)]
pub struct PathCase {
    pub kind: String,
    pub zod: bool,
    pub seam: String,
}

pub fn eval_path(pc: &PathCase) -> (Vec<Violation>, String) {
    let seam = seam_of(&pc.seam);
    let sb = run::Sandbox::new();
    let base = projects::base_b0();
    let cfg = FileCfg { zod: pc.zod, ..Default::default() };
    sbx::write_sources(&sb.root, &base, &cfg);
    let od = sb.path("gen");
    let obstacle: std::path::PathBuf;
    match pc.kind.as_str() {
        "outdir-is-file" => {
            std::fs::write(&od, "i am a file").unwrap();
            obstacle = od.clone();
        }
        "types-is-dir" => {
            std::fs::create_dir_all(od.join("types.ts")).unwrap();
            obstacle = od.join("types.ts");
        }
        "index-is-dir" => {
            std::fs::create_dir_all(od.join("index.ts")).unwrap();
            obstacle = od.join("index.ts");
        }
        "cache-is-dir" => {
            std::fs::create_dir_all(od.join(".typecache")).unwrap();
            obstacle = od.join(".typecache");
        }
        _ => return (vec![], "unknown".into()),
    }
    let r = sbx::run_generate(&sb.root, seam, &RunOpts::default());
    let mk = |class: &str, detail: String| {
        Violation::new("C17", class, detail, json!({"path_case": pc}))
            .field("scenario", format!("unusable:{}", pc.kind))
            .field("seam", pc.seam.clone())
            .field("mode", cfg.mode_name())
    };
    let mut vs = vec![];
    if pc.kind != "cache-is-dir" && r.success() {
        vs.push(mk("exit-zero-on-failed-write", format!("{}: run exited 0 although bindings could not be written", pc.kind)));
    }
    // remove the obstacle, recover
    if obstacle.is_dir() {
        let _ = std::fs::remove_dir_all(&obstacle);
    } else {
        let _ = std::fs::remove_file(&obstacle);
    }
    let rec = sbx::run_generate(&sb.root, seam, &RunOpts::default());
    let out = run::read_out_dir(&od);
    if !rec.success() {
        vs.push(mk("recovery-run-failed", format!("after removing the obstacle the run exited {}", rec.status_string())));
    } else if let Some(reference) = sbx::reference_output(&base, &cfg) {
        let d = sbx::diff_against_reference(&out, &reference);
        if !d.is_empty() {
            vs.push(mk("stale-after-recovery", format!("{}: after removing the obstacle a non-forced run reported success but: {}", pc.kind, d.join("; "))));
        }
    }
    (vs, format!("{}:{}->{}", pc.kind, r.status_string(), rec.status_string()))
}

pub fn replay(case: &Value) -> Vec<Violation> {
    if let Some(lc) = case.get("limit_case") {
        return serde_json::from_value::<LimitCase>(lc.clone()).map(|l| eval_limit(&l).0).unwrap_or_default();
    }
    if let Some(pc) = case.get("path_case") {
        return serde_json::from_value::<PathCase>(pc.clone()).map(|p| eval_path(&p).0).unwrap_or_default();
    }
    serde_json::from_value::<FaultCase>(case.clone()).map(|f| eval_fault(&f).violations).unwrap_or_default()
}

pub fn run(tier: Tier) -> CheckResult {
    let mut res = CheckResult::new("C17", "fault_enumeration");
    let deadline = tier_deadline(tier);
    let mut scenarios: Vec<Scenario> = vec![];
    let (bases, edits): (Vec<&str>, Vec<&str>) = match tier {
        Tier::Quick => (vec!["b0"], vec!["field_type", "add_command", "event_payload"]),
        Tier::Thorough => (vec!["b0", "b2"], vec!["field_type", "add_command", "return_type", "event_payload", "variant_add", "skip_add", "event_add", "remove_channel"]),
    };
    for base in &bases {
        for zod in [false, true] {
            for seam in ["cli", "build"] {
                for visualize in [false, true] {

                    scenarios.push(Scenario { base: base.to_string(), zod, seam: seam.into(), visualize, pre_edit: None, forced: false });
                    if *base == "b0" {
                        for e in &edits {
                            scenarios.push(Scenario { base: base.to_string(), zod, seam: seam.into(), visualize, pre_edit: Some(e.to_string()), forced: false });
                        }
                        // forced faulty runs over a valid cache: after no edit, and after an edit
                        if !visualize {
                            scenarios.push(Scenario { base: base.to_string(), zod, seam: seam.into(), visualize, pre_edit: Some("@none".into()), forced: true });
                            scenarios.push(Scenario { base: base.to_string(), zod, seam: seam.into(), visualize, pre_edit: Some(edits[0].to_string()), forced: true });
                        }
                    } else {
                        scenarios.push(Scenario { base: base.to_string(), zod, seam: seam.into(), visualize, pre_edit: Some("param_type".into()), forced: false });
                    }
                }
            }
        }
    }
    // record
    let recorded: Vec<(Scenario, Option<Vec<Event>>)> = scenarios.par_iter().map(|s| (s.clone(), record(s))).collect();
    let mut cases: Vec<FaultCase> = vec![];
    let mut fault_points = 0u64;
    for (sc, evs) in &recorded {
        let Some(evs) = evs else {
            res.machinery_errors.push(format!("recording run failed for {:?}", sc));
            continue;
        };
        if evs.iter().filter(|e| e.for_write).count() < 4 {
            res.machinery_errors.push(format!("recording found only {} write events for {:?}", evs.len(), sc));
        }
        for ev in evs {
            fault_points += 1;
            let faults: Vec<Fault> = if ev.syscall.starts_with("unlink") {
                vec![Fault::Eacces, Fault::Kill]
            } else if ev.syscall == "openat" {
                vec![Fault::Eio, Fault::Enospc, Fault::Eacces, Fault::Kill]
            } else {
                vec![Fault::Eio, Fault::Enospc, Fault::Kill]
            };
            for f in faults {
                cases.push(FaultCase { scenario: sc.clone(), event: ev.clone(), fault: f, recovery: "direct".into() });
                if sc.pre_edit.is_some() {
                    cases.push(FaultCase { scenario: sc.clone(), event: ev.clone(), fault: f, recovery: "revert".into() });
                }
            }
        }
    }
    let results: Vec<Option<FaultOutcome>> = cases.par_iter().map(|c| if deadline.passed() { None } else { Some(eval_fault(c)) }).collect();
    let mut fired = 0u64;
    let mut not_fired = 0u64;
    let mut outcomes: BTreeSet<String> = BTreeSet::new();
    let mut exhaustive = true;
    let mut all_v = vec![];
    for r in results {
        match r {
            None => exhaustive = false,
            Some(o) => {
                if o.fired {
                    fired += 1;
                } else {
                    not_fired += 1;
                }
                // generalise the outcome string (drop nothing: they are already small)
                outcomes.insert(o.outcome);
                all_v.extend(o.violations);
            }
        }
    }
    if not_fired > 0 {
        res.machinery_errors.push(format!("{} planned faults did not hit the planned syscall (strace counting diverged)", not_fired));
    }
    // short writes: every scenario under file-size limits derived from the sizes of the files it
    // writes (before and after the scenario's edit): 0, 1, and for every size s: s/2, s-1, s, s+1
    let per_scenario: Vec<Vec<LimitCase>> = scenarios
        .par_iter()
        .map(|sc| {
            let sb = run::Sandbox::new();
            let Some((base, current, cfg)) = prepare(sc, &sb.root) else { return vec![] };
            let mut sizes: BTreeSet<u64> = BTreeSet::new();
            for p in [&base, &current] {
                if let Some(r) = sbx::reference_output(p, &cfg) {
                    sizes.extend(r.values().map(|t| t.len() as u64));
                }
            }
            let mut limits: BTreeSet<u64> = [0u64, 1, 1 << 20].into_iter().collect();
            for s in sizes {
                limits.extend([s / 2, s.saturating_sub(1), s, s + 1]);
            }
            let mut v = vec![];
            for limit in limits {
                v.push(LimitCase { scenario: sc.clone(), limit, recovery: "direct".into(), via_init: false });
                if sc.pre_edit.as_deref().is_some_and(|e| e != "@none") {
                    v.push(LimitCase { scenario: sc.clone(), limit, recovery: "revert".into(), via_init: false });
                }
                // the same fault when the generation is started through `init`
                if sc.seam == "cli" && sc.pre_edit.is_none() {
                    v.push(LimitCase { scenario: sc.clone(), limit, recovery: "direct".into(), via_init: true });
                }
            }
            v
        })
        .collect();
    let lcs: Vec<LimitCase> = per_scenario.into_iter().flatten().collect();
    let lres: Vec<Option<(Vec<Violation>, String)>> = lcs.par_iter().map(|c| if deadline.passed() { None } else { Some(eval_limit(c)) }).collect();
    for r in lres {
        match r {
            None => exhaustive = false,
            Some((v, o)) => {
                outcomes.insert(o);
                all_v.extend(v);
            }
        }
    }
    // unusable paths
    let mut pcs = vec![];
    for kind in ["outdir-is-file", "types-is-dir", "index-is-dir", "cache-is-dir"] {
        for zod in [false, true] {
            for seam in ["cli", "build"] {
                pcs.push(PathCase { kind: kind.into(), zod, seam: seam.into() });
            }
        }
    }
    let pres: Vec<(Vec<Violation>, String)> = pcs.par_iter().map(eval_path).collect();
    for (v, o) in pres {
        outcomes.insert(o);
        all_v.extend(v);
    }
    res.violations = all_v;
    res.coverage.set("evaluations", (cases.len() + pcs.len() + lcs.len()) as u64);
    res.coverage.set("distinct_nontrivial", fired + pcs.len() as u64 + lcs.len() as u64);
    res.coverage.set("file_size_limit_cases", lcs.len() as u64);
    res.coverage.set("file_size_limit_outcomes", json!(outcomes.iter().filter(|o| o.starts_with("limit")).collect::<Vec<_>>()));
    res.coverage.set("fault_points", fault_points);
    res.coverage.set("faulty_runs_where_fault_fired", fired);
    res.coverage.set("faulty_runs_not_fired", not_fired);
    res.coverage.set("scenarios", scenarios.len() as u64);
    res.coverage.set("unusable_path_cases", pcs.len() as u64);
    res.coverage.set("distinct_outcomes", outcomes.len() as u64);
    res.coverage.set("outcomes_sample", json!(outcomes.iter().take(40).collect::<Vec<_>>()));
    res.coverage.set("not_fired", json!(outcomes.iter().filter(|o| o.starts_with("not-fired")).collect::<Vec<_>>()));
    res.coverage.set("exhaustive", exhaustive);
    res.coverage.set("samples", json!(cases.iter().step_by((cases.len() / 4).max(1)).take(4).collect::<Vec<_>>()));
    res.coverage.set("rule", "for each scenario (base project x mode x seam x visualisation x {first run, run after an output-changing edit, FORCED run over a valid cache with and without a preceding edit}) a recording run under strace lists every openat/write the main thread issues on files of the output directory; for EVERY such call and every fault kind (errno injection, SIGKILL on entry - a SIGKILL at the write leaves the file truncated by the preceding open) one faulty run of the real binary/build path, followed by the recovery suffix (plain non-forced run; or revert the edit then run); oracles: non-zero exit when a binding/graph write failed, recovery run succeeds and the output equals a fresh forced generation. Short writes: every scenario again under file-size limits derived from the sizes s of the files it writes before and after its edit (0, 1, s/2, s-1, s, s+1) (RLIMIT_FSIZE with SIGXFSZ ignored: the kernel cuts the write short and the next one fails with EFBIG), through generate, the build path and - for first runs - `init`; a limit below the largest generated file must give a non-zero exit, and the same recovery oracle applies. A faulty run is non-trivial when strace confirms the fault hit the planned call (size-limit runs: always).");
    res.assumptions = vec![
        "errno / SIGKILL injection assumes one write(2) per file; short writes are covered separately through RLIMIT_FSIZE".into(),
        "strace per-thread syscall counting is stable between the recording run and the faulty run (verified per run through the INJECTED marker)".into(),
    ];
    res
}
