//! C18 - a type mapping replaces the mapped type everywhere and nothing else (differential).

use crate::core::*;
use crate::gen::{self, RTy};
use crate::modinfo::ModInfo;
use crate::run::{run_lib_default, Cfg, LibRun};
use crate::shape::{self, Shape};
use crate::ts;
use crate::typesite::{self, Extracted, Site, SITES};
use rayon::prelude::*;
use serde::{Deserialize, Serialize};
use serde_json::{json, Value};
use std::collections::{BTreeMap, BTreeSet};

pub const SOURCES: [&str; 4] = ["PathBuf", "Uuid", "DateTime<Utc>", "UserId"];
pub const TARGETS: [&str; 3] = ["string", "number", "boolean"];

#[derive(Debug, Clone, Serialize, Deserialize)]
pub struct Case {
    pub site: String,
    pub ty: RTy,
    /// (source name, target)
    pub mappings: Vec<(String, String)>,
    pub zod: bool,
}

fn target_shape(t: &str) -> Shape {
    match t {
        "string" => Shape::Str,
        "number" => Shape::Num,
        "boolean" => Shape::Bool,
        other => Shape::Other(other.into()),
    }
}

fn source_shape(n: &str) -> Shape {
    ts::parse_type(n).map(|t| shape::from_ts(&t)).unwrap_or(Shape::Other(n.into()))
}

fn subst_node(s: &Shape, from: &Shape, to: &Shape) -> Shape {
    if s == from {
        return to.clone();
    }
    match s {
        Shape::Arr(e) => Shape::Arr(Box::new(subst_node(e, from, to))),
        Shape::Set(e) => Shape::Set(Box::new(subst_node(e, from, to))),
        Shape::Rec(k, v) => Shape::Rec(Box::new(subst_node(k, from, to)), Box::new(subst_node(v, from, to))),
        Shape::Tup(v) => Shape::Tup(v.iter().map(|x| subst_node(x, from, to)).collect()),
        Shape::Union(v) => Shape::union(v.iter().map(|x| subst_node(x, from, to))),
        Shape::Ref(n, a) => Shape::Ref(n.clone(), a.iter().map(|x| subst_node(x, from, to)).collect()),
        other => other.clone(),
    }
}

fn defs() -> String {
    // UserId is also a project-defined serde struct; Other is an unrelated type that must stay; so
    // must the project types whose names merely start or end with a mapped name
    format!(
        "{}#[derive(Debug, Clone, Serialize, Deserialize)]\npub struct UserId {{ pub raw: u64 }}\n#[derive(Debug, Clone, Serialize, Deserialize)]\npub struct Other {{ pub n: i32, pub tag: String }}\n#[tauri::command]\npub fn keep_other(o: Other) -> Option<Other> {{ Some(o) }}\n\
#[derive(Debug, Clone, Serialize, Deserialize)]\npub struct UuidHolder {{ pub n: i32 }}\n#[derive(Debug, Clone, Serialize, Deserialize)]\npub struct PathBufList {{ pub n: i32 }}\n#[derive(Debug, Clone, Serialize, Deserialize)]\npub struct UserIdentity {{ pub n: i32 }}\n#[derive(Debug, Clone, Serialize, Deserialize)]\npub struct MyUuid {{ pub n: i32 }}\n#[derive(Debug, Clone, Serialize, Deserialize)]\npub struct DateTimeRange {{ pub n: i32 }}\n\
#[derive(Debug, Clone, Serialize, Deserialize)]\npub struct Lookalikes {{ pub a: UuidHolder, pub b: Vec<PathBufList>, pub c: Option<UserIdentity>, pub d: HashMap<String, MyUuid>, pub e: (DateTimeRange, i32) }}\n#[tauri::command]\npub fn keep_lookalikes(l: Lookalikes, u: UuidHolder) -> Vec<MyUuid> {{ vec![] }}\n",
        gen::leaf_defs()
    )
}

fn base_names(n: &str) -> Vec<String> {
    // identifiers that must not survive: the head of the mapped name
    vec![n.split('<').next().unwrap_or(n).to_string()]
}

fn ident_occurs(text: &str, ident: &str) -> bool {
    let bytes = text.as_bytes();
    let mut start = 0;
    while let Some(pos) = text[start..].find(ident) {
        let i = start + pos;
        let before_ok = i == 0 || !(bytes[i - 1].is_ascii_alphanumeric() || bytes[i - 1] == b'_');
        let j = i + ident.len();
        let after_ok = j >= bytes.len() || !(bytes[j].is_ascii_alphanumeric() || bytes[j] == b'_');
        if before_ok && after_ok {
            return true;
        }
        start = i + ident.len();
    }
    false
}

fn schema_shape(run: &LibRun, site: Site) -> Result<Shape, String> {
    let src = run.file("types.ts").ok_or("types.ts not written")?;
    let m = ts::parse_module(src).map_err(|e| format!("SYNTAX {}", e))?;
    let mi = ModInfo::of(&m);
    let (schema, key) = match site {
        Site::Field => ("HolderSchema", "f0"),
        _ => ("CmdParamsSchema", "p0"),
    };
    let init = mi.var_init(schema).ok_or_else(|| format!("{} not declared", schema))?;
    let z = shape::read_zod(init)?;
    z.fields.get(key).map(|f| f.shape.clone()).ok_or_else(|| format!("{}.{} missing", schema, key))
}

/// (file, declaration name or printed item for unnamed items) -> printed declaration
fn decl_map(run: &LibRun) -> Result<BTreeMap<(String, String), String>, String> {
    let mut out = BTreeMap::new();
    for (f, src) in &run.files {
        if !f.ends_with(".ts") {
            continue;
        }
        let m = ts::parse_module(src).map_err(|e| format!("SYNTAX {}: {}", f, e))?;
        for item in &m.items {
            let printed = format!("{:?}", item);
            let name = match item {
                ts::Item::Interface { name, .. } | ts::Item::TypeAlias { name, .. } => format!("type {}", name),
                ts::Item::Func { func, .. } => format!("fn {}", func.name.clone().unwrap_or_default()),
                ts::Item::Var { decls, .. } => format!("var {:?}", decls.first().map(|d| &d.pattern)),
                _ => printed.clone(),
            };
            out.insert((f.clone(), name), printed);
        }
    }
    Ok(out)
}

pub fn eval(case: &Case) -> (Vec<Violation>, bool, Option<String>) {
    let Some(site) = Site::from_name(&case.site) else { return (vec![], false, None) };
    let project = typesite::build_project(site, std::slice::from_ref(&case.ty), &defs());
    let unmapped = run_lib_default(&project, &Cfg::mode(case.zod));
    let mapped_cfg = Cfg { zod: case.zod, type_mappings: case.mappings.clone(), ..Default::default() };
    let mapped = run_lib_default(&project, &mapped_cfg);
    if !mapped.ok() || !unmapped.ok() {
        return (vec![], false, None);
    }
    let mut vs = vec![];
    let mk = |class: &str, detail: String| {
        Violation::new("C18", class, format!("{} at {} ({} mode) with mapping {:?}: {}", case.ty.to_rust(), case.site, if case.zod { "zod" } else { "none" }, case.mappings, detail), serde_json::to_value(case).unwrap())
            .field("site", case.site.clone())
            .field("mode", if case.zod { "zod" } else { "none" })
            .field("mapped", case.mappings.iter().map(|(a, _)| a.clone()).collect::<Vec<_>>().join("+"))
            .field("targets", case.mappings.iter().map(|(_, b)| b.clone()).collect::<Vec<_>>().join("+"))
            .with_ty(&case.ty)
            .rank((case.ty.depth() * 1000 + case.ty.to_rust().len() + case.mappings.len() * 10) as u64)
    };
    let mut unparsable = None;
    // (1) position-aligned shapes
    if site.has_ts_text(case.zod) {
        let em = typesite::extract(site, &mapped, 1).remove(0);
        let eu = typesite::extract(site, &unmapped, 1).remove(0);
        match (em, eu) {
            (Extracted::Type(tm), Extracted::Type(tu)) => {
                let mut want = shape::from_ts(&tu);
                for (n, t) in &case.mappings {
                    want = subst_node(&want, &source_shape(n), &target_shape(t));
                }
                let got = shape::from_ts(&tm);
                if got != want {
                    vs.push(mk("mapped-shape", format!("mapped output denotes {} but unmapped[N := M] is {}", got.show(), want.show())));
                }
            }
            (Extracted::FileSyntaxError(e), _) | (_, Extracted::FileSyntaxError(e)) => unparsable = Some(e),
            (Extracted::Unsupported(e), _) | (_, Extracted::Unsupported(e)) => unparsable = Some(e),
            (a, b) => vs.push(mk("mapped-shape", format!("type not found: mapped {:?} / unmapped {:?}", a, b))),
        }
    } else if case.ty.any_node(&|n| n.ctor_matches("Result") || n.ctor_matches("Set")) {
        // Result- and set-typed fields / parameters in Zod mode are C10's (recorded) findings: not judged here
    } else {
        // Zod mode, field / param: the schema must be the schema of M
        match (schema_shape(&mapped, site), schema_shape(&unmapped, site)) {
            (Ok(gm), Ok(gu)) => {
                let mut want = gu.clone();
                for (n, t) in &case.mappings {
                    // in the unmapped schema N appears as `NSchema`
                    let head = n.split('<').next().unwrap_or(n).to_string();
                    let from = if n.contains('<') { Shape::Ref(n.clone(), vec![]) } else { Shape::Ref(head, vec![]) };
                    want = subst_node(&want, &from, &target_shape(t));
                }
                if crate::props::c10::norm_absent(&gm) != crate::props::c10::norm_absent(&want) {
                    vs.push(mk("mapped-schema", format!("mapped schema describes {} but unmapped[N := M] is {}", gm.show(), want.show())));
                }
            }
            (Err(e), _) | (_, Err(e)) if e.starts_with("SYNTAX") => unparsable = Some(e),
            (Err(e), _) => {
                // generic mapped names cannot be read as `XSchema` identifiers in the unmapped run;
                // judge the mapped side against the reference denotation instead
                let _ = e;
            }
            (Ok(gm), Err(_)) => {
                let mut want = shape::denote(&case.ty);
                for (n, t) in &case.mappings {
                    want = subst_node(&want, &Shape::Ref(n.clone(), vec![]), &target_shape(t));
                    want = subst_node(&want, &source_shape(n), &target_shape(t));
                }
                if crate::props::c10::norm_absent(&gm) != crate::props::c10::norm_absent(&want) {
                    vs.push(mk("mapped-schema", format!("mapped schema describes {} but the mapped denotation is {}", gm.show(), want.show())));
                }
            }
        }
    }
    // (2) the mapped names are neither declared nor referenced anywhere
    let names: Vec<String> = case.mappings.iter().flat_map(|(n, _)| base_names(n)).collect();
    for (f, src) in &mapped.files {
        if !f.ends_with(".ts") {
            continue;
        }
        // strip comments (the header mentions nothing user-defined, but be precise)
        let code: String = src.lines().filter(|l| !l.trim_start().starts_with('*') && !l.trim_start().starts_with("/*") && !l.trim_start().starts_with("//")).collect::<Vec<_>>().join("\n");
        for n in &names {
            if ident_occurs(&code, n) || ident_occurs(&code, &format!("{}Schema", n)) {
                vs.push(mk("mapped-name-survives", format!("{} still mentions {}", f, n)));
            }
        }
    }
    // (3) every declaration that does not mention the mapped names WITHOUT the mapping must be
    // there, unchanged, WITH it; and the mapping introduces no new declarations
    match (decl_map(&mapped), decl_map(&unmapped)) {
        (Ok(with), Ok(without)) => {
            let mut diffs = vec![];
            for (k, text) in &without {
                if names.iter().any(|n| ident_occurs(text, n) || ident_occurs(text, &format!("{}Schema", n)) || ident_occurs(&k.1, &format!("{}Schema", n))) {
                    continue;
                }
                match with.get(k) {
                    None => diffs.push(format!("{} {} disappears with the mapping", k.0, k.1)),
                    Some(t) if t != text => diffs.push(format!("{} {} changes with the mapping", k.0, k.1)),
                    _ => {}
                }
            }
            for k in with.keys() {
                if !without.contains_key(k) {
                    diffs.push(format!("{} {} exists only with the mapping", k.0, k.1));
                }
            }
            if !diffs.is_empty() {
                vs.push(mk("unrelated-declaration-changed", diffs.join("; ")));
            }
        }
        (Err(e), _) | (_, Err(e)) => {
            if unparsable.is_none() {
                unparsable = Some(e);
            }
        }
    }
    (vs, true, unparsable)
}

/// Through the real binary with the table in a configuration FILE (the loaders are not on the
/// in-process path): a key and a spelling of the mapped type in the sources; no generated file may
/// mention the mapped name.
pub fn eval_cli(key: &str, spelling: &str, zod: bool, tauri_conf: bool) -> Vec<Violation> {
    use crate::sbx::{self, FileCfg, RunOpts, Seam};
    let src = format!(
        "{}use tauri::ipc::Channel;\nuse tauri::{{AppHandle, Emitter}};\n#[derive(Serialize, Deserialize)]\npub struct Holder {{ pub f: {sp}, pub many: Vec<{sp}>, pub opt: Option<{sp}>, pub by: HashMap<String, {sp}> }}\n#[tauri::command]\npub fn cmd(p: {sp}, h: Holder, ch: Channel<{sp}>) -> Vec<{sp}> {{ todo!() }}\npub fn fire(app: &AppHandle, e: {sp}) {{ app.emit(\"ev\", e).unwrap(); }}\n",
        gen::PRELUDE,
        sp = spelling
    );
    let cfg = FileCfg { zod, type_mappings: vec![(key.to_string(), "string".to_string())], ..Default::default() };
    let sb = crate::run::Sandbox::new();
    sbx::write_sources(&sb.root, &gen::Project::single(src), &cfg);
    if tauri_conf {
        let _ = std::fs::remove_file(sb.root.join("typegen.json"));
        std::fs::write(sb.root.join("tauri.conf.json"), cfg.to_tauri_conf_json()).unwrap();
    }
    let r = sbx::run_generate(&sb.root, Seam::Cli, &RunOpts { discover_config: tauri_conf, ..Default::default() });
    if !r.success() {
        return vec![];
    }
    let files = crate::run::read_out_dir(&sbx::out_dir(&sb.root, &cfg));
    // identifiers of the key (head and generic arguments) that nothing else in the project uses
    let idents: Vec<String> = key.split(|c: char| !(c.is_alphanumeric() || c == '_')).filter(|w| !w.is_empty() && !["i64", "String"].contains(w)).map(|w| w.to_string()).collect();
    let mut vs = vec![];
    for (f, text) in &files {
        if !f.ends_with(".ts") {
            continue;
        }
        let code: String = text.lines().filter(|l| !l.trim_start().starts_with('*') && !l.trim_start().starts_with("/*") && !l.trim_start().starts_with("//")).collect::<Vec<_>>().join("\n");
        let left: Vec<&String> = idents.iter().filter(|n| ident_occurs(&code, n) || ident_occurs(&code, &format!("{}Schema", n))).collect();
        if !left.is_empty() {
            vs.push(
                Violation::new("C18", "mapped-name-survives", format!("mapping {:?} -> string given in {} ({} mode), type spelled `{}` in the sources: {} still mentions {:?}", key, if tauri_conf { "tauri.conf.json" } else { "typegen.json" }, if zod { "zod" } else { "none" }, spelling, f, left), json!({"cli": {"key": key, "spelling": spelling, "zod": zod, "tauri_conf": tauri_conf}}))
                    .field("site", "all")
                    .field("mode", if zod { "zod" } else { "none" })
                    .field("mapped", key.to_string())
                    .field("targets", "string")
                    .field("spelling", spelling.to_string()),
            );
            break;
        }
    }
    vs
}

pub fn replay(case: &Value) -> Vec<Violation> {
    if let Some(c) = case.get("cli") {
        return eval_cli(c["key"].as_str().unwrap_or(""), c["spelling"].as_str().unwrap_or(""), c["zod"].as_bool().unwrap_or(false), c["tauri_conf"].as_bool().unwrap_or(false));
    }
    serde_json::from_value::<Case>(case.clone()).map(|c| eval(&c).0).unwrap_or_default()
}

pub fn run(tier: Tier) -> CheckResult {
    let mut res = CheckResult::new("C18", "exploration");
    let deadline = tier_deadline(tier);
    let mut cases: Vec<Case> = vec![];
    let fillers = [RTy::prim("i32"), RTy::named("Other")];
    for (si, src) in SOURCES.iter().enumerate() {
        // thorough: depth 3 with one filler (depth 2 with both fillers is already in the quick tier)
        let mut types = gen::enumerate_spines(&[RTy::named(src)], &fillers, 2);
        if tier == Tier::Thorough {
            let mut seen: std::collections::HashSet<RTy> = types.iter().cloned().collect();
            for t in gen::enumerate_spines(&[RTy::named(src)], &fillers[..1], 3) {
                if seen.insert(t.clone()) {
                    types.push(t);
                }
            }
        }
        for (ti, t) in types.iter().enumerate() {
            for s in SITES {
                for zod in [false, true] {
                    let target = TARGETS[(si + ti) % TARGETS.len()];
                    cases.push(Case { site: s.name().into(), ty: t.clone(), mappings: vec![(src.to_string(), target.to_string())], zod });
                    // every target at depth <= 1
                    if t.depth() <= 1 {
                        for tg in TARGETS {
                            if tg != target {
                                cases.push(Case { site: s.name().into(), ty: t.clone(), mappings: vec![(src.to_string(), tg.to_string())], zod });
                            }
                        }
                    }
                }
            }
        }
    }
    // two-entry tables: both names in one type expression
    for (a, b) in [("PathBuf", "Uuid"), ("Uuid", "DateTime<Utc>"), ("UserId", "PathBuf"), ("DateTime<Utc>", "UserId")] {
        let tys = vec![
            RTy::Tuple(vec![RTy::named(a), RTy::named(b)]),
            RTy::HashMap(Box::new(RTy::named(a)), Box::new(RTy::named(b))),
            RTy::vec(RTy::Tuple(vec![RTy::opt(RTy::named(a)), RTy::named(b), RTy::named("Other")])),
            RTy::Result2(Box::new(RTy::named(a)), Box::new(RTy::named(b))),
        ];
        for t in tys {
            for s in SITES {
                for zod in [false, true] {
                    cases.push(Case { site: s.name().into(), ty: t.clone(), mappings: vec![(a.to_string(), "string".into()), (b.to_string(), "number".into())], zod });
                    // only one of the two is mapped: the other must be untouched
                    if b != "DateTime<Utc>" && a != "DateTime<Utc>" {
                        cases.push(Case { site: s.name().into(), ty: t.clone(), mappings: vec![(a.to_string(), "boolean".into())], zod });
                    }
                }
            }
        }
    }
    // lookalike names must not be mapped: mapping `Uuid` must leave `UuidLike`/`MyUuid` alone
    for s in SITES {
        for zod in [false, true] {
            cases.push(Case { site: s.name().into(), ty: RTy::Tuple(vec![RTy::named("Uuid"), RTy::named("Other")]), mappings: vec![("Uuid".into(), "string".into()), ("Oth".into(), "number".into()), ("OtherX".into(), "number".into())], zod });
        }
    }
    // two emit sites of one event whose payloads agree only THROUGH the mapping: the listener keeps
    // the mapped type
    for (a, b, key_a, key_b) in [("PathBuf", "String", Some("PathBuf"), None), ("Uuid", "PathBuf", Some("Uuid"), Some("PathBuf")), ("Vec<Uuid>", "Vec<String>", Some("Uuid"), None), ("Option<PathBuf>", "Option<Uuid>", Some("PathBuf"), Some("Uuid"))] {
        for zod in [false, true] {
            let src = format!("{}use tauri::{{AppHandle, Emitter}};\n#[tauri::command]\npub fn anchor() -> bool {{ true }}\npub fn one(app: &AppHandle, p: {}) {{ app.emit(\"moved\", p).unwrap(); }}\npub fn other(app: &AppHandle) {{ app.emit(\"tick\", 1).unwrap(); }}\npub fn two(app: &AppHandle, p: {}) {{ app.emit(\"moved\", p).unwrap(); }}\n", gen::PRELUDE, a, b);
            let mappings: Vec<(String, String)> = [key_a, key_b].into_iter().flatten().map(|k| (k.to_string(), "string".to_string())).collect();
            let run = run_lib_default(&gen::Project::single(src), &Cfg { type_mappings: mappings.clone(), ..Cfg::mode(zod) });
            if let Some(text) = run.file("events.ts") {
                let want = a.replace("PathBuf", "string").replace("Uuid", "string").replace("String", "string");
                let want_shape = ts::parse_type(&want.replace("Vec<string>", "string[]").replace("Option<string>", "string | null")).map(|t| shape::from_ts(&t));
                // the listener for `moved`: its payload parameter type
                // `return listen<T>('moved', ...`
                let got = text.split(">('moved'").next().filter(|_| text.contains(">('moved'")).and_then(|head| head.rsplit("listen<").next()).map(|t| t.trim().to_string());
                if got.is_none() {
                    res.machinery_errors.push("C18 two-site case: cannot find listen<..>('moved' in events.ts".into());
                }
                let got_shape = got.as_ref().and_then(|g| ts::parse_type(g).ok()).map(|t| shape::from_ts(&t));
                if let (Ok(w), Some(g)) = (&want_shape, &got_shape) {
                    if w != g {
                        res.violations.push(
                            Violation::new("C18", "mapped-shape", format!("event `moved` emitted with {} at one site and {} at another, mapping {:?} ({} mode): the listener's payload is `{}` but both sites translate to `{}`", a, b, mappings, if zod { "zod" } else { "none" }, got.clone().unwrap_or_default(), w.show()), json!({"two_sites": [a, b], "zod": zod}))
                                .field("site", "event-two-sites")
                                .field("mode", if zod { "zod" } else { "none" })
                                .field("mapped", mappings.iter().map(|(k, _)| k.clone()).collect::<Vec<_>>().join("+"))
                                .field("targets", "string"),
                        );
                    }
                }
            }
        }
    }
    // the same table through configuration files and the real binary: keys with one and with several
    // generic arguments, and the mapped type spelled with module paths (ASCII and not) in the sources
    let cli_cases: Vec<(&str, &str)> = vec![
        ("Uuid", "Uuid"),
        ("Uuid", "crate::ids::Uuid"),
        ("Uuid", "données::Uuid"),
        ("Uuid", "モデル::ids::Uuid"),
        ("PathBuf", "std::path::PathBuf"),
        ("DateTime<Utc>", "DateTime<Utc>"),
        ("DateTime<Utc>", "chrono::DateTime<Utc>"),
        ("Tagged<InvoiceTag, Uuid7>", "Tagged<InvoiceTag, Uuid7>"),
        ("Fixed<i64, U6>", "Fixed<i64, U6>"),
        ("Triple<A1, B2, C3>", "Triple<A1, B2, C3>"),
    ];
    let cli_work: Vec<(&str, &str, bool, bool)> = cli_cases.iter().flat_map(|(k, sp)| [(*k, *sp, false, false), (*k, *sp, true, false), (*k, *sp, false, true), (*k, *sp, true, true)]).collect();
    let cli_v: Vec<Violation> = cli_work.par_iter().flat_map(|(k, sp, z, t)| eval_cli(k, sp, *z, *t)).collect();
    res.coverage.set("cli_file_cases", cli_work.len() as u64);
    let results: Vec<Option<(Vec<Violation>, bool, Option<String>)>> = cases.par_iter().map(|c| if deadline.passed() { None } else { Some(eval(c)) }).collect();
    let mut evaluations = 0u64;
    let mut exhaustive = true;
    let mut not_parsable = 0u64;
    let mut nontrivial = 0u64;
    let mut failing: BTreeSet<(String, bool, RTy, String, String)> = BTreeSet::new();
    let mut all_v = vec![];
    for (c, r) in cases.iter().zip(results) {
        match r {
            None => exhaustive = false,
            Some((v, acc, unp)) => {
                evaluations += 2;
                if unp.is_some() {
                    not_parsable += 1;
                } else if acc {
                    nontrivial += 1;
                }
                for x in v {
                    failing.insert((c.site.clone(), c.zod, c.ty.clone(), x.class.clone(), x.fields["mapped"].clone()));
                    all_v.push((c.clone(), x));
                }
            }
        }
    }
    all_v.sort_by_key(|(_, v)| (v.rank, v.key()));
    res.violations.extend(cli_v);
    let mut seen = BTreeSet::new();
    for (c, v) in all_v {
        if c.ty.children().iter().any(|ch| failing.contains(&(c.site.clone(), c.zod, (*ch).clone(), v.class.clone(), v.fields["mapped"].clone()))) {
            res.derived += 1;
            continue;
        }
        // targets are interchangeable for the identity of a finding
        let mut f = v.fields.clone();
        f.remove("targets");
        let k = format!("{}|{:?}|{}", v.class, f, c.ty.to_rust());
        if seen.insert(k) {
            res.violations.push(v);
        } else {
            res.derived += 1;
        }
    }
    res.coverage.set("evaluations", evaluations);
    res.coverage.set("distinct_nontrivial", nontrivial);
    res.coverage.set("cases", cases.len() as u64);
    res.coverage.set("outputs_not_parsable_here", not_parsable);
    res.coverage.set("exhaustive", exhaustive);
    res.coverage.set("samples", json!(cases.iter().step_by((cases.len() / 5).max(1)).take(5).collect::<Vec<_>>()));
    res.coverage.set("rule", "mapping tables of one or two entries over {PathBuf, Uuid, DateTime<Utc>, UserId (also a project-defined serde struct)} x targets {string, number, boolean}; the mapped name at every constructor position (depth <= 1 quick / <= 2 thorough) of every site, both modes; two mapped names in one type; tables with look-alike keys; every project is generated with and without the table. Oracle: the emitted type (or, for fields/parameters in Zod mode, the schema read from z.object) with the mapping equals the one without it after substituting the mapped node by the target; the mapped name's identifier (and NSchema) occurs in no generated file; all declarations that do not mention the mapped name are identical in both runs.");
    res.assumptions = vec!["targets are the three primitive TypeScript types of the property's quantifier".into()];
    res
}
