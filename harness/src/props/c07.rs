//! C07 - types.ts declares exactly the serde types reachable from the public surface.

use crate::core::*;
use crate::gen::{self, Project};
use crate::modinfo::{DeclKind, ModInfo};
use crate::run::{run_lib_default, Cfg};
use crate::ts;
use rayon::prelude::*;
use serde::{Deserialize, Serialize};
use serde_json::{json, Value};
use std::collections::BTreeSet;

pub const CONTEXTS: [&str; 14] = [
    "@",
    "Option<@>",
    "Vec<@>",
    "HashSet<@>",
    "HashMap<String, @>",
    "HashMap<@, i32>",
    "(HashMap<String, i32>, @)",
    "Vec<Option<@>>",
    "BTreeMap<(i32, @), String>",
    "Option<(@, HashMap<String, Vec<i32>>)>",
    // spelled with a module path instead of an import
    "models::@",
    "Vec<crate::models::@>",
    // a tuple that ends / starts with another tuple (parentheses pile up at either end of the text)
    "(String, (u32, @))",
    "((@, u32), String)",
];

/// spellings of "derives Serialize/Deserialize"
pub const DERIVE_STYLES: [&str; 7] = [
    "#[derive(Debug, Clone, Serialize, Deserialize)]\n",
    "#[derive(serde::Serialize, serde::Deserialize)]\n",
    "#[derive(Debug)]\n#[derive(Serialize)]\n#[derive(Deserialize)]\n",
    "#[derive(Clone, ::serde::Deserialize, Debug, ::serde::Serialize)]\n",
    "#[derive(Serialize)]\n",
    "#[derive(Deserialize, PartialEq)]\n",
    "/// documented\n#[allow(dead_code)]\n#[derive(Default, Serialize, Deserialize)]\n#[serde(rename_all = \"camelCase\")]\n",
];

#[derive(Debug, Clone, Copy, PartialEq, Eq, Serialize, Deserialize, PartialOrd, Ord)]
pub enum Root {
    Param,
    ReturnOk,
    ReturnErr,
    Channel,
    Event,
    /// event payload bound by an annotated `let` whose initialiser names something else
    EventLet,
    /// success arm of a Result whose error type has a top-level comma of its own
    ReturnOkCommaErr,
}
pub const ROOTS: [Root; 7] = [Root::Param, Root::ReturnOk, Root::ReturnErr, Root::Channel, Root::Event, Root::EventLet, Root::ReturnOkCommaErr];

/// naming schemes for the nodes: plain, names that start with a container's name, names that embed
/// other words the analyser looks for
pub const NAMINGS: [[&str; 4]; 6] = [
    ["N0", "N1", "N2", "N3"],
    ["Options", "Vector3", "ResultSummary", "OptionSet"],
    ["HashMapper", "Boxed", "Channels", "BTreeSetting"],
    // letters without case, outside the BMP, and a cased non-ASCII one
    ["書籍", "著者", "𠮷田Profile", "Ωmega"],
    // every name is a substring of the one before it
    ["CartItemGroupZ", "ItemGroupZ", "GroupZ", "Z"],
    // ... and of the one after it
    ["Q", "QLine", "QLineItem", "OrderQLineItem"],
];

#[derive(Debug, Clone, Serialize, Deserialize)]
pub struct Case {
    pub n: usize,
    /// bit u*n+v: struct u has a field mentioning v
    pub mask: u32,
    pub root: Root,
    /// context of the root reference and of every edge ...
    pub ctx: usize,
    /// ... except edge #deviate (in edge order), which uses context `deviate_ctx`
    pub deviate: Option<(usize, usize)>,
    /// 0: all in one file; 1: one file per node (nested dirs); 2: types in one file, commands in another;
    /// 3: one file per node, each a symbolic link to a file outside the project
    pub layout: usize,
    /// how the serde derives are spelled (index into DERIVE_STYLES), rotating per node
    #[serde(default)]
    pub derive_style: usize,
    pub zod: bool,
    /// index into NAMINGS
    #[serde(default)]
    pub naming: usize,
    /// node whose name the configuration maps to `string` (type_mappings): it is then no serde type
    /// of the surface any more -- neither it nor what only its fields mention is declared
    #[serde(default)]
    pub mapped: Option<usize>,
}

impl Case {
    pub fn name(&self, i: usize) -> String {
        // (the plain scheme serves graphs of any size; the others have four names)
        if self.naming % NAMINGS.len() == 0 || i >= 4 {
            format!("N{}", i)
        } else {
            NAMINGS[self.naming % NAMINGS.len()][i].to_string()
        }
    }
    pub fn edges(&self) -> Vec<(usize, usize)> {
        let mut v = vec![];
        for u in 0..self.n {
            for w in 0..self.n {
                if self.mask >> (u * self.n + w) & 1 == 1 {
                    v.push((u, w));
                }
            }
        }
        v
    }
    fn has_out(&self, u: usize) -> bool {
        (0..self.n).any(|w| self.mask >> (u * self.n + w) & 1 == 1)
    }
    fn node_def(&self, u: usize) -> String {
        let derive = DERIVE_STYLES[(self.derive_style + u * (self.derive_style != 0) as usize) % DERIVE_STYLES.len()];
        if self.has_out(u) {
            let mut s = format!("{}pub struct {} {{\n    pub id: i32,\n", derive, self.name(u));
            for (ei, (a, b)) in self.edges().iter().enumerate() {
                if *a == u {
                    let c = match self.deviate {
                        Some((e, c)) if e == ei => c,
                        _ => self.ctx,
                    };
                    s.push_str(&format!("    pub to_{}: {},\n", b, CONTEXTS[c].replace('@', &self.name(*b))));
                }
            }
            s.push_str("}\n");
            s
        } else {
            match u % 3 {
                0 => format!("{}pub struct {} {{ pub id: i32 }}\n", derive, self.name(u)),
                1 => format!("{}pub enum {} {{ First, Second }}\n", derive, self.name(u)),
                _ => format!("{}pub struct {};\n", derive, self.name(u)),
            }
        }
    }
    pub fn project(&self) -> Project {
        let header = format!("{}use tauri::{{AppHandle, Emitter}};\nuse tauri::ipc::Channel;\n", gen::PRELUDE);
        let root_ty = CONTEXTS[self.ctx].replace('@', &self.name(0));
        let mut cmd = String::new();
        match self.root {
            Root::Param => cmd.push_str(&format!("#[tauri::command]\npub fn entry(p: {}) -> bool {{ let _ = p; true }}\n", root_ty)),
            Root::ReturnOk => cmd.push_str(&format!("#[tauri::command]\npub fn entry() -> Result<{}, String> {{ Err(String::new()) }}\n", root_ty)),
            Root::ReturnErr => cmd.push_str(&format!("#[tauri::command]\npub fn entry() -> Result<i32, {}> {{ Ok(1) }}\n", root_ty)),
            Root::ReturnOkCommaErr => cmd.push_str(&format!("#[tauri::command]\npub fn entry() -> Result<{}, HashMap<String, Vec<String>>> {{ Err(HashMap::new()) }}\n", root_ty)),
            Root::Channel => cmd.push_str(&format!("#[tauri::command]\npub fn entry(ch: Channel<{}>) -> bool {{ let _ = ch; true }}\n", root_ty)),
            Root::Event => cmd.push_str(&format!(
                "#[tauri::command]\npub fn entry() -> bool {{ true }}\npub fn fire(app: &AppHandle, p: {}) {{ app.emit(\"fired\", p).unwrap(); }}\n",
                root_ty
            )),
            Root::EventLet => cmd.push_str(&format!(
                "#[tauri::command]\npub fn entry() -> bool {{ true }}\npub fn fire(app: &AppHandle) {{\n    let p: {} = Default::default();\n    app.emit(\"fired\", p).unwrap();\n}}\n",
                root_ty
            )),
        }
        // decoys: never reachable (the last function emits a local without an evident type that is
        // called like the typed parameter of the function before it)
        let decoys = "pub struct PlainDecoy { pub x: i32 }\n#[derive(Debug, Clone, Serialize, Deserialize)]\npub struct UnusedSerde { pub y: i32 }\npub fn helper(u: UnusedSerde, p: PlainDecoy) -> i32 { let _ = (u, p); 0 }\nfn make_u() -> i32 { 0 }\npub fn fire_untyped(app: &AppHandle) { let u = make_u(); app.emit(\"untyped\", u).unwrap(); }\n";
        match self.layout {
            0 => {
                let mut s = header.clone();
                for u in 0..self.n {
                    s.push_str(&self.node_def(u));
                }
                s.push_str(decoys);
                s.push_str(&cmd);
                Project::single(s)
            }
            1 => {
                let mut files = vec![];
                for u in 0..self.n {
                    let path = match u % 3 {
                        0 => format!("src/models/n{}.rs", u),
                        1 => format!("src/models/deep/er/n{}.rs", u),
                        _ => format!("src/n{}.rs", u),
                    };
                    files.push((path, format!("{}{}", header, self.node_def(u))));
                }
                files.push(("src/api.rs".into(), format!("{}{}{}", header, decoys, cmd)));
                Project { files, links: vec![] }
            }
            3 => {
                // as layout 1, but every type file is a symbolic link to a file kept outside the project
                let mut links = vec![];
                for u in 0..self.n {
                    links.push((format!("src/shared/n{}.rs", u), format!("{}{}", header, self.node_def(u))));
                }
                Project { files: vec![("src/api.rs".into(), format!("{}{}{}", header, decoys, cmd))], links }
            }
            _ => {
                let mut s = header.clone();
                // definitions in reverse order in a file that sorts after the command file
                for u in (0..self.n).rev() {
                    s.push_str(&self.node_def(u));
                }
                Project { files: vec![("src/a_commands.rs".into(), format!("{}{}", header, cmd)), ("src/z_types.rs".into(), format!("{}{}", s, decoys))], links: vec![] }
            }
        }
    }
    pub fn expected(&self) -> BTreeSet<String> {
        let mut reach: BTreeSet<usize> = BTreeSet::new();
        if self.root != Root::ReturnErr {
            let mut stack = vec![0usize];
            while let Some(u) = stack.pop() {
                if Some(u) == self.mapped {
                    continue;
                }
                if reach.insert(u) {
                    for (a, b) in self.edges() {
                        if a == u {
                            stack.push(b);
                        }
                    }
                }
            }
        }
        reach.into_iter().map(|i| self.name(i)).collect()
    }
}

pub fn observe(files: &std::collections::BTreeMap<String, String>, zod: bool) -> Result<(BTreeSet<String>, BTreeSet<String>, Vec<String>), String> {
    let src = files.get("types.ts").ok_or("types.ts not written")?;
    let m = ts::parse_module(src).map_err(|e| format!("SYNTAX types.ts: {}", e))?;
    let mi = ModInfo::of(&m);
    let types: BTreeSet<String> = mi
        .decls
        .iter()
        .filter(|d| d.exported && matches!(d.kind, DeclKind::Interface | DeclKind::TypeAlias) && !d.name.ends_with("Params"))
        .map(|d| d.name.clone())
        .collect();
    let schemas: BTreeSet<String> = if zod {
        mi.decls
            .iter()
            .filter(|d| d.exported && d.kind == DeclKind::Const && d.name.ends_with("Schema") && !d.name.ends_with("ParamsSchema"))
            .map(|d| d.name.trim_end_matches("Schema").to_string())
            .collect()
    } else {
        types.clone()
    };
    Ok((types, schemas, mi.duplicate_exports.clone()))
}

pub fn eval(case: &Case) -> (Vec<Violation>, bool, Option<String>) {
    let mut cfg = Cfg::mode(case.zod);
    if let Some(k) = case.mapped {
        cfg.type_mappings = vec![(case.name(k), "string".into())];
    }
    let run = run_lib_default(&case.project(), &cfg);
    if !run.ok() {
        return (vec![mk(case, "run-failed", run.status_string(), &BTreeSet::new())], false, None);
    }
    let (types, schemas, dups) = match observe(&run.files, case.zod) {
        Ok(x) => x,
        Err(e) if e.starts_with("SYNTAX") => return (vec![], true, Some(e)),
        Err(e) => return (vec![mk(case, "unreadable", e, &BTreeSet::new())], true, None),
    };
    let exp = case.expected();
    let mut vs = vec![];
    let missing: BTreeSet<String> = exp.difference(&types).cloned().collect();
    let extra: BTreeSet<String> = types.difference(&exp).cloned().collect();
    if !missing.is_empty() {
        vs.push(mk(case, "missing-declaration", format!("reachable {:?} but types.ts declares {:?}: missing {:?}", exp, types, missing), &missing));
    }
    if !extra.is_empty() {
        vs.push(mk(case, "extra-declaration", format!("reachable {:?} but types.ts declares {:?}: extra {:?}", exp, types, extra), &extra));
    }
    if case.zod && schemas != types {
        vs.push(mk(case, "schema-type-mismatch", format!("schemas {:?} vs type aliases {:?}", schemas, types), &BTreeSet::new()));
    }
    if !dups.is_empty() {
        vs.push(mk(case, "declared-twice", format!("{:?}", dups), &BTreeSet::new()));
    }
    (vs, true, None)
}

fn mk(case: &Case, class: &str, detail: String, _names: &BTreeSet<String>) -> Violation {
    let ctxs: BTreeSet<&str> = {
        let mut s = BTreeSet::new();
        s.insert(CONTEXTS[case.ctx]);
        if let Some((_, c)) = case.deviate {
            s.insert(CONTEXTS[c]);
        }
        s
    };
    Violation::new(
        "C07",
        class,
        format!("{:?} edges {:?}: {}", case, case.edges(), detail),
        serde_json::to_value(case).unwrap(),
    )
    .field("root", format!("{:?}", case.root))
    .field("contexts", ctxs.into_iter().collect::<Vec<_>>().join(" + "))
    .field("mode", if case.zod { "zod" } else { "none" })
    .field("mapped", if case.mapped.is_some() { "yes" } else { "no" })
    .rank((case.n * 100 + case.mask.count_ones() as usize * 10 + case.layout) as u64)
}

pub fn replay(case: &Value) -> Vec<Violation> {
    serde_json::from_value::<Case>(case.clone()).map(|c| eval(&c).0).unwrap_or_default()
}

pub fn run(tier: Tier) -> CheckResult {
    let mut res = CheckResult::new("C07", "exploration");
    let deadline = tier_deadline(tier);
    let mut graphs: Vec<(usize, u32)> = vec![];
    for n in 1..=3usize {
        for mask in 0..(1u32 << (n * n)) {
            graphs.push((n, mask));
        }
    }
    if tier == Tier::Thorough {
        for mask in 0..(1u32 << 16) {
            if mask.count_ones() <= 5 {
                graphs.push((4, mask));
            }
        }
    }
    let mut cases: Vec<Case> = vec![];
    for (gi, (n, mask)) in graphs.iter().enumerate() {
        let n_edges = mask.count_ones() as usize;
        for root in ROOTS {
            for ctx in 0..CONTEXTS.len() {
                // 4-node graphs: uniform contexts only on a rotating subset of roots to bound cost
                if *n == 4 && (gi + ctx) % 5 != (root as usize) {
                    continue;
                }
                let layout = (gi + ctx + root as usize) % 4;
                for zod in [false, true] {
                    if tier == Tier::Quick && zod && (gi + ctx) % 2 == 0 {
                        continue;
                    }
                    cases.push(Case { n: *n, mask: *mask, root, ctx, deviate: None, layout, derive_style: if (gi + ctx) % 2 == 0 { 0 } else { (gi + ctx + root as usize) % DERIVE_STYLES.len() }, zod, naming: 0, mapped: None });
                    // the other naming schemes on the direct and the Option context
                    if ctx <= 1 && *n <= 3 {
                        for naming in 1..NAMINGS.len() {
                            cases.push(Case { n: *n, mask: *mask, root, ctx, deviate: None, layout, derive_style: 0, zod, naming, mapped: None });
                        }
                    }
                }
            }
            // one edge deviates: for graphs with >= 2 edges, each edge gets each other context once
            // (uniform base context = direct)
            if n_edges >= 2 && *n <= 3 && (tier == Tier::Thorough || gi % 4 == 0) {
                for e in 0..n_edges {
                    for c in 1..CONTEXTS.len() {
                        cases.push(Case { n: *n, mask: *mask, root, ctx: 0, deviate: Some((e, c)), layout: (gi + e) % 3, derive_style: (gi + e + c) % DERIVE_STYLES.len(), zod: (gi + e + c) % 2 == 0, naming: 0, mapped: None });
                    }
                }
            }
        }
    }
    // one node mapped to a TypeScript type by configuration: every graph of up to 3 nodes with an
    // edge, every node, the direct and two wrapped contexts, parameter / return / event roots
    for (gi, (n, mask)) in graphs.iter().enumerate() {
        if *n > 3 || *mask == 0 {
            continue;
        }
        for k in 0..*n {
            for root in [Root::Param, Root::ReturnOk, Root::Event] {
                for ctx in [0usize, 1, 2] {
                    if tier == Tier::Quick && (gi + k + ctx + root as usize) % 3 != 0 {
                        continue;
                    }
                    for zod in [false, true] {
                        cases.push(Case { n: *n, mask: *mask, root, ctx, deviate: None, layout: (gi + k + ctx) % 3, derive_style: 0, zod, naming: if (gi + k) % 4 == 0 { 1 } else { 0 }, mapped: Some(k) });
                    }
                }
            }
        }
    }
    let results: Vec<Option<(Vec<Violation>, bool, Option<String>)>> = cases.par_iter().map(|c| if deadline.passed() { None } else { Some(eval(c)) }).collect();
    let mut evaluations = 0u64;
    let mut exhaustive = true;
    let mut not_parsable = 0u64;
    let mut nontrivial = 0u64;
    let mut all_v = vec![];
    for (c, r) in cases.iter().zip(results) {
        match r {
            None => exhaustive = false,
            Some((v, acc, unp)) => {
                evaluations += 1;
                if unp.is_some() {
                    not_parsable += 1;
                } else if acc && c.mask != 0 {
                    nontrivial += 1;
                }
                all_v.extend(v);
            }
        }
    }
    all_v.sort_by_key(|v| (v.rank, v.key()));
    let mut seen = BTreeSet::new();
    for v in all_v {
        let k = format!("{}|{}|{}|{}|{}", v.class, v.fields["root"], v.fields["contexts"], v.fields["mode"], v.fields["mapped"]);
        if seen.insert(k) {
            res.violations.push(v);
        } else {
            res.derived += 1;
        }
    }
    res.coverage.set("evaluations", evaluations);
    res.coverage.set("distinct_nontrivial", nontrivial);
    res.coverage.set("graphs", graphs.len() as u64);
    res.coverage.set("cases", cases.len() as u64);
    res.coverage.set("outputs_not_parsable_here", not_parsable);
    res.coverage.set("exhaustive", exhaustive);
    res.coverage.set("samples", json!(cases.iter().step_by((cases.len() / 5).max(1)).take(5).collect::<Vec<_>>()));
    res.coverage.set("rule", "[round 7: a fourth file layout in which every type file is a symbolic link] every graph of up to 3 nodes with an edge once more with each node in turn mapped to `string` by configuration (three contexts, parameter / return / event roots, both modes: the mapped type and what only it mentions must not be declared); every project carries unreachable serde types, one of them the type of a parameter called like an untyped local that a later function of the same file emits; type dependency graphs: every labelled digraph on 1..3 nodes incl. self-loops and cycles (thorough: plus 4 nodes with <= 5 edges); nodes with out-edges are structs, leaves rotate over struct / unit-variant enum / unit struct; root referenced from each of {parameter, Result ok-arm, Result err-arm, channel message, event payload as typed parameter, event payload as annotated let with a Default::default() initialiser}; six naming schemes for the nodes (N0.., names that start with a container's name such as Options / Vector3 / ResultSummary, names that embed analyser keywords, names in scripts without letter case and outside the BMP, names that are substrings of each other in both directions); every edge and the root reference realised through each of 12 constructor contexts (two of them spelled with a module path) (uniform) and with one edge deviating; 3 file layouts (one file, one file per node in nested directories, commands before types); unreachable nodes plus a non-serde struct and an unused serde struct as decoys; oracle: the exported type declarations of types.ts (minus *Params) equal the least fixpoint of reachability from the root (empty for the err-arm root), none twice; in Zod mode schemas and type aliases agree. Non-trivial = graph has at least one edge and the project was accepted.");
    res.assumptions = vec!["Result arms are used as root contexts only (a Result-typed struct field is outside the documented feature set)".into()];
    res
}
