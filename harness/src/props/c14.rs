//! C14 - re-running with nothing changed rewrites nothing; --force always regenerates.
//! Schedules (hash-iteration orders of the second process) x force matrix, on the real binary and
//! the real build-script path.

use crate::core::*;
use crate::gen::Project;
use crate::run::{self, factorial, ChoicePoint};
use crate::sbx::{self, FileCfg, RunOpts, Seam};
use rayon::prelude::*;
use serde_json::{json, Value};
use std::collections::{BTreeMap, BTreeSet};
use std::path::Path;
use std::time::{Duration, SystemTime};

pub fn multi_file_project(n: usize) -> Project {
    let mut files = vec![];
    for i in 0..n {
        let mut s = String::from("use serde::{Deserialize, Serialize};\n");
        s.push_str(&format!(
            "#[derive(Serialize, Deserialize)]\npub struct T{i} {{ pub id: i32, pub when: Option<Uuid>, pub path: PathBuf }}\n"
        ));
        s.push_str(&format!(
            "#[tauri::command]\npub fn cmd_{i}(arg: T{i}, stamp: DateTime<Utc>) -> Vec<T{i}> {{ let _ = stamp; vec![arg] }}\n"
        ));
        if i == 0 {
            s.push_str("pub fn note(app: &tauri::AppHandle) { app.emit(\"note\", 1).unwrap(); }\n");
            // several channels, parameters and fields in one command / struct: anything that is
            // hashed through an unordered container shows up as a cache miss in a fresh process
            s.push_str("#[tauri::command]\npub fn multi(alpha: i32, beta: String, gamma: Option<bool>, on_a: tauri::ipc::Channel<i32>, on_b: tauri::ipc::Channel<String>, on_c: tauri::ipc::Channel<T0>) -> bool { true }\n");
            s.push_str("#[derive(Serialize, Deserialize)]\n#[serde(rename_all = \"camelCase\")]\npub struct Wide { #[validate(length(min = 1, max = 5))] pub one: String, #[serde(rename = \"TWO\")] pub two: i32, pub three: Option<T0>, pub four: Vec<String> }\n#[tauri::command]\npub fn wide(w: Wide) -> Wide { w }\n");
        }
        // spread over directories of different depth
        let path = match i % 3 {
            0 => format!("src/f{}.rs", i),
            1 => format!("src/a/f{}.rs", i),
            _ => format!("src/a/b/f{}.rs", i),
        };
        // from four files on, two of them share their file name and depth (src/x/mod.rs, src/y/mod.rs)
        let path = if n >= 4 && i >= n - 2 { format!("src/{}/mod.rs", if i == n - 1 { "x" } else { "y" }) } else { path };
        files.push((path, s));
    }
    Project { files, links: vec![] }
}

pub fn mappings(m: usize) -> Vec<(String, String)> {
    [("Uuid", "string"), ("PathBuf", "string"), ("DateTime<Utc>", "string")]
        .iter()
        .take(m)
        .map(|(a, b)| (a.to_string(), b.to_string()))
        .collect()
}

const PAST: u64 = 1_000_000_000; // 2001-09-09

fn set_mtimes_past(dir: &Path) {
    let t = SystemTime::UNIX_EPOCH + Duration::from_secs(PAST);
    if let Ok(rd) = std::fs::read_dir(dir) {
        for e in rd.flatten() {
            if e.path().is_file() {
                if let Ok(f) = std::fs::File::options().write(true).open(e.path()) {
                    let _ = f.set_modified(t);
                }
            }
        }
    }
}

/// name -> (bytes, mtime seconds)
fn stat_dir(dir: &Path) -> BTreeMap<String, (Vec<u8>, u64)> {
    let mut m = BTreeMap::new();
    if let Ok(rd) = std::fs::read_dir(dir) {
        for e in rd.flatten() {
            if e.path().is_file() {
                let mt = e
                    .metadata()
                    .ok()
                    .and_then(|md| md.modified().ok())
                    .and_then(|t| t.duration_since(SystemTime::UNIX_EPOCH).ok())
                    .map(|d| d.as_secs())
                    .unwrap_or(0);
                m.insert(
                    e.file_name().to_string_lossy().to_string(),
                    (std::fs::read(e.path()).unwrap_or_default(), mt),
                );
            }
        }
    }
    m
}

fn touched(before: &BTreeMap<String, (Vec<u8>, u64)>, after: &BTreeMap<String, (Vec<u8>, u64)>) -> Vec<String> {
    let mut v = vec![];
    for (n, (b, mt)) in before {
        match after.get(n) {
            None => v.push(format!("{} deleted", n)),
            Some((b2, mt2)) => {
                if b2 != b {
                    v.push(format!("{} content changed", n));
                } else if mt2 != mt {
                    v.push(format!("{} rewritten (mtime changed)", n));
                }
            }
        }
    }
    for n in after.keys() {
        if !before.contains_key(n) {
            v.push(format!("{} created", n));
        }
    }
    v
}

fn sched_env(points: &[(String, usize)], choice: &[usize]) -> String {
    // points: (site, n) in consultation order of the second run's reference trace
    let mut occ: BTreeMap<&str, usize> = BTreeMap::new();
    let mut parts = vec![];
    for (i, (site, _n)) in points.iter().enumerate() {
        let k = occ.entry(site.as_str()).or_insert(0);
        let c = choice.get(i).copied().unwrap_or(0);
        if c != 0 {
            parts.push(format!("{}#{}={}", site, *k, c));
        }
        *k += 1;
    }
    parts.join(";")
}

struct RerunCase {
    n_files: usize,
    n_map: usize,
    zod: bool,
    seam: Seam,
    /// the dependency visualisation is requested (its two files are part of what must stay untouched)
    visualize: bool,
    /// two more files that define a type of the same name (`Settings`) with different fields, each
    /// used by a command: whichever definition wins must be the same in every process
    dup: bool,
}

fn rerun_project(c: &RerunCase) -> Project {
    let mut p = multi_file_project(c.n_files);
    if c.dup {
        for (f, field) in [("src/audio.rs", "pub volume: u8"), ("src/video.rs", "pub width: u32, pub height: u32")] {
            let stem = f.trim_start_matches("src/").trim_end_matches(".rs");
            p.files.push((
                f.to_string(),
                format!("use serde::{{Deserialize, Serialize}};\n#[derive(Serialize, Deserialize)]\npub struct Settings {{ {} }}\n#[tauri::command]\npub fn {}_settings() -> Settings {{ todo!() }}\n", field, stem),
            ));
        }
    }
    p
}

/// run1 under identity; then for every schedule of run2's choice points: unchanged re-run must not
/// touch anything. Returns (violations, schedules explored, nontrivial?)
fn rerun_case(c: &RerunCase, max_sched: usize, free_runs: usize) -> (Vec<Violation>, usize, bool, Vec<String>) {
    let project = rerun_project(c);
    let cfg = FileCfg { zod: c.zod, type_mappings: mappings(c.n_map), visualize_deps: c.visualize, ..Default::default() };
    let sb = run::Sandbox::new();
    sbx::write_sources(&sb.root, &project, &cfg);
    let od = sbx::out_dir(&sb.root, &cfg);
    let r1 = sbx::run_generate(&sb.root, c.seam, &RunOpts::default());
    let mut vs = vec![];
    let mut outcomes = vec![];
    if !r1.success() {
        return (vs, 0, false, vec![format!("run1 failed {}", r1.status_string())]);
    }
    // reference trace of an unchanged second run (identity)
    let trace_file = sb.path("trace.txt");
    set_mtimes_past(&od);
    let before = stat_dir(&od);
    let r2 = sbx::run_generate(&sb.root, c.seam, &RunOpts { trace_file: Some(trace_file.clone()), ..Default::default() });
    let points: Vec<(String, usize)> = r2.trace.iter().map(|p: &ChoicePoint| (p.site.clone(), p.n)).collect();
    let nontrivial = points.iter().any(|(_, n)| *n >= 2);
    // enumerate the full product over the choice points of the reference trace
    let radices: Vec<usize> = points.iter().map(|(_, n)| factorial(*n)).collect();
    let total: usize = radices.iter().product::<usize>().max(1);
    let mut explored = 0usize;
    let mut idx = 0usize;
    let mut first = Some(r2);
    while idx < total && explored < max_sched {
        let mut choice = vec![];
        let mut r = idx;
        for rad in &radices {
            choice.push(r % rad);
            r /= rad;
        }
        let run2 = if idx == 0 {
            first.take().unwrap()
        } else {
            set_mtimes_past(&od);
            sbx::run_generate(&sb.root, c.seam, &RunOpts { schedule_env: Some(sched_env(&points, &choice)), trace_file: Some(trace_file.clone()), ..Default::default() })
        };
        explored += 1;
        let after = stat_dir(&od);
        let t = touched(&before, &after);
        outcomes.push(format!("{}|touched={}", run2.status_string(), t.len()));
        if run2.code == Some(97) {
            // replay divergence inside the hooks: a machinery problem, reported as such by the caller
            outcomes.push("divergence".into());
        }
        if !run2.success() || !t.is_empty() {
            let deviating: Vec<String> = points
                .iter()
                .zip(choice.iter())
                .filter(|(_, c)| **c != 0)
                .map(|((s, _), _)| s.clone())
                .collect();
            vs.push(
                Violation::new(
                    "C14",
                    "needless-rewrite",
                    format!(
                        "{} files, {} type mappings, {} mode, {}: unchanged non-forced re-run under iteration order {:?} at {:?} -> {}; touched: {}",
                        c.n_files, c.n_map, cfg.mode_name(), c.seam.name(), choice, points, run2.status_string(), t.join(", ")
                    ),
                    json!({"kind":"rerun","n_files":c.n_files,"n_map":c.n_map,"zod":c.zod,"seam":c.seam.name(),"dup":c.dup,"visualize":c.visualize,"choice":choice}),
                )
                .field("seam", c.seam.name())
                .field("mode", cfg.mode_name())
                .field("files", c.n_files.to_string())
                .field("mappings", c.n_map.to_string())
                .field("duplicate_type_name", c.dup.to_string())
                .field("visualize", c.visualize.to_string())
                .field("deviating_sites", if deviating.is_empty() { "none".to_string() } else { deviating.join("+") })
                .rank((c.n_files * 10 + c.n_map) as u64),
            );
            // restore: the run may have rewritten files; regenerate a clean baseline
            let _ = sbx::run_generate(&sb.root, c.seam, &RunOpts::default());
        }
        idx += 1;
    }
    // one re-run per hash seed (getrandom shim: all hash iteration orders of the process follow the seed)
    // that are not behind a hook site, e.g. the type_mappings map feeding the config hash
    let free = if c.dup { free_runs * 3 } else if c.n_map >= 2 || c.n_files >= 2 { free_runs } else { 0 };
    for k in 0..free {
        set_mtimes_past(&od);
        let before = stat_dir(&od);
        // hash seed k: every hash iteration order of the process is a function of it (getrandom shim)
        let r = sbx::run_generate(&sb.root, c.seam, &RunOpts { hash_seed: Some(k as u64), ..Default::default() });
        let after = stat_dir(&od);
        let t = touched(&before, &after);
        outcomes.push(format!("free:{}|touched={}", r.status_string(), t.len()));
        if !r.success() || !t.is_empty() {
            vs.push(
                Violation::new(
                    "C14",
                    "needless-rewrite",
                    format!(
                        "{} files, {} type mappings, {} mode, {}: unchanged non-forced re-run in a process with hash seed {} (identity schedule at hooked sites) -> {}; touched: {}",
                        c.n_files, c.n_map, cfg.mode_name(), c.seam.name(), k, r.status_string(), t.join(", ")
                    ),
                    json!({"kind":"rerun","n_files":c.n_files,"n_map":c.n_map,"zod":c.zod,"seam":c.seam.name(),"dup":c.dup,"visualize":c.visualize,"choice":"free"}),
                )
                .field("seam", c.seam.name())
                .field("mode", cfg.mode_name())
                .field("files", c.n_files.to_string())
                .field("mappings", c.n_map.to_string())
                .field("duplicate_type_name", c.dup.to_string())
                .field("deviating_sites", "unhooked(hash-seed)")
                .rank((c.n_files * 10 + c.n_map) as u64),
            );
            break;
        }
    }
    (vs, explored + free, nontrivial, outcomes)
}

/// One generated file is moved elsewhere after the first run and a symbolic link left in its place
/// (bindings shared between packages): the file is still there for every reader, so two more
/// unchanged, non-forced runs must leave everything untouched - link, target and the other files.
fn linked_output_case(file: &str, zod: bool, seam: Seam) -> (Vec<Violation>, Vec<String>) {
    let project = multi_file_project(2);
    let cfg = FileCfg { zod, ..Default::default() };
    let sb = run::Sandbox::new();
    sbx::write_sources(&sb.root, &project, &cfg);
    let od = sbx::out_dir(&sb.root, &cfg);
    let r1 = sbx::run_generate(&sb.root, seam, &RunOpts::default());
    if !r1.success() || !od.join(file).is_file() {
        return (vec![], vec![format!("linked: run1 failed {}", r1.status_string())]);
    }
    let shared = sb.path("shared-bindings");
    let _ = std::fs::create_dir_all(&shared);
    let target = shared.join(file);
    if std::fs::rename(od.join(file), &target).is_err() || std::os::unix::fs::symlink(&target, od.join(file)).is_err() {
        return (vec![], vec!["linked: could not create the link".into()]);
    }
    // (follows links: the state a reader of the directory sees)
    let stat = |dir: &Path| -> BTreeMap<String, (Vec<u8>, u64, bool)> {
        let mut m = BTreeMap::new();
        if let Ok(rd) = std::fs::read_dir(dir) {
            for e in rd.flatten() {
                let p = e.path();
                let mt = std::fs::metadata(&p).ok().and_then(|md| md.modified().ok()).and_then(|t| t.duration_since(SystemTime::UNIX_EPOCH).ok()).map(|d| d.as_secs()).unwrap_or(0);
                let is_link = std::fs::symlink_metadata(&p).map(|md| md.file_type().is_symlink()).unwrap_or(false);
                m.insert(e.file_name().to_string_lossy().to_string(), (std::fs::read(&p).unwrap_or_default(), mt, is_link));
            }
        }
        m
    };
    let mut vs = vec![];
    let mut outcomes = vec![];
    for run_no in 2..=3 {
        set_mtimes_past(&od);
        let before = stat(&od);
        let r = sbx::run_generate(&sb.root, seam, &RunOpts::default());
        let after = stat(&od);
        let mut t: Vec<String> = vec![];
        for (n, b) in &before {
            match after.get(n) {
                None => t.push(format!("{} deleted", n)),
                Some(a) if a.0 != b.0 => t.push(format!("{} content changed", n)),
                Some(a) if a.1 != b.1 => t.push(format!("{} rewritten (mtime changed)", n)),
                Some(a) if a.2 != b.2 => t.push(format!("{} is {} a link", n, if a.2 { "now" } else { "no longer" })),
                _ => {}
            }
        }
        t.extend(after.keys().filter(|n| !before.contains_key(*n)).map(|n| format!("{} created", n)));
        outcomes.push(format!("linked:{}|touched={}", r.status_string(), t.len()));
        if !r.success() || !t.is_empty() {
            vs.push(
                Violation::new(
                    "C14",
                    "needless-rewrite",
                    format!("{} is a symbolic link to the moved file, {} mode, {}: unchanged non-forced run #{} -> {}; touched: {}", file, cfg.mode_name(), seam.name(), run_no, r.status_string(), t.join(", ")),
                    json!({"kind":"linked","file":file,"zod":zod,"seam":seam.name()}),
                )
                .field("seam", seam.name())
                .field("mode", cfg.mode_name())
                .field("files", "2")
                .field("mappings", "0")
                .field("duplicate_type_name", "false")
                .field("deviating_sites", format!("linked-output:{}", file))
                .rank(5),
            );
            break;
        }
    }
    (vs, outcomes)
}

#[derive(Debug, Clone, Copy, PartialEq)]
enum CacheState {
    Absent,
    Matching,
    Mismatching,
    Corrupt,
    WrongVersion,
}

/// write the configuration where the run will look for it: the standalone typegen.json (CLI: -c,
/// build path: discovered) or the plugins.typegen section of a discovered ./tauri.conf.json
fn write_cfg(root: &Path, cfg: &FileCfg, tauri_conf: bool) {
    if tauri_conf {
        let _ = std::fs::remove_file(root.join("typegen.json"));
        std::fs::write(root.join("tauri.conf.json"), cfg.to_tauri_conf_json()).unwrap();
    } else {
        std::fs::write(root.join("typegen.json"), cfg.to_json()).unwrap();
    }
}

fn force_case(cache: CacheState, file_force: Option<bool>, flag: bool, seam: Seam, zod: bool, tauri_conf: bool) -> (Option<Violation>, String) {
    let project = multi_file_project(2);
    // (the plain-mode half of the matrix also asks for the dependency visualisation)
    let mut cfg = FileCfg { zod, visualize_deps: !zod, ..Default::default() };
    let sb = run::Sandbox::new();
    sbx::write_sources(&sb.root, &project, &cfg);
    write_cfg(&sb.root, &cfg, tauri_conf);
    let od = sbx::out_dir(&sb.root, &cfg);
    let r1 = sbx::run_generate(&sb.root, seam, &RunOpts { discover_config: tauri_conf, ..Default::default() });
    if !r1.success() {
        return (None, "run1 failed".into());
    }
    let cache_path = od.join(".typecache");
    match cache {
        CacheState::Absent => {
            let _ = std::fs::remove_file(&cache_path);
        }
        CacheState::Matching => {}
        CacheState::Mismatching => {
            let t = std::fs::read_to_string(&cache_path).unwrap_or_default();
            let mut v: Value = serde_json::from_str(&t).unwrap_or(json!({}));
            v["combined_hash"] = json!("0000");
            let _ = std::fs::write(&cache_path, serde_json::to_string_pretty(&v).unwrap());
        }
        CacheState::Corrupt => {
            let _ = std::fs::write(&cache_path, "{ not json");
        }
        CacheState::WrongVersion => {
            let t = std::fs::read_to_string(&cache_path).unwrap_or_default();
            let mut v: Value = serde_json::from_str(&t).unwrap_or(json!({}));
            v["version"] = json!(999);
            let _ = std::fs::write(&cache_path, serde_json::to_string_pretty(&v).unwrap());
        }
    }
    cfg.force = file_force;
    write_cfg(&sb.root, &cfg, tauri_conf);
    set_mtimes_past(&od);
    let before = stat_dir(&od);
    let r2 = sbx::run_generate(&sb.root, seam, &RunOpts { force_flag: flag, discover_config: tauri_conf, ..Default::default() });
    let after = stat_dir(&od);
    let force_in_effect = flag || file_force == Some(true);
    let gen_files = ["types.ts", "commands.ts", "events.ts", "index.ts"];
    let rewritten: Vec<&str> = gen_files
        .iter()
        .copied()
        .filter(|f| after.get(*f).map(|x| x.1) != before.get(*f).map(|x| x.1))
        .collect();
    let outcome = format!("{}|rewritten={}", r2.status_string(), rewritten.len());
    let mk = |class: &str, detail: String| {
        Violation::new(
            "C14",
            class,
            detail,
            json!({"kind":"force","cache":format!("{:?}",cache),"file_force":file_force,"flag":flag,"seam":seam.name(),"zod":zod,"tauri_conf":tauri_conf}),
        )
        .field("seam", seam.name())
        .field("mode", if zod { "zod" } else { "none" })
        .field("cache", format!("{:?}", cache))
        .field("file_force", format!("{:?}", file_force))
        .field("flag", flag.to_string())
        .field("config", if tauri_conf { "tauri.conf.json" } else { "typegen.json" })
    };
    if !r2.success() {
        return (Some(mk("force-run-failed", format!("run exited {} : {}", r2.status_string(), r2.stderr.trim()))), outcome);
    }
    if force_in_effect {
        let missing: Vec<&str> = gen_files.iter().copied().filter(|f| !rewritten.contains(f)).collect();
        if !missing.is_empty() {
            return (
                Some(mk(
                    "force-ignored",
                    format!("force in effect (flag={}, file force={:?}, cache {:?}) but not regenerated: {:?}", flag, file_force, cache, missing),
                )),
                outcome,
            );
        }
        // content equals a fresh generation
        let mut c2 = cfg.clone();
        c2.force = None;
        if let Some(reference) = sbx::reference_output(&project, &c2) {
            let out = run::read_out_dir(&od);
            let d = sbx::diff_against_reference(&out, &reference);
            if !d.is_empty() {
                return (Some(mk("force-output-differs", d.join("; "))), outcome);
            }
        }
    } else if cache == CacheState::Matching {
        let t = touched(&before, &after);
        if !t.is_empty() {
            return (Some(mk("needless-rewrite", format!("no force, matching cache, yet: {}", t.join(", ")))), outcome);
        }
    }
    // whatever the second run was, a third one without force and without any change rewrites nothing
    cfg.force = None;
    write_cfg(&sb.root, &cfg, tauri_conf);
    set_mtimes_past(&od);
    let before3 = stat_dir(&od);
    let r3 = sbx::run_generate(&sb.root, seam, &RunOpts { discover_config: tauri_conf, ..Default::default() });
    let t3 = touched(&before3, &stat_dir(&od));
    if !r3.success() || !t3.is_empty() {
        return (Some(mk("needless-rewrite", format!("after the {} run an unchanged non-forced run -> {}; touched: {}", if force_in_effect { "forced" } else { "second" }, r3.status_string(), t3.join(", ")))), format!("{}|third-touched={}", outcome, t3.len()));
    }
    (None, outcome)
}

pub fn replay(case: &Value) -> Vec<Violation> {
    let seam = if case["seam"] == "build" { Seam::Build } else { Seam::Cli };
    let zod = case["zod"].as_bool().unwrap_or(false);
    if case["kind"] == "linked" {
        return linked_output_case(case["file"].as_str().unwrap_or("types.ts"), zod, seam).0;
    }
    if case["kind"] == "force" {
        let cache = match case["cache"].as_str().unwrap_or("") {
            "Absent" => CacheState::Absent,
            "Mismatching" => CacheState::Mismatching,
            "Corrupt" => CacheState::Corrupt,
            "WrongVersion" => CacheState::WrongVersion,
            _ => CacheState::Matching,
        };
        let ff = case["file_force"].as_bool();
        let flag = case["flag"].as_bool().unwrap_or(false);
        force_case(cache, ff, flag, seam, zod, case["tauri_conf"].as_bool().unwrap_or(false)).0.into_iter().collect()
    } else {
        let c = RerunCase {
            n_files: case["n_files"].as_u64().unwrap_or(1) as usize,
            n_map: case["n_map"].as_u64().unwrap_or(0) as usize,
            zod,
            seam,
            dup: case["dup"].as_bool().unwrap_or(false),
            visualize: case["visualize"].as_bool().unwrap_or(false),
        };
        let want: Vec<usize> = case["choice"].as_array().map(|a| a.iter().map(|x| x.as_u64().unwrap_or(0) as usize).collect()).unwrap_or_default();
        let (vs, _, _, _) = rerun_case(&c, usize::MAX, 12);
        if case["choice"] == "free" {
            return vs.into_iter().filter(|v| v.replay["choice"] == "free").collect();
        }
        vs.into_iter().filter(|v| v.replay["choice"] == json!(want)).collect()
    }
}

pub fn run(tier: Tier) -> CheckResult {
    let mut res = CheckResult::new("C14", "model_checking");
    let deadline = tier_deadline(tier);
    let (max_files, max_map) = match tier {
        Tier::Quick => (4usize, 3usize),
        Tier::Thorough => (5usize, 3usize),
    };
    let mut cases = vec![];
    for n_files in 1..=max_files {
        for n_map in 0..=max_map {
            for zod in [false, true] {
                for seam in [Seam::Cli, Seam::Build] {
                    cases.push(RerunCase { n_files, n_map, zod, seam, dup: false, visualize: false });
                }
            }
        }
    }
    // a type name defined twice (hooked orders of the 1+2 / 2+2 files, then one process per hash seed)
    for n_files in [1usize, 2] {
        for seam in [Seam::Cli, Seam::Build] {
            cases.push(RerunCase { n_files, n_map: 0, zod: n_files == 2, seam, dup: true, visualize: false });
        }
    }
    // with the dependency visualisation requested
    for n_files in [1usize, 3] {
        for seam in [Seam::Cli, Seam::Build] {
            for zod in [false, true] {
                cases.push(RerunCase { n_files, n_map: 2, zod, seam, dup: false, visualize: true });
            }
        }
    }
    if tier == Tier::Thorough {
        // 6 files: the S1 site alone (720 orders) with one mapping is still a complete product
        for n_files in [6usize] {
            for seam in [Seam::Cli, Seam::Build] {
                cases.push(RerunCase { n_files, n_map: 1, zod: false, seam, dup: false, visualize: false });
            }
        }
    }
    let results: Vec<(Vec<Violation>, usize, bool, Vec<String>, (usize, usize))> = cases
        .par_iter()
        .map(|c| {
            if deadline.passed() {
                return (vec![], 0, false, vec!["skipped-deadline".into()], (c.n_files, c.n_map));
            }
            let (v, n, nt, o) = rerun_case(c, 5000, if tier == Tier::Quick { 8 } else { 24 });
            (v, n, nt, o, (c.n_files, c.n_map))
        })
        .collect();
    let mut schedules = 0u64;
    let mut nontrivial = 0u64;
    let mut outcomes: BTreeSet<String> = BTreeSet::new();
    let mut violations = vec![];
    let mut exhaustive = true;
    for (v, n, nt, o, _) in results {
        schedules += n as u64;
        if nt {
            nontrivial += 1;
        }
        for x in &o {
            if x == "skipped-deadline" {
                exhaustive = false;
            }
            if x == "divergence" {
                res.machinery_errors.push("hook replay divergence (exit 97) in a second run".into());
            }
        }
        outcomes.extend(o);
        violations.extend(v);
    }
    // a generated file replaced by a link to where it was moved
    let linked: Vec<(&str, bool, Seam)> = ["types.ts", "commands.ts", "index.ts", "events.ts"].iter().flat_map(|f| [(*f, false, Seam::Cli), (*f, true, Seam::Cli), (*f, false, Seam::Build), (*f, true, Seam::Build)]).collect();
    let lres: Vec<(Vec<Violation>, Vec<String>)> = linked.par_iter().map(|(f, z, s)| linked_output_case(f, *z, *s)).collect();
    for (v, o) in lres {
        schedules += 2;
        outcomes.extend(o);
        violations.extend(v);
    }
    // minimal-first: keep, per (seam, mode, deviating_sites), only the smallest (files, mappings)
    violations.sort_by_key(|v| v.rank);
    let mut seen: BTreeSet<String> = BTreeSet::new();
    let mut primary = vec![];
    for v in violations {
        let k = format!("{}|{}|{}|{}", v.fields["seam"], v.fields["mode"], v.fields["deviating_sites"], v.fields["duplicate_type_name"]);
        if seen.insert(k) {
            primary.push(v);
        } else {
            res.derived += 1;
        }
    }

    // force matrix
    let mut force_runs = 0u64;
    let mut fcases = vec![];
    for cache in [CacheState::Absent, CacheState::Matching, CacheState::Mismatching, CacheState::Corrupt, CacheState::WrongVersion] {
        for ff in [None, Some(false), Some(true)] {
            for flag in [false, true] {
                for seam in [Seam::Cli, Seam::Build] {
                    if seam == Seam::Build && flag {
                        continue; // the build path has no flag
                    }
                    for zod in [false, true] {
                        fcases.push((cache, ff, flag, seam, zod, false));
                    }
                    // the same through the plugins.typegen section of a discovered tauri.conf.json
                    fcases.push((cache, ff, flag, seam, cache == CacheState::Matching, true));
                }
            }
        }
    }
    let fres: Vec<(Option<Violation>, String)> = fcases.par_iter().map(|(c, ff, fl, s, z, tc)| force_case(*c, *ff, *fl, *s, *z, *tc)).collect();
    for (v, o) in fres {
        force_runs += 1;
        outcomes.insert(format!("force:{}", o));
        if let Some(v) = v {
            primary.push(v);
        }
    }
    res.violations = primary;
    res.coverage.set("states", (cases.len() + fcases.len()) as u64);
    res.coverage.set("transitions", schedules + force_runs * 2);
    res.coverage.set("schedules", schedules);
    res.coverage.set("traces_validated_against_impl", schedules + force_runs * 2);
    res.coverage.set("evaluations", schedules + force_runs);
    res.coverage.set("distinct_nontrivial", nontrivial + force_runs);
    res.coverage.set("force_matrix_cases", force_runs);
    res.coverage.set("distinct_outcomes", outcomes.len() as u64);
    res.coverage.set("outcomes", json!(outcomes));
    res.coverage.set("exhaustive", exhaustive);
    res.coverage.set("hooks_enabled", run::HOOKS_ENABLED);
    res.coverage.set("samples", json!([
        {"kind":"rerun","n_files":3,"n_map":2,"seam":"cli","zod":false,"second_run_schedule":"S1.files#0=4;S9.type_mappings#0=1"},
        {"kind":"force","cache":"Matching","file_force":false,"flag":true,"seam":"cli"},
        {"kind":"force","cache":"Corrupt","file_force":true,"flag":false,"seam":"build"}
    ]));
    res.coverage.set("rule", format!("[round 7: each generated file in turn moved away and replaced by a symbolic link to it, two more unchanged runs] re-run: projects of 1..{} files x 0..{} type mappings x modes x seams (plus projects in which two files define a type of the same name, re-run under 3x as many hash seeds; and projects generated with the dependency visualisation); first run under the identity order, then one unchanged non-forced run of the real binary/build path per iteration order of every hook site the second process consults (full product), with all output mtimes set to a fixed past instant beforehand; oracle: no file's bytes or mtime change, none created or deleted. Since the property requires the cache decision to be independent of the order, identity x all-orders is equivalent to all pairs. Force matrix (each case followed by one more unchanged non-forced run that must touch nothing; half of it with the dependency visualisation): cache state x file force x flag x seam x mode x configuration source (standalone typegen.json / plugins.typegen of a discovered tauri.conf.json). A re-run case is non-trivial when the second process consulted a hook site with >= 2 elements.", max_files, max_map));
    res.assumptions = vec![
        "hash-iteration orders are owned through the verif-hooks site S1 (file list), explored as a complete product; every other hash iteration of the second process is owned through its hash seeds (getrandom shim, seeds 0..8 quick / 0..24 thorough, three times as many for the duplicate-type-name projects): a deterministic, replayable seed alphabet, not a complete order product".into(),
    ];
    res
}
