//! Running the implementation: in-process library pipeline (seam L), the real binary (seam B),
//! the build-script path (seam S). Plus sandboxes on tmpfs and the schedule provider glue.

use crate::gen::Project;
use std::cell::RefCell;
use std::collections::BTreeMap;
use std::path::{Path, PathBuf};
use std::sync::atomic::{AtomicU64, Ordering};
use tauri_typegen::GenerateConfig;

// ---------------------------------------------------------------------------------------------
// Sandboxes
// ---------------------------------------------------------------------------------------------

static SANDBOX_COUNTER: AtomicU64 = AtomicU64::new(0);

pub fn work_root() -> PathBuf {
    let base = if Path::new("/dev/shm").is_dir() {
        PathBuf::from("/dev/shm")
    } else {
        crate::core::verif_root().join("build/work")
    };
    base.join(format!("ttv-{}", std::process::id()))
}

pub fn cleanup_work_root() {
    let _ = std::fs::remove_dir_all(work_root());
}

/// A fresh empty directory under the work root; removed on drop.
pub struct Sandbox {
    pub root: PathBuf,
}
impl Sandbox {
    pub fn new() -> Sandbox {
        let n = SANDBOX_COUNTER.fetch_add(1, Ordering::Relaxed);
        let root = work_root().join(format!("s{}", n));
        let _ = std::fs::remove_dir_all(&root);
        std::fs::create_dir_all(&root).expect("create sandbox");
        Sandbox { root }
    }
    pub fn path(&self, rel: &str) -> PathBuf {
        self.root.join(rel)
    }
}
impl Drop for Sandbox {
    fn drop(&mut self) {
        let _ = std::fs::remove_dir_all(&self.root);
    }
}
impl Default for Sandbox {
    fn default() -> Self {
        Self::new()
    }
}

pub fn copy_tree(from: &Path, to: &Path) -> std::io::Result<()> {
    std::fs::create_dir_all(to)?;
    for e in std::fs::read_dir(from)? {
        let e = e?;
        let ft = e.file_type()?;
        let dst = to.join(e.file_name());
        if ft.is_dir() {
            copy_tree(&e.path(), &dst)?;
        } else if ft.is_file() {
            std::fs::copy(e.path(), &dst)?;
        }
    }
    Ok(())
}

/// Recursive listing: relative path -> bytes (directories as entries with a trailing '/').
pub fn snapshot_tree(root: &Path) -> BTreeMap<String, Vec<u8>> {
    fn rec(base: &Path, dir: &Path, out: &mut BTreeMap<String, Vec<u8>>) {
        let Ok(rd) = std::fs::read_dir(dir) else {
            return;
        };
        for e in rd.flatten() {
            let p = e.path();
            let rel = p.strip_prefix(base).unwrap().to_string_lossy().to_string();
            match e.file_type() {
                Ok(ft) if ft.is_dir() => {
                    out.insert(format!("{}/", rel), vec![]);
                    rec(base, &p, out);
                }
                Ok(ft) if ft.is_file() => {
                    out.insert(rel, std::fs::read(&p).unwrap_or_default());
                }
                Ok(_) => {
                    out.insert(format!("{}@", rel), vec![]);
                }
                Err(_) => {}
            }
        }
    }
    let mut out = BTreeMap::new();
    rec(root, root, &mut out);
    out
}

// ---------------------------------------------------------------------------------------------
// Output normalisation
// ---------------------------------------------------------------------------------------------

/// Remove the ` * Generated at: <timestamp>` header line (the only wall-clock dependent text).
pub fn strip_timestamp(s: &str) -> String {
    let mut out = String::with_capacity(s.len());
    for line in s.split_inclusive('\n') {
        if line.trim_start().starts_with("* Generated at:") {
            out.push_str(" * Generated at: <stripped>\n");
        } else {
            out.push_str(line);
        }
    }
    out
}

// ---------------------------------------------------------------------------------------------
// Schedules (hash-iteration orders at the hooked sites)
// ---------------------------------------------------------------------------------------------

/// One consultation of a hook site observed during a run.
#[derive(Debug, Clone, PartialEq, Eq, serde::Serialize, serde::Deserialize)]
pub struct ChoicePoint {
    pub site: String,
    pub n: usize,
    pub choice: usize,
    pub keys: Vec<String>,
}

pub fn factorial(n: usize) -> usize {
    (1..=n).fold(1usize, |a, b| a.saturating_mul(b))
}

thread_local! {
    static TRACE: RefCell<Vec<ChoicePoint>> = const { RefCell::new(Vec::new()) };
}

/// A schedule: choice index per consultation, in consultation order; missing entries = 0.
#[derive(Debug, Clone, Default, PartialEq, Eq, Hash, serde::Serialize, serde::Deserialize)]
pub struct Schedule(pub Vec<usize>);

#[cfg(feature = "hooks")]
fn install_schedule(s: &Schedule) {
    let choices = s.0.clone();
    let mut i = 0usize;
    TRACE.with(|t| t.borrow_mut().clear());
    tauri_typegen::verif_hooks::set_provider(Some(Box::new(move |site, keys| {
        let want = choices.get(i).copied().unwrap_or(0);
        let nf = factorial(keys.len());
        // an out-of-range choice means the replayed prefix diverged: clamp to identity but record
        // choice = usize::MAX so the caller can see it
        let (c, rec) = if want < nf { (want, want) } else { (0, usize::MAX) };
        TRACE.with(|t| {
            t.borrow_mut().push(ChoicePoint {
                site: site.to_string(),
                n: keys.len(),
                choice: rec,
                keys: keys.to_vec(),
            })
        });
        i += 1;
        c
    })));
}
#[cfg(not(feature = "hooks"))]
fn install_schedule(_s: &Schedule) {
    TRACE.with(|t| t.borrow_mut().clear());
}

#[cfg(feature = "hooks")]
fn uninstall_schedule() -> Vec<ChoicePoint> {
    tauri_typegen::verif_hooks::set_provider(None);
    TRACE.with(|t| std::mem::take(&mut *t.borrow_mut()))
}
#[cfg(not(feature = "hooks"))]
fn uninstall_schedule() -> Vec<ChoicePoint> {
    vec![]
}

pub const HOOKS_ENABLED: bool = cfg!(feature = "hooks");

/// Run `f` under schedule `s`; returns f's result and the observed choice points.
pub fn with_schedule<R>(s: &Schedule, f: impl FnOnce() -> R) -> (R, Vec<ChoicePoint>) {
    install_schedule(s);
    let r = f();
    let trace = uninstall_schedule();
    (r, trace)
}

/// Index (factorial number system, as understood by the hooks' `permute`) of a permutation given
/// as "output position i takes sorted element perm[i]".
pub fn perm_index(perm: &[usize]) -> usize {
    let n = perm.len();
    let mut avail: Vec<usize> = (0..n).collect();
    let mut idx = 0usize;
    for (i, p) in perm.iter().enumerate() {
        let k = avail.iter().position(|x| x == p).unwrap_or(0);
        avail.remove(k);
        idx = idx.saturating_add(k.saturating_mul(factorial(n - 1 - i)));
    }
    idx
}

/// The alternative orders tried at a choice point with n elements: all n!-1 for n <= 4; for
/// larger n the generating set {reversal, every adjacent transposition, every move-to-front,
/// every move-to-back} (a stated reduction of the order alphabet, reported in the evidence).
pub fn alternatives(n: usize) -> Vec<usize> {
    if n <= 4 {
        return (1..factorial(n)).collect();
    }
    let id: Vec<usize> = (0..n).collect();
    let mut perms: Vec<Vec<usize>> = vec![];
    let mut rev = id.clone();
    rev.reverse();
    perms.push(rev);
    for i in 0..n - 1 {
        let mut p = id.clone();
        p.swap(i, i + 1);
        perms.push(p);
    }
    for i in 1..n {
        let mut p = id.clone();
        let x = p.remove(i);
        p.insert(0, x);
        perms.push(p);
    }
    for i in 0..n - 1 {
        let mut p = id.clone();
        let x = p.remove(i);
        p.push(x);
        perms.push(p);
    }
    let mut idx: Vec<usize> = perms.iter().map(|p| perm_index(p)).filter(|i| *i != 0).collect();
    idx.sort();
    idx.dedup();
    idx
}

/// Stateless DFS over schedules with a bound on the number of deviating choice points.
/// `run` executes one schedule and returns the trace of choice points met. Returns the number of
/// schedules executed and whether the enumeration was complete for the given bound.
pub fn explore_schedules(
    bound: Option<usize>,
    max_schedules: usize,
    mut run: impl FnMut(&Schedule) -> Vec<ChoicePoint>,
) -> (usize, bool) {
    let mut count = 0usize;
    let mut complete = true;
    // stack of (prefix choices, deviations used, first index free to vary)
    let mut stack: Vec<(Vec<usize>, usize, usize)> = vec![(vec![], 0, 0)];
    while let Some((prefix, devs, from)) = stack.pop() {
        if count >= max_schedules {
            complete = false;
            break;
        }
        let sched = Schedule(prefix.clone());
        let trace = run(&sched);
        count += 1;
        // children: deviate at one later point
        for i in (from..trace.len()).rev() {
            if trace[i].n <= 1 {
                continue;
            }
            if let Some(b) = bound {
                if devs + 1 > b {
                    continue;
                }
            }
            for alt in alternatives(trace[i].n).into_iter().rev() {
                let mut p: Vec<usize> = (0..i)
                    .map(|j| prefix.get(j).copied().unwrap_or(0))
                    .collect();
                p.push(alt);
                stack.push((p, devs + 1, i + 1));
            }
        }
    }
    (count, complete)
}

// ---------------------------------------------------------------------------------------------
// Seam L: in-process pipeline
// ---------------------------------------------------------------------------------------------

#[derive(Debug, Clone)]
pub enum LibStatus {
    Ok(Vec<String>),
    Err(String),
    Panic(String),
}

#[derive(Debug, Clone)]
pub struct LibRun {
    pub status: LibStatus,
    /// output file name -> content
    pub files: BTreeMap<String, String>,
    pub trace: Vec<ChoicePoint>,
}

impl LibRun {
    pub fn ok(&self) -> bool {
        matches!(self.status, LibStatus::Ok(_))
    }
    pub fn file(&self, name: &str) -> Option<&str> {
        self.files.get(name).map(|s| s.as_str())
    }
    pub fn status_string(&self) -> String {
        match &self.status {
            LibStatus::Ok(f) => format!("ok({})", f.join(",")),
            LibStatus::Err(e) => format!("err({})", e),
            LibStatus::Panic(p) => format!("PANIC({})", p),
        }
    }
}

thread_local! {
    static PANIC_MSG: RefCell<Option<String>> = const { RefCell::new(None) };
}

pub fn install_panic_hook() {
    std::panic::set_hook(Box::new(|info| {
        let loc = info
            .location()
            .map(|l| format!("{}:{}", l.file(), l.line()))
            .unwrap_or_default();
        let msg = if let Some(s) = info.payload().downcast_ref::<&str>() {
            s.to_string()
        } else if let Some(s) = info.payload().downcast_ref::<String>() {
            s.clone()
        } else {
            "non-string panic".to_string()
        };
        PANIC_MSG.with(|p| *p.borrow_mut() = Some(format!("{} at {}", msg, loc)));
    }));
}

pub fn take_panic_msg() -> Option<String> {
    PANIC_MSG.with(|p| p.borrow_mut().take())
}

#[derive(Debug, Clone, Default, serde::Serialize, serde::Deserialize, PartialEq)]
pub struct Cfg {
    pub zod: bool,
    #[serde(default)]
    pub type_mappings: Vec<(String, String)>,
    #[serde(default)]
    pub default_parameter_case: Option<String>,
    #[serde(default)]
    pub default_field_case: Option<String>,
    #[serde(default)]
    pub verbose: bool,
    #[serde(default)]
    pub visualize_deps: bool,
}

impl Cfg {
    pub fn mode(zod: bool) -> Cfg {
        Cfg {
            zod,
            ..Default::default()
        }
    }
    pub fn mode_name(&self) -> &'static str {
        if self.zod {
            "zod"
        } else {
            "none"
        }
    }
    pub fn to_generate_config(&self, project: &Path, out: &Path) -> GenerateConfig {
        let mut c = GenerateConfig {
            project_path: project.to_string_lossy().to_string(),
            output_path: out.to_string_lossy().to_string(),
            validation_library: self.mode_name().to_string(),
            verbose: Some(self.verbose),
            visualize_deps: Some(self.visualize_deps),
            ..Default::default()
        };
        if !self.type_mappings.is_empty() {
            c.type_mappings = Some(self.type_mappings.iter().cloned().collect());
        }
        if let Some(p) = &self.default_parameter_case {
            c.default_parameter_case = p.clone();
        }
        if let Some(f) = &self.default_field_case {
            c.default_field_case = f.clone();
        }
        c
    }
}

/// Write the project to a fresh sandbox, run `generate_from_config` in process under `schedule`,
/// read the output directory back.
pub fn run_lib(project: &Project, cfg: &Cfg, schedule: &Schedule) -> LibRun {
    let sb = Sandbox::new();
    let proj_dir = sb.path("proj");
    let out_dir = sb.path("out");
    project.write_to(&proj_dir).expect("write project");
    std::fs::create_dir_all(&proj_dir).ok();
    let gc = cfg.to_generate_config(&proj_dir, &out_dir);
    let (status, trace) = with_schedule(schedule, || {
        let r = std::panic::catch_unwind(std::panic::AssertUnwindSafe(|| {
            tauri_typegen::generate_from_config(&gc).map_err(|e| e.to_string())
        }));
        match r {
            Ok(Ok(files)) => LibStatus::Ok(files),
            Ok(Err(e)) => LibStatus::Err(e),
            Err(_) => LibStatus::Panic(take_panic_msg().unwrap_or_default()),
        }
    });
    let mut files = BTreeMap::new();
    if let Ok(rd) = std::fs::read_dir(&out_dir) {
        for e in rd.flatten() {
            if e.path().is_file() {
                let name = e.file_name().to_string_lossy().to_string();
                let content = std::fs::read(e.path()).unwrap_or_default();
                files.insert(name, String::from_utf8_lossy(&content).to_string());
            }
        }
    }
    LibRun {
        status,
        files,
        trace,
    }
}

pub fn run_lib_default(project: &Project, cfg: &Cfg) -> LibRun {
    run_lib(project, cfg, &Schedule::default())
}

// ---------------------------------------------------------------------------------------------
// Seam B / S: subprocesses
// ---------------------------------------------------------------------------------------------

pub fn cli_binary() -> PathBuf {
    std::env::var("TTV_CLI_BIN")
        .map(PathBuf::from)
        .unwrap_or_else(|_| {
            crate::core::verif_root().join("build/repo-hooks/debug/cargo-tauri-typegen")
        })
}

pub fn build_driver_binary() -> PathBuf {
    let me = std::env::current_exe().unwrap_or_default();
    me.with_file_name("ttv-build-driver")
}

#[derive(Debug, Clone)]
pub struct ProcRun {
    pub code: Option<i32>,
    pub signal: Option<i32>,
    pub stdout: String,
    pub stderr: String,
    pub trace: Vec<ChoicePoint>,
}

impl ProcRun {
    pub fn success(&self) -> bool {
        self.code == Some(0)
    }
    pub fn status_string(&self) -> String {
        match (self.code, self.signal) {
            (Some(c), _) => format!("exit({})", c),
            (None, Some(s)) => format!("signal({})", s),
            _ => "unknown".into(),
        }
    }
}

/// Encode a schedule for the env provider given a reference trace of sites (site#occurrence=idx).
pub fn schedule_env(sites_in_order: &[String], s: &Schedule) -> String {
    let mut occ: BTreeMap<&str, usize> = BTreeMap::new();
    let mut parts = vec![];
    for (i, site) in sites_in_order.iter().enumerate() {
        let k = occ.entry(site.as_str()).or_insert(0);
        let idx = s.0.get(i).copied().unwrap_or(0);
        if idx != 0 {
            parts.push(format!("{}#{}={}", site, *k, idx));
        }
        *k += 1;
    }
    parts.join(";")
}

pub fn parse_trace_file(p: &Path) -> Vec<ChoicePoint> {
    let Ok(text) = std::fs::read_to_string(p) else {
        return vec![];
    };
    text.lines()
        .filter_map(|l| {
            let f: Vec<&str> = l.splitn(5, '\t').collect();
            if f.len() < 5 {
                return None;
            }
            Some(ChoicePoint {
                site: f[0].to_string(),
                n: f[2].parse().ok()?,
                choice: f[3].parse().ok()?,
                keys: f[4].split(',').map(|s| s.to_string()).collect(),
            })
        })
        .collect()
}

pub struct Spawn<'a> {
    pub program: PathBuf,
    pub args: Vec<String>,
    pub cwd: &'a Path,
    pub schedule_env: Option<String>,
    pub trace_file: Option<PathBuf>,
    /// wrap in strace with these extra arguments (e.g. fault injection)
    pub strace: Option<Vec<String>>,
    /// own the process's hash seeds: std's RandomState keys come from getrandom(2), which the
    /// preloaded shim (harness/shim/ttvseed.c) answers deterministically from this number, so every
    /// HashMap / HashSet iteration order of the run - hooked or not - is a function of it
    pub hash_seed: Option<u64>,
    /// RLIMIT_FSIZE for the process, with SIGXFSZ ignored: a write that would grow a file beyond
    /// this many bytes is cut short by the kernel and the next one fails with EFBIG - a real short
    /// write (disk full / quota) rather than an injected error. Not combinable with `strace`
    /// (the tracer's own log would be limited too).
    pub fsize_limit: Option<u64>,
}

/// the getrandom shim built by ./check (None when it could not be built: seeds then run free)
pub fn seed_shim() -> Option<PathBuf> {
    let p = crate::core::verif_root().join("build/libttvseed.so");
    if p.is_file() {
        Some(p)
    } else {
        None
    }
}

pub fn spawn(sp: Spawn) -> ProcRun {
    use std::os::unix::process::ExitStatusExt;
    use std::process::Command;
    let mut cmd = if let Some(st) = &sp.strace {
        let mut c = Command::new("strace");
        c.args(st);
        c.arg(&sp.program);
        c
    } else {
        Command::new(&sp.program)
    };
    cmd.args(&sp.args);
    cmd.current_dir(sp.cwd);
    cmd.env_clear();
    cmd.env("PATH", "/usr/bin:/bin");
    cmd.env("HOME", sp.cwd);
    cmd.env("NO_COLOR", "1");
    cmd.env("TERM", "dumb");
    if let Some(s) = &sp.schedule_env {
        cmd.env("TAURI_TYPEGEN_VERIF_SCHEDULE", s);
    }
    if let (Some(seed), Some(shim)) = (sp.hash_seed, seed_shim()) {
        cmd.env("LD_PRELOAD", shim);
        cmd.env("TTV_HASH_SEED", seed.to_string());
    }
    if let Some(t) = &sp.trace_file {
        let _ = std::fs::remove_file(t);
        cmd.env("TAURI_TYPEGEN_VERIF_TRACE", t);
    }
    cmd.stdin(std::process::Stdio::null());
    if let Some(limit) = sp.fsize_limit {
        use std::os::unix::process::CommandExt;
        unsafe {
            cmd.pre_exec(move || {
                let lim = libc::rlimit { rlim_cur: limit as libc::rlim_t, rlim_max: limit as libc::rlim_t };
                if libc::setrlimit(libc::RLIMIT_FSIZE, &lim) != 0 {
                    return Err(std::io::Error::last_os_error());
                }
                libc::signal(libc::SIGXFSZ, libc::SIG_IGN);
                Ok(())
            });
        }
    }
    match cmd.output() {
        Ok(o) => ProcRun {
            code: o.status.code(),
            signal: o.status.signal(),
            stdout: String::from_utf8_lossy(&o.stdout).to_string(),
            stderr: String::from_utf8_lossy(&o.stderr).to_string(),
            trace: sp
                .trace_file
                .as_ref()
                .map(|t| parse_trace_file(t))
                .unwrap_or_default(),
        },
        Err(e) => ProcRun {
            code: None,
            signal: None,
            stdout: String::new(),
            stderr: format!("spawn failed: {}", e),
            trace: vec![],
        },
    }
}

/// `cargo-tauri-typegen tauri-typegen generate <args>` in `cwd`.
pub fn run_cli(cwd: &Path, args: &[&str]) -> ProcRun {
    let mut a = vec!["tauri-typegen".to_string()];
    a.extend(args.iter().map(|s| s.to_string()));
    spawn(Spawn {
        program: cli_binary(),
        args: a,
        cwd,
        schedule_env: None,
        trace_file: None,
        strace: None, hash_seed: None, fsize_limit: None
    })
}

/// Output directory snapshot: name -> content with the timestamp line stripped.
pub fn read_out_dir(dir: &Path) -> BTreeMap<String, String> {
    let mut m = BTreeMap::new();
    if let Ok(rd) = std::fs::read_dir(dir) {
        for e in rd.flatten() {
            if e.path().is_file() {
                let name = e.file_name().to_string_lossy().to_string();
                let content = std::fs::read(e.path()).unwrap_or_default();
                m.insert(
                    name,
                    strip_timestamp(&String::from_utf8_lossy(&content)),
                );
            }
        }
    }
    m
}
