//! Summaries of parsed generated modules: declarations in order, invoke/listen call sites,
//! name-resolution helpers.

use crate::ts::*;
use std::collections::{BTreeMap, BTreeSet};

#[derive(Debug, Clone, PartialEq, Eq)]
pub enum DeclKind {
    Interface,
    TypeAlias,
    Const,
    Function,
}

#[derive(Debug, Clone)]
pub struct Decl {
    pub name: String,
    pub kind: DeclKind,
    pub exported: bool,
}

#[derive(Debug, Clone, Default)]
pub struct ModInfo {
    /// local binding name -> (module, imported name or "*" for namespace / "default")
    pub imports: BTreeMap<String, (String, String)>,
    pub decls: Vec<Decl>,
    pub interfaces: BTreeMap<String, (Vec<Type>, Vec<Member>)>,
    pub aliases: BTreeMap<String, Type>,
    /// top-level const/let/var declarations in order: (name, annotation, initialiser)
    pub vars: Vec<(String, Option<Type>, Option<Expr>)>,
    pub funcs: BTreeMap<String, Function>,
    /// `export * from 'm'`
    pub star_reexports: Vec<String>,
    /// names declared more than once in the same namespace (value or type)
    pub duplicate_exports: Vec<String>,
}

impl ModInfo {
    pub fn of(m: &Module) -> ModInfo {
        let mut mi = ModInfo::default();
        let mut seen_value: BTreeSet<String> = BTreeSet::new();
        let mut seen_type: BTreeSet<String> = BTreeSet::new();
        for item in &m.items {
            match item {
                Item::Import { default, namespace, named, from, .. } => {
                    if let Some(d) = default {
                        mi.imports.insert(d.clone(), (from.clone(), "default".into()));
                    }
                    if let Some(ns) = namespace {
                        mi.imports.insert(ns.clone(), (from.clone(), "*".into()));
                    }
                    for s in named {
                        mi.imports.insert(s.local.clone(), (from.clone(), s.imported.clone()));
                    }
                }
                Item::ExportStar { from, .. } => mi.star_reexports.push(from.clone()),
                Item::ExportNamed { .. } | Item::ExportDefault(_) | Item::Stmt(_) => {}
                Item::Interface { exported, name, extends, body, .. } => {
                    mi.decls.push(Decl { name: name.clone(), kind: DeclKind::Interface, exported: *exported });
                    // interfaces merge in TS, but the generator never intends that: report as duplicate
                    if !seen_type.insert(name.clone()) && *exported {
                        mi.duplicate_exports.push(name.clone());
                    }
                    mi.interfaces.insert(name.clone(), (extends.clone(), body.clone()));
                }
                Item::TypeAlias { exported, name, ty, .. } => {
                    mi.decls.push(Decl { name: name.clone(), kind: DeclKind::TypeAlias, exported: *exported });
                    if !seen_type.insert(name.clone()) && *exported {
                        mi.duplicate_exports.push(name.clone());
                    }
                    mi.aliases.insert(name.clone(), ty.clone());
                }
                Item::Var { exported, decls, .. } => {
                    for d in decls {
                        if let Pattern::Ident(n) = &d.pattern {
                            mi.decls.push(Decl { name: n.clone(), kind: DeclKind::Const, exported: *exported });
                            if !seen_value.insert(n.clone()) {
                                mi.duplicate_exports.push(n.clone());
                            }
                            mi.vars.push((n.clone(), d.ty.clone(), d.init.clone()));
                        }
                    }
                }
                Item::Func { exported, func } => {
                    if let Some(n) = &func.name {
                        mi.decls.push(Decl { name: n.clone(), kind: DeclKind::Function, exported: *exported });
                        if !seen_value.insert(n.clone()) {
                            mi.duplicate_exports.push(n.clone());
                        }
                        mi.funcs.insert(n.clone(), func.clone());
                    }
                }
            }
        }
        mi
    }

    pub fn exported_types(&self) -> BTreeSet<String> {
        self.decls
            .iter()
            .filter(|d| d.exported && matches!(d.kind, DeclKind::Interface | DeclKind::TypeAlias))
            .map(|d| d.name.clone())
            .collect()
    }
    pub fn exported_values(&self) -> BTreeSet<String> {
        self.decls
            .iter()
            .filter(|d| d.exported && matches!(d.kind, DeclKind::Const | DeclKind::Function))
            .map(|d| d.name.clone())
            .collect()
    }
    pub fn var_init(&self, name: &str) -> Option<&Expr> {
        self.vars.iter().find(|(n, _, _)| n == name).and_then(|(_, _, i)| i.as_ref())
    }
}

// ---------------------------------------------------------------------------------------------
// Walkers
// ---------------------------------------------------------------------------------------------

pub fn walk_expr<'a>(e: &'a Expr, f: &mut dyn FnMut(&'a Expr)) {
    f(e);
    let elems = |items: &'a [ArrayElem], f: &mut dyn FnMut(&'a Expr)| {
        for a in items {
            match a {
                ArrayElem::Item(e) | ArrayElem::Spread(e) => walk_expr(e, f),
                ArrayElem::Hole => {}
            }
        }
    };
    match e {
        Expr::Template(parts) => {
            for p in parts {
                if let TemplatePart::Expr(e) = p {
                    walk_expr(e, f);
                }
            }
        }
        Expr::Array(items) => elems(items, f),
        Expr::Object(props) => {
            for p in props {
                match p {
                    ObjProp::KeyValue(k, v) => {
                        if let PropKey::Computed(c) = k {
                            walk_expr(c, f);
                        }
                        walk_expr(v, f);
                    }
                    ObjProp::Spread(e) => walk_expr(e, f),
                    ObjProp::Method(_, func) => walk_func(func, f),
                    ObjProp::Shorthand(_) => {}
                }
            }
        }
        Expr::Func(func) => walk_func(func, f),
        Expr::Member { object, .. } => walk_expr(object, f),
        Expr::Index { object, index, .. } => {
            walk_expr(object, f);
            walk_expr(index, f);
        }
        Expr::Call { callee, args, .. } | Expr::New { callee, args, .. } => {
            walk_expr(callee, f);
            elems(args, f);
        }
        Expr::Unary(_, e) | Expr::NonNull(e) | Expr::Paren(e) | Expr::As(e, _) => walk_expr(e, f),
        Expr::Binary(_, a, b) | Expr::Assign(_, a, b) => {
            walk_expr(a, f);
            walk_expr(b, f);
        }
        Expr::Cond(a, b, c) => {
            walk_expr(a, f);
            walk_expr(b, f);
            walk_expr(c, f);
        }
        _ => {}
    }
}

pub fn walk_func<'a>(func: &'a Function, f: &mut dyn FnMut(&'a Expr)) {
    for p in &func.params {
        if let Some(d) = &p.default {
            walk_expr(d, f);
        }
    }
    match &func.body {
        FuncBody::Block(stmts) => {
            for s in stmts {
                walk_stmt(s, f);
            }
        }
        FuncBody::Expr(e) => walk_expr(e, f),
    }
}

pub fn walk_stmt<'a>(s: &'a Stmt, f: &mut dyn FnMut(&'a Expr)) {
    match s {
        Stmt::Block(ss) => ss.iter().for_each(|s| walk_stmt(s, f)),
        Stmt::Var { decls, .. } => {
            for d in decls {
                if let Some(i) = &d.init {
                    walk_expr(i, f);
                }
            }
        }
        Stmt::Func(func) => walk_func(func, f),
        Stmt::Return(Some(e)) | Stmt::Throw(e) | Stmt::Expr(e) => walk_expr(e, f),
        Stmt::Return(None) | Stmt::Empty => {}
        Stmt::If { cond, then, otherwise } => {
            walk_expr(cond, f);
            walk_stmt(then, f);
            if let Some(o) = otherwise {
                walk_stmt(o, f);
            }
        }
        Stmt::Try { block, catch, finally } => {
            block.iter().for_each(|s| walk_stmt(s, f));
            if let Some((_, b)) = catch {
                b.iter().for_each(|s| walk_stmt(s, f));
            }
            if let Some(b) = finally {
                b.iter().for_each(|s| walk_stmt(s, f));
            }
        }
    }
}

/// Local `const name = <init>` bindings anywhere inside a function body (for resolving the
/// object that reaches `invoke`).
pub fn local_bindings(func: &Function) -> BTreeMap<String, Expr> {
    fn rec(s: &Stmt, out: &mut BTreeMap<String, Expr>) {
        match s {
            Stmt::Block(ss) => ss.iter().for_each(|s| rec(s, out)),
            Stmt::Var { decls, .. } => {
                for d in decls {
                    if let (Pattern::Ident(n), Some(i)) = (&d.pattern, &d.init) {
                        out.insert(n.clone(), i.clone());
                    }
                }
            }
            Stmt::If { then, otherwise, .. } => {
                rec(then, out);
                if let Some(o) = otherwise {
                    rec(o, out);
                }
            }
            Stmt::Try { block, catch, finally } => {
                block.iter().for_each(|s| rec(s, out));
                if let Some((_, b)) = catch {
                    b.iter().for_each(|s| rec(s, out));
                }
                if let Some(b) = finally {
                    b.iter().for_each(|s| rec(s, out));
                }
            }
            _ => {}
        }
    }
    let mut out = BTreeMap::new();
    if let FuncBody::Block(stmts) = &func.body {
        stmts.iter().for_each(|s| rec(s, &mut out));
    }
    out
}

#[derive(Debug, Clone)]
pub struct CallSite {
    pub callee: String,
    pub type_args: Vec<Type>,
    pub args: Vec<Expr>,
}

/// All calls of a plain identifier `name(...)` inside a function.
pub fn calls_of(func: &Function, name: &str) -> Vec<CallSite> {
    let mut v = vec![];
    walk_func(func, &mut |e| {
        if let Expr::Call { callee, type_args, args, .. } = e {
            if let Expr::Ident(n) = &**callee {
                if n == name {
                    v.push(CallSite {
                        callee: n.clone(),
                        type_args: type_args.clone(),
                        args: args
                            .iter()
                            .filter_map(|a| match a {
                                ArrayElem::Item(e) => Some(e.clone()),
                                _ => None,
                            })
                            .collect(),
                    });
                }
            }
        }
    });
    v
}

/// Free identifiers referenced in type positions of a type (first segment of qualified names).
pub fn type_names(t: &Type, out: &mut Vec<Vec<String>>) {
    match t {
        Type::Ref { name, args } => {
            out.push(name.clone());
            args.iter().for_each(|a| type_names(a, out));
        }
        Type::Array(t) | Type::Paren(t) | Type::KeyOf(t) | Type::Readonly(t) => type_names(t, out),
        Type::Indexed(a, b) => {
            type_names(a, out);
            type_names(b, out);
        }
        Type::Tuple(es) => es.iter().for_each(|e| type_names(&e.ty, out)),
        Type::Object(ms) => members_type_names(ms, out),
        Type::Union(ts) | Type::Intersection(ts) => ts.iter().for_each(|t| type_names(t, out)),
        Type::Fn { params, ret, .. } => {
            for p in params {
                if let Some(t) = &p.ty {
                    type_names(t, out);
                }
            }
            type_names(ret, out);
        }
        Type::Cond { check, extends, then, otherwise } => {
            type_names(check, out);
            type_names(extends, out);
            type_names(then, out);
            type_names(otherwise, out);
        }
        Type::TypeOf(q) => {
            let mut v = vec!["typeof".to_string()];
            v.extend(q.iter().cloned());
            out.push(v);
        }
        _ => {}
    }
}

pub fn members_type_names(ms: &[Member], out: &mut Vec<Vec<String>>) {
    for m in ms {
        match m {
            Member::Prop { ty, .. } => type_names(ty, out),
            Member::Index { key_ty, ty, .. } => {
                type_names(key_ty, out);
                type_names(ty, out);
            }
            Member::Method { params, ret, .. } => {
                for p in params {
                    if let Some(t) = &p.ty {
                        type_names(t, out);
                    }
                }
                type_names(ret, out);
            }
        }
    }
}
