//! Naming oracles. `serde_field` / `serde_variant` are a transcription of serde_derive's
//! `internals/case.rs` (RenameRule::apply_to_field / apply_to_variant); selftest binds them to the
//! real serde through the compiled fixtures. `tauri_arg_key` is what tauri-macros applies to
//! command argument names (heck lowerCamelCase of the unraw'd identifier).

pub const CONVENTIONS: [&str; 8] = [
    "lowercase",
    "UPPERCASE",
    "PascalCase",
    "camelCase",
    "snake_case",
    "SCREAMING_SNAKE_CASE",
    "kebab-case",
    "SCREAMING-KEBAB-CASE",
];

pub fn unraw(ident: &str) -> &str {
    ident.strip_prefix("r#").unwrap_or(ident)
}

pub fn serde_field(rule: &str, field: &str) -> String {
    let field = unraw(field);
    match rule {
        "lowercase" | "snake_case" => field.to_string(),
        "UPPERCASE" | "SCREAMING_SNAKE_CASE" => field.to_ascii_uppercase(),
        "PascalCase" => {
            let mut pascal = String::new();
            let mut capitalize = true;
            for ch in field.chars() {
                if ch == '_' {
                    capitalize = true;
                } else if capitalize {
                    pascal.push(ch.to_ascii_uppercase());
                    capitalize = false;
                } else {
                    pascal.push(ch);
                }
            }
            pascal
        }
        "camelCase" => {
            let pascal = serde_field("PascalCase", field);
            let mut it = pascal.chars();
            match it.next() {
                Some(c) => c.to_ascii_lowercase().to_string() + it.as_str(),
                None => String::new(),
            }
        }
        "kebab-case" => field.replace('_', "-"),
        "SCREAMING-KEBAB-CASE" => field.to_ascii_uppercase().replace('_', "-"),
        _ => field.to_string(),
    }
}

pub fn serde_variant(rule: &str, variant: &str) -> String {
    let variant = unraw(variant);
    match rule {
        "PascalCase" => variant.to_string(),
        "lowercase" => variant.to_ascii_lowercase(),
        "UPPERCASE" => variant.to_ascii_uppercase(),
        "camelCase" => {
            let mut it = variant.chars();
            match it.next() {
                Some(c) => c.to_ascii_lowercase().to_string() + it.as_str(),
                None => String::new(),
            }
        }
        "snake_case" => {
            let mut snake = String::new();
            for (i, ch) in variant.char_indices() {
                if i > 0 && ch.is_uppercase() {
                    snake.push('_');
                }
                snake.push(ch.to_ascii_lowercase());
            }
            snake
        }
        "SCREAMING_SNAKE_CASE" => serde_variant("snake_case", variant).to_ascii_uppercase(),
        "kebab-case" => serde_variant("snake_case", variant).replace('_', "-"),
        "SCREAMING-KEBAB-CASE" => serde_variant("SCREAMING_SNAKE_CASE", variant).replace('_', "-"),
        _ => variant.to_string(),
    }
}

/// Key under which Tauri's command macro looks up an argument by default.
pub fn tauri_arg_key(ident: &str) -> String {
    use heck::ToLowerCamelCase;
    unraw(ident).to_lower_camel_case()
}
