//! On-disk project sandboxes for the subprocess seams (B: CLI binary, S: build-script path).
//!
//! Layout:  <root>/typegen.json            GenerateConfig JSON (used by the CLI through `-c`, and
//!                                         picked up by the build path as the standalone config)
//!          <root>/src-tauri/<files>        project sources
//!          <root>/gen/                     output directory (configurable)

use crate::gen::Project;
use crate::run::{self, ProcRun, Spawn};
use serde::{Deserialize, Serialize};
use serde_json::json;
use std::collections::BTreeMap;
use std::path::{Path, PathBuf};

#[derive(Debug, Clone, Serialize, Deserialize, PartialEq, Eq, Hash, PartialOrd, Ord)]
pub struct FileCfg {
    pub zod: bool,
    pub type_mappings: Vec<(String, String)>,
    pub default_parameter_case: Option<String>,
    pub default_field_case: Option<String>,
    pub visualize_deps: bool,
    pub force: Option<bool>,
    pub output_path: String,
}

impl Default for FileCfg {
    fn default() -> Self {
        FileCfg {
            zod: false,
            type_mappings: vec![],
            default_parameter_case: None,
            default_field_case: None,
            visualize_deps: false,
            force: None,
            output_path: "./gen".into(),
        }
    }
}

impl FileCfg {
    pub fn to_json(&self) -> String {
        let mut o = serde_json::Map::new();
        o.insert("project_path".into(), json!("./src-tauri"));
        o.insert("output_path".into(), json!(self.output_path));
        o.insert(
            "validation_library".into(),
            json!(if self.zod { "zod" } else { "none" }),
        );
        if !self.type_mappings.is_empty() {
            let m: serde_json::Map<String, serde_json::Value> = self
                .type_mappings
                .iter()
                .map(|(k, v)| (k.clone(), json!(v)))
                .collect();
            o.insert("type_mappings".into(), serde_json::Value::Object(m));
        }
        if let Some(p) = &self.default_parameter_case {
            o.insert("default_parameter_case".into(), json!(p));
        }
        if let Some(p) = &self.default_field_case {
            o.insert("default_field_case".into(), json!(p));
        }
        if self.visualize_deps {
            o.insert("visualize_deps".into(), json!(true));
        }
        if let Some(f) = self.force {
            o.insert("force".into(), json!(f));
        }
        serde_json::to_string_pretty(&serde_json::Value::Object(o)).unwrap()
    }
    /// the same settings as a `plugins.typegen` section of a tauri.conf.json document
    pub fn to_tauri_conf_json(&self) -> String {
        let mut o = serde_json::Map::new();
        o.insert("projectPath".into(), json!("./src-tauri"));
        o.insert("outputPath".into(), json!(self.output_path));
        o.insert("validationLibrary".into(), json!(if self.zod { "zod" } else { "none" }));
        if !self.type_mappings.is_empty() {
            let m: serde_json::Map<String, serde_json::Value> = self.type_mappings.iter().map(|(k, v)| (k.clone(), json!(v))).collect();
            o.insert("typeMappings".into(), serde_json::Value::Object(m));
        }
        if self.visualize_deps {
            o.insert("visualizeDeps".into(), json!(true));
        }
        if let Some(f) = self.force {
            o.insert("force".into(), json!(f));
        }
        serde_json::to_string_pretty(&json!({"productName": "demo", "plugins": {"typegen": serde_json::Value::Object(o)}})).unwrap()
    }
    pub fn mode_name(&self) -> &'static str {
        if self.zod {
            "zod"
        } else {
            "none"
        }
    }
}

#[derive(Debug, Clone, Copy, PartialEq, Eq, Hash, PartialOrd, Ord, Serialize, Deserialize)]
pub enum Seam {
    Cli,
    Build,
}
impl Seam {
    pub fn name(self) -> &'static str {
        match self {
            Seam::Cli => "cli",
            Seam::Build => "build",
        }
    }
}

pub fn write_sources(root: &Path, project: &Project, cfg: &FileCfg) {
    let src = root.join("src-tauri");
    let _ = std::fs::remove_dir_all(&src);
    std::fs::create_dir_all(&src).unwrap();
    project.write_to(&src).unwrap();
    std::fs::write(root.join("typegen.json"), cfg.to_json()).unwrap();
}

pub fn out_dir(root: &Path, cfg: &FileCfg) -> PathBuf {
    let p = Path::new(&cfg.output_path);
    if p.is_absolute() {
        p.to_path_buf()
    } else {
        root.join(p)
    }
}

#[derive(Default, Clone)]
pub struct RunOpts {
    pub force_flag: bool,
    pub schedule_env: Option<String>,
    pub trace_file: Option<PathBuf>,
    pub strace: Option<Vec<String>>,
    pub extra_args: Vec<String>,
    /// CLI: do not pass `-c typegen.json` (the configuration is discovered, e.g. ./tauri.conf.json)
    pub discover_config: bool,
    /// see run::Spawn::hash_seed
    pub hash_seed: Option<u64>,
    /// see run::Spawn::fsize_limit
    pub fsize_limit: Option<u64>,
}

pub fn run_generate(root: &Path, seam: Seam, opts: &RunOpts) -> ProcRun {
    match seam {
        Seam::Cli => {
            let mut args: Vec<String> = vec!["tauri-typegen".into(), "generate".into()];
            if !opts.discover_config {
                args.extend(["-c".to_string(), "typegen.json".to_string()]);
            }
            if opts.force_flag {
                args.push("--force".into());
            }
            args.extend(opts.extra_args.iter().cloned());
            run::spawn(Spawn {
                program: run::cli_binary(),
                args,
                cwd: root,
                schedule_env: opts.schedule_env.clone(),
                trace_file: opts.trace_file.clone(),
                strace: opts.strace.clone(), hash_seed: opts.hash_seed, fsize_limit: opts.fsize_limit
            })
        }
        Seam::Build => run::spawn(Spawn {
            program: run::build_driver_binary(),
            args: vec![],
            cwd: root,
            schedule_env: opts.schedule_env.clone(),
            trace_file: opts.trace_file.clone(),
            strace: opts.strace.clone(), hash_seed: opts.hash_seed, fsize_limit: opts.fsize_limit
        }),
    }
}

/// Reference: what a forced generation of these sources/config writes into an empty directory
/// (file name -> content minus timestamp), `.typecache` excluded. Always via the CLI with --force
/// under the identity schedule. None if the reference run itself fails.
pub fn reference_output(project: &Project, cfg: &FileCfg) -> Option<BTreeMap<String, String>> {
    let sb = run::Sandbox::new();
    let mut c = cfg.clone();
    c.output_path = "./gen".into();
    c.force = None;
    write_sources(&sb.root, project, &c);
    let r = run_generate(
        &sb.root,
        Seam::Cli,
        &RunOpts {
            force_flag: true,
            ..Default::default()
        },
    );
    if !r.success() {
        return None;
    }
    let mut m = run::read_out_dir(&sb.root.join("gen"));
    m.remove(".typecache");
    Some(m)
}

/// Compare the real output directory against the reference: every file the reference writes must
/// exist with equal content modulo the timestamp line. Returns the list of discrepancies.
pub fn diff_against_reference(
    out: &BTreeMap<String, String>,
    reference: &BTreeMap<String, String>,
) -> Vec<String> {
    let mut d = vec![];
    for (name, want) in reference {
        match out.get(name) {
            None => d.push(format!("{} missing", name)),
            Some(have) if have != want => {
                let (a, b) = first_diff_line(have, want);
                d.push(format!("{} differs: have `{}` want `{}`", name, a, b));
            }
            _ => {}
        }
    }
    d
}

pub fn first_diff_line(have: &str, want: &str) -> (String, String) {
    let mut hi = have.lines();
    let mut wi = want.lines();
    loop {
        match (hi.next(), wi.next()) {
            (Some(a), Some(b)) if a == b => continue,
            (a, b) => {
                return (
                    a.unwrap_or("<eof>").trim().to_string(),
                    b.unwrap_or("<eof>").trim().to_string(),
                )
            }
        }
    }
}
