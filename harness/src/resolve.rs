//! Name resolution over the generated module graph (the C02 oracle).

use crate::modinfo::{self, ModInfo};
use crate::ts::*;
use std::collections::{BTreeMap, BTreeSet};

pub const TYPE_GLOBALS: &[&str] = &[
    "Promise", "Record", "Array", "ReadonlyArray", "Partial", "Required", "Readonly", "Pick", "Omit", "Exclude", "Extract", "NonNullable", "ReturnType",
    "Parameters", "Awaited", "Map", "Set", "Date", "Error", "Uint8Array", "ArrayBuffer", "Function", "Object", "String", "Number", "Boolean", "RegExp",
    "Iterable", "Iterator", "PromiseLike", "ArrayLike", "WeakMap", "WeakSet", "Symbol", "BigInt", "const",
];
pub const VALUE_GLOBALS: &[&str] = &[
    "undefined", "console", "Promise", "Error", "JSON", "Object", "Array", "Math", "Number", "String", "Boolean", "Symbol", "Map", "Set", "Date", "RegExp",
    "globalThis", "window", "NaN", "Infinity", "parseInt", "parseFloat", "isNaN", "TypeError", "RangeError", "structuredClone", "BigInt", "Reflect",
];

#[derive(Debug, Clone, PartialEq, Eq, PartialOrd, Ord)]
pub struct Problem {
    pub file: String,
    /// unresolved-type | unresolved-value | unresolved-types-member | duplicate-export | index-mismatch | missing-module
    pub kind: String,
    pub name: String,
}

impl Problem {
    pub fn show(&self) -> String {
        format!("{}: {} `{}`", self.file, self.kind, self.name)
    }
}

struct Ctx<'a> {
    file: &'a str,
    mi: &'a ModInfo,
    /// exports of ./types (type namespace, value namespace); None when checking types.ts itself
    types_exports: Option<(&'a BTreeSet<String>, &'a BTreeSet<String>)>,
    local_types: BTreeSet<String>,
    local_values: BTreeSet<String>,
    problems: Vec<Problem>,
}

impl<'a> Ctx<'a> {
    fn problem(&mut self, kind: &str, name: String) {
        self.problems.push(Problem { file: self.file.to_string(), kind: kind.to_string(), name });
    }

    fn namespace_import_of_types(&self, ident: &str) -> bool {
        self.mi.imports.get(ident).is_some_and(|(from, what)| what == "*" && (from == "./types" || from == "./types.ts"))
    }

    fn check_type_name(&mut self, name: &[String], tparams: &BTreeSet<String>) {
        if name.is_empty() {
            return;
        }
        if name[0] == "typeof" {
            // value-level reference
            let rest = &name[1..];
            if rest.is_empty() {
                return;
            }
            self.check_value_path(rest, &BTreeSet::new());
            return;
        }
        let first = &name[0];
        if tparams.contains(first) {
            return;
        }
        if self.namespace_import_of_types(first) {
            if let (Some((tys, _)), Some(member)) = (self.types_exports, name.get(1)) {
                if !tys.contains(member) {
                    self.problem("unresolved-types-member", format!("{} (type)", name.join(".")));
                }
            }
            return;
        }
        if self.local_types.contains(first) || self.mi.imports.contains_key(first) || TYPE_GLOBALS.contains(&first.as_str()) {
            return;
        }
        self.problem("unresolved-type", name.join("."));
    }

    fn check_value_path(&mut self, path: &[String], scope: &BTreeSet<String>) {
        let first = &path[0];
        if scope.contains(first) {
            return;
        }
        if self.namespace_import_of_types(first) {
            if let (Some((_, vals)), Some(member)) = (self.types_exports, path.get(1)) {
                if !vals.contains(member) {
                    self.problem("unresolved-types-member", format!("{} (value)", path[..2].join(".")));
                }
            }
            return;
        }
        if self.local_values.contains(first) || self.mi.imports.contains_key(first) || VALUE_GLOBALS.contains(&first.as_str()) {
            return;
        }
        self.problem("unresolved-value", first.clone());
    }

    fn check_type(&mut self, t: &Type, tparams: &BTreeSet<String>) {
        let mut names = vec![];
        modinfo::type_names(t, &mut names);
        // function-type parameters may introduce their own type parameters; the generator does
        // not emit those, so a flat check is exact for its output
        for n in names {
            self.check_type_name(&n, tparams);
        }
    }

    fn check_members(&mut self, ms: &[Member], tparams: &BTreeSet<String>) {
        let mut names = vec![];
        modinfo::members_type_names(ms, &mut names);
        for n in names {
            self.check_type_name(&n, tparams);
        }
    }

    fn member_path(e: &Expr) -> Option<Vec<String>> {
        match e {
            Expr::Ident(n) => Some(vec![n.clone()]),
            Expr::Member { object, prop, .. } => {
                let mut p = Self::member_path(object)?;
                p.push(prop.clone());
                Some(p)
            }
            Expr::Paren(e) | Expr::NonNull(e) => Self::member_path(e),
            _ => None,
        }
    }

    fn check_expr(&mut self, e: &Expr, scope: &BTreeSet<String>, tparams: &BTreeSet<String>) {
        match e {
            Expr::Ident(n) => self.check_value_path(std::slice::from_ref(n), scope),
            Expr::Member { object, .. } => {
                if let Some(path) = Self::member_path(e) {
                    self.check_value_path(&path, scope);
                } else {
                    self.check_expr(object, scope, tparams);
                }
            }
            Expr::Index { object, index, .. } => {
                self.check_expr(object, scope, tparams);
                self.check_expr(index, scope, tparams);
            }
            Expr::Call { callee, type_args, args, .. } | Expr::New { callee, type_args, args } => {
                self.check_expr(callee, scope, tparams);
                for t in type_args {
                    self.check_type(t, tparams);
                }
                for a in args {
                    match a {
                        ArrayElem::Item(e) | ArrayElem::Spread(e) => self.check_expr(e, scope, tparams),
                        ArrayElem::Hole => {}
                    }
                }
            }
            Expr::Array(items) => {
                for a in items {
                    match a {
                        ArrayElem::Item(e) | ArrayElem::Spread(e) => self.check_expr(e, scope, tparams),
                        ArrayElem::Hole => {}
                    }
                }
            }
            Expr::Object(props) => {
                for p in props {
                    match p {
                        ObjProp::KeyValue(k, v) => {
                            if let PropKey::Computed(c) = k {
                                self.check_expr(c, scope, tparams);
                            }
                            self.check_expr(v, scope, tparams);
                        }
                        ObjProp::Shorthand(n) => self.check_value_path(std::slice::from_ref(n), scope),
                        ObjProp::Spread(e) => self.check_expr(e, scope, tparams),
                        ObjProp::Method(_, f) => self.check_func(f, scope, tparams),
                    }
                }
            }
            Expr::Func(f) => self.check_func(f, scope, tparams),
            Expr::Template(parts) => {
                for p in parts {
                    if let TemplatePart::Expr(e) = p {
                        self.check_expr(e, scope, tparams);
                    }
                }
            }
            Expr::Unary(_, e) | Expr::NonNull(e) | Expr::Paren(e) => self.check_expr(e, scope, tparams),
            Expr::As(e, t) => {
                self.check_expr(e, scope, tparams);
                self.check_type(t, tparams);
            }
            Expr::Binary(op, a, b) => {
                self.check_expr(a, scope, tparams);
                if op == "instanceof" || op != "in" {
                    self.check_expr(b, scope, tparams);
                } else {
                    self.check_expr(b, scope, tparams);
                }
            }
            Expr::Assign(_, a, b) => {
                self.check_expr(a, scope, tparams);
                self.check_expr(b, scope, tparams);
            }
            Expr::Cond(a, b, c) => {
                self.check_expr(a, scope, tparams);
                self.check_expr(b, scope, tparams);
                self.check_expr(c, scope, tparams);
            }
            _ => {}
        }
    }

    fn bind_pattern(p: &Pattern, scope: &mut BTreeSet<String>) {
        match p {
            Pattern::Ident(n) => {
                scope.insert(n.clone());
            }
            Pattern::Object(items, rest) => {
                for (_, sub) in items {
                    Self::bind_pattern(sub, scope);
                }
                if let Some(r) = rest {
                    scope.insert(r.clone());
                }
            }
            Pattern::Array(items, rest) => {
                for sub in items.iter().flatten() {
                    Self::bind_pattern(sub, scope);
                }
                if let Some(r) = rest {
                    scope.insert(r.clone());
                }
            }
        }
    }

    fn check_func(&mut self, f: &Function, outer: &BTreeSet<String>, outer_tparams: &BTreeSet<String>) {
        let mut scope = outer.clone();
        let mut tparams = outer_tparams.clone();
        tparams.extend(f.tparams.iter().cloned());
        if let Some(n) = &f.name {
            scope.insert(n.clone());
        }
        for p in &f.params {
            Self::bind_pattern(&p.pattern, &mut scope);
        }
        for p in &f.params {
            if let Some(t) = &p.ty {
                self.check_type(t, &tparams);
            }
            if let Some(d) = &p.default {
                self.check_expr(d, &scope, &tparams);
            }
        }
        if let Some(t) = &f.ret {
            self.check_type(t, &tparams);
        }
        match &f.body {
            FuncBody::Expr(e) => self.check_expr(e, &scope, &tparams),
            FuncBody::Block(stmts) => self.check_block(stmts, &scope, &tparams),
        }
    }

    fn check_block(&mut self, stmts: &[Stmt], outer: &BTreeSet<String>, tparams: &BTreeSet<String>) {
        let mut scope = outer.clone();
        // hoist declarations of this block
        for s in stmts {
            match s {
                Stmt::Var { decls, .. } => {
                    for d in decls {
                        Self::bind_pattern(&d.pattern, &mut scope);
                    }
                }
                Stmt::Func(f) => {
                    if let Some(n) = &f.name {
                        scope.insert(n.clone());
                    }
                }
                _ => {}
            }
        }
        for s in stmts {
            self.check_stmt(s, &scope, tparams);
        }
    }

    fn check_stmt(&mut self, s: &Stmt, scope: &BTreeSet<String>, tparams: &BTreeSet<String>) {
        match s {
            Stmt::Block(ss) => self.check_block(ss, scope, tparams),
            Stmt::Var { decls, .. } => {
                for d in decls {
                    if let Some(t) = &d.ty {
                        self.check_type(t, tparams);
                    }
                    if let Some(i) = &d.init {
                        self.check_expr(i, scope, tparams);
                    }
                }
            }
            Stmt::Func(f) => self.check_func(f, scope, tparams),
            Stmt::Return(Some(e)) | Stmt::Throw(e) | Stmt::Expr(e) => self.check_expr(e, scope, tparams),
            Stmt::Return(None) | Stmt::Empty => {}
            Stmt::If { cond, then, otherwise } => {
                self.check_expr(cond, scope, tparams);
                self.check_stmt(then, scope, tparams);
                if let Some(o) = otherwise {
                    self.check_stmt(o, scope, tparams);
                }
            }
            Stmt::Try { block, catch, finally } => {
                self.check_block(block, scope, tparams);
                if let Some((binding, b)) = catch {
                    let mut sc = scope.clone();
                    if let Some(n) = binding {
                        sc.insert(n.clone());
                    }
                    self.check_block(b, &sc, tparams);
                }
                if let Some(b) = finally {
                    self.check_block(b, scope, tparams);
                }
            }
        }
    }
}

/// Check one parsed module. `types_exports` = exports of ./types for modules that import it.
pub fn check_module(file: &str, m: &Module, types_exports: Option<(&BTreeSet<String>, &BTreeSet<String>)>) -> Vec<Problem> {
    let mi = ModInfo::of(m);
    let mut cx = Ctx {
        file,
        mi: &mi,
        types_exports,
        local_types: mi.decls.iter().filter(|d| matches!(d.kind, modinfo::DeclKind::Interface | modinfo::DeclKind::TypeAlias)).map(|d| d.name.clone()).collect(),
        local_values: mi.decls.iter().filter(|d| matches!(d.kind, modinfo::DeclKind::Const | modinfo::DeclKind::Function)).map(|d| d.name.clone()).collect(),
        problems: vec![],
    };
    for d in &mi.duplicate_exports {
        cx.problem("duplicate-export", d.clone());
    }
    let empty = BTreeSet::new();
    for item in &m.items {
        match item {
            Item::Interface { tparams, extends, body, .. } => {
                let tp: BTreeSet<String> = tparams.iter().cloned().collect();
                for e in extends {
                    cx.check_type(e, &tp);
                }
                cx.check_members(body, &tp);
            }
            Item::TypeAlias { tparams, ty, .. } => {
                let tp: BTreeSet<String> = tparams.iter().cloned().collect();
                cx.check_type(ty, &tp);
            }
            Item::Var { decls, .. } => {
                for d in decls {
                    if let Some(t) = &d.ty {
                        cx.check_type(t, &empty);
                    }
                    if let Some(i) = &d.init {
                        cx.check_expr(i, &empty, &empty);
                    }
                }
            }
            Item::Func { func, .. } => cx.check_func(func, &empty, &empty),
            Item::Stmt(s) => cx.check_stmt(s, &empty, &empty),
            Item::ExportDefault(e) => cx.check_expr(e, &empty, &empty),
            Item::ExportNamed { names, from, .. } => {
                if from.is_none() {
                    for n in names {
                        if !cx.local_types.contains(&n.imported) && !cx.local_values.contains(&n.imported) && !mi.imports.contains_key(&n.imported) {
                            cx.problem("unresolved-value", n.imported.clone());
                        }
                    }
                }
            }
            Item::Import { .. } | Item::ExportStar { .. } => {}
        }
    }
    cx.problems.sort();
    cx.problems.dedup();
    cx.problems
}

/// Check the whole output directory. Err = some file does not parse (C01's business) with the
/// message; Ok(problems) otherwise.
pub fn check_output(files: &BTreeMap<String, String>) -> Result<Vec<Problem>, String> {
    let mut parsed: BTreeMap<String, Module> = BTreeMap::new();
    for (name, content) in files {
        if name.ends_with(".ts") {
            match parse_module(content) {
                Ok(m) => {
                    parsed.insert(name.clone(), m);
                }
                Err(e) => return Err(format!("{}: {}", name, e)),
            }
        }
    }
    let mut problems = vec![];
    let types_mi = parsed.get("types.ts").map(ModInfo::of);
    let (tys, vals) = match &types_mi {
        Some(mi) => (mi.exported_types(), mi.exported_values()),
        None => (BTreeSet::new(), BTreeSet::new()),
    };
    for (name, m) in &parsed {
        let te = if name == "types.ts" { None } else { Some((&tys, &vals)) };
        problems.extend(check_module(name, m, te));
        // relative imports must exist
        let mi = ModInfo::of(m);
        for (from, _) in mi.imports.values() {
            if let Some(rel) = from.strip_prefix("./") {
                if !files.contains_key(&format!("{}.ts", rel)) && !files.contains_key(rel) {
                    problems.push(Problem { file: name.clone(), kind: "missing-module".into(), name: from.clone() });
                }
            }
        }
    }
    // index.ts re-exports exactly the other .ts files written
    if let Some(idx) = parsed.get("index.ts") {
        let mi = ModInfo::of(idx);
        let reexported: BTreeSet<String> = mi.star_reexports.iter().map(|s| format!("{}.ts", s.trim_start_matches("./"))).collect();
        let written: BTreeSet<String> = files.keys().filter(|n| n.ends_with(".ts") && n.as_str() != "index.ts").cloned().collect();
        for r in reexported.difference(&written) {
            problems.push(Problem { file: "index.ts".into(), kind: "index-mismatch".into(), name: format!("re-exports {} which was not written", r) });
        }
        for w in written.difference(&reexported) {
            problems.push(Problem { file: "index.ts".into(), kind: "index-mismatch".into(), name: format!("does not re-export {}", w) });
        }
        // `export *` of two modules exporting the same name is an ambiguity error in TS
        let mut seen: BTreeMap<String, String> = BTreeMap::new();
        for r in &reexported {
            if let Some(m) = parsed.get(r) {
                let mi = ModInfo::of(m);
                for d in mi.decls.iter().filter(|d| d.exported) {
                    if let Some(prev) = seen.insert(d.name.clone(), r.clone()) {
                        if &prev != r {
                            problems.push(Problem { file: "index.ts".into(), kind: "duplicate-export".into(), name: format!("{} exported by both {} and {}", d.name, prev, r) });
                        }
                    }
                }
            }
        }
    }
    problems.sort();
    problems.dedup();
    Ok(problems)
}
