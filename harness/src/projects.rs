//! Base projects and the edit alphabet used by the history explorers (C08, C14, C16, C17).

use crate::gen::Project;
use serde::{Deserialize, Serialize};

/// Base project B0: two files, struct + enum + validator + channel + events.
pub fn base_b0() -> Project {
    let commands = r#"use serde::{Deserialize, Serialize};
use tauri::{AppHandle, Emitter};
use tauri::ipc::Channel;

#[derive(Debug, Clone, Serialize, Deserialize)]
#[serde(rename_all = "camelCase")]
pub struct User {
    pub user_id: i32,
    #[serde(rename = "fullName")]
    pub name: String,
    #[validate(length(min = 1, max = 10, message = "bad tag"))]
    pub tag: String,
    #[validate(range(min = 0, max = 150))]
    pub age: u32,
    pub status: Status,
    #[serde(skip)]
    pub secret: String,
    pub nick: Option<String>,
}

#[derive(Debug, Clone, Serialize, Deserialize)]
#[serde(rename_all = "lowercase")]
pub enum Status {
    Active,
    #[serde(rename = "gone")]
    Inactive,
}

#[derive(Debug, Clone, Serialize, Deserialize)]
pub struct Progress {
    pub done: u32,
    pub total: u32,
}

#[tauri::command]
pub fn get_user(user_id: i32, filter: Option<String>) -> Result<User, String> {
    let _ = (user_id, filter);
    Err("nope".into())
}

#[tauri::command]
pub async fn save_user(user: User) -> Result<(), String> {
    let _ = user;
    Ok(())
}

#[tauri::command]
pub async fn download(app: AppHandle, url: String, on_progress: Channel<Progress>) -> Result<Vec<u8>, String> {
    let p = Progress { done: 0, total: 1 };
    app.emit("download-started", p).unwrap();
    let _ = (url, on_progress);
    Ok(vec![])
}
"#;
    let events = r#"use tauri::{AppHandle, Emitter};
use crate::commands::User;

pub fn notify(app: &AppHandle, user: User) {
    app.emit("user-updated", user).unwrap();
}
"#;
    Project {
        files: vec![
            ("src/commands.rs".into(), commands.into()),
            ("src/events.rs".into(), events.into()),
        ],
        links: vec![],
    }
}

/// Base project B1: single file, no events, no channels, nested types across Option/Vec/map.
pub fn base_b1() -> Project {
    let lib = r#"use serde::{Deserialize, Serialize};
use std::collections::HashMap;

#[derive(Serialize, Deserialize)]
pub struct Order {
    pub id: u64,
    pub lines: Vec<Line>,
    pub meta: HashMap<String, String>,
    pub note: Option<String>,
}

#[derive(Serialize, Deserialize)]
pub struct Line {
    pub sku: String,
    pub qty: i32,
}

#[tauri::command]
pub fn list_orders(limit: usize) -> Vec<Order> {
    let _ = limit;
    vec![]
}

#[command]
pub fn ping() -> String {
    "pong".into()
}
"#;
    Project {
        files: vec![("src/lib.rs".into(), lib.into())],
        links: vec![],
    }
}

/// Base project B2: three files in nested directories, types defined away from their use.
pub fn base_b2() -> Project {
    let a = r#"use serde::{Deserialize, Serialize};
#[derive(Serialize, Deserialize)]
pub struct Account { pub id: i32, pub owner: Owner }
"#;
    let b = r#"use serde::{Deserialize, Serialize};
#[derive(Serialize, Deserialize)]
pub struct Owner { pub name: String, pub kind: OwnerKind }
#[derive(Serialize, Deserialize)]
pub enum OwnerKind { Person, Company }
"#;
    let c = r#"use tauri::{AppHandle, Emitter};
#[tauri::command]
pub fn get_account(id: i32) -> Option<Account> { let _ = id; None }
#[tauri::command]
pub fn close_account(app: AppHandle, id: i32) -> bool { app.emit("account-closed", id).unwrap(); true }
"#;
    Project {
        files: vec![
            ("src/models/account.rs".into(), a.into()),
            ("src/models/deep/owner.rs".into(), b.into()),
            ("src/api.rs".into(), c.into()),
        ],
        links: vec![],
    }
}

pub fn base_by_name(name: &str) -> Project {
    match name {
        "b0" => base_b0(),
        "b1" => base_b1(),
        "b2" => base_b2(),
        _ => panic!("unknown base project {}", name),
    }
}

/// A source edit: textual replacement in one file (applied iff `from` occurs exactly once), or
/// appending text / adding a file / moving an item.
#[derive(Debug, Clone, Serialize, Deserialize, PartialEq)]
pub struct Edit {
    pub name: String,
    /// output-affecting class this edit represents (for the evidence / finding keys)
    pub class: String,
    pub ops: Vec<EditOp>,
}

#[derive(Debug, Clone, Serialize, Deserialize, PartialEq)]
pub enum EditOp {
    Replace { file: String, from: String, to: String },
    Append { file: String, text: String },
    AddFile { file: String, text: String },
}

impl Edit {
    fn rep(name: &str, class: &str, file: &str, from: &str, to: &str) -> Edit {
        Edit {
            name: name.into(),
            class: class.into(),
            ops: vec![EditOp::Replace {
                file: file.into(),
                from: from.into(),
                to: to.into(),
            }],
        }
    }

    /// Apply to a project; Err if a Replace anchor is not found exactly once.
    pub fn apply(&self, p: &Project) -> Result<Project, String> {
        let mut q = p.clone();
        for op in &self.ops {
            match op {
                EditOp::Replace { file, from, to } => {
                    let f = q
                        .files
                        .iter_mut()
                        .find(|(n, _)| n == file)
                        .ok_or_else(|| format!("{}: no file {}", self.name, file))?;
                    if f.1.matches(from.as_str()).count() != 1 {
                        return Err(format!("{}: anchor not unique in {}", self.name, file));
                    }
                    f.1 = f.1.replace(from.as_str(), to);
                }
                EditOp::Append { file, text } => {
                    let f = q
                        .files
                        .iter_mut()
                        .find(|(n, _)| n == file)
                        .ok_or_else(|| format!("{}: no file {}", self.name, file))?;
                    f.1.push_str(text);
                }
                EditOp::AddFile { file, text } => {
                    if q.files.iter().any(|(n, _)| n == file) {
                        return Err(format!("{}: file {} exists", self.name, file));
                    }
                    q.files.push((file.clone(), text.clone()));
                }
            }
        }
        Ok(q)
    }
}

/// Edit alphabet for base project B0: one representative per output-affecting edit class.
pub fn edits_b0() -> Vec<Edit> {
    let c = "src/commands.rs";
    let e = "src/events.rs";
    vec![
        Edit {
            name: "add_command".into(),
            class: "command-add".into(),
            ops: vec![EditOp::Append {
                file: c.into(),
                text: "\n#[tauri::command]\npub fn extra_cmd(flag: bool) -> bool { flag }\n".into(),
            }],
        },
        Edit::rep("rename_command", "command-rename", c, "pub fn get_user(", "pub fn fetch_user("),
        Edit::rep("param_name", "param-name", c, "get_user(user_id: i32,", "get_user(uid: i32,"),
        Edit::rep("param_type", "param-type", c, "get_user(user_id: i32,", "get_user(user_id: String,"),
        Edit::rep("param_optional", "param-optional", c, "filter: Option<String>)", "filter: String)"),
        Edit::rep("return_type", "return-type", c, "-> Result<User, String> {", "-> Result<Vec<User>, String> {"),
        Edit::rep("async_toggle", "async", c, "pub fn get_user(", "pub async fn get_user("),
        Edit::rep("remove_channel", "channel-remove", c, "url: String, on_progress: Channel<Progress>)", "url: String)"),
        Edit::rep("channel_msg_type", "channel-type", c, "on_progress: Channel<Progress>", "on_progress: Channel<u32>"),
        Edit::rep("field_add", "field-add", c, "    pub nick: Option<String>,\n", "    pub nick: Option<String>,\n    pub extra: bool,\n"),
        Edit::rep("field_remove", "field-remove", c, "    pub nick: Option<String>,\n", ""),
        Edit::rep("field_type", "field-type", c, "pub user_id: i32,", "pub user_id: String,"),
        Edit::rep("field_rename_attr", "serde-rename", c, "#[serde(rename = \"fullName\")]", "#[serde(rename = \"displayName\")]"),
        Edit::rep("field_rename_attr_remove", "serde-rename", c, "    #[serde(rename = \"fullName\")]\n", ""),
        Edit::rep("struct_rename_all", "serde-rename-all", c, "#[serde(rename_all = \"camelCase\")]\npub struct User", "#[serde(rename_all = \"SCREAMING_SNAKE_CASE\")]\npub struct User"),
        Edit::rep("struct_rename_all_remove", "serde-rename-all", c, "#[serde(rename_all = \"camelCase\")]\npub struct User", "pub struct User"),
        Edit::rep("enum_rename_all", "serde-rename-all-enum", c, "#[serde(rename_all = \"lowercase\")]", "#[serde(rename_all = \"UPPERCASE\")]"),
        Edit::rep("skip_remove", "serde-skip", c, "    #[serde(skip)]\n", ""),
        Edit::rep("skip_add", "serde-skip", c, "    pub status: Status,\n", "    #[serde(skip)]\n    pub status: Status,\n"),
        Edit::rep("variant_add", "variant-add", c, "    Active,\n", "    Active,\n    Pending,\n"),
        Edit::rep("variant_rename_attr", "variant-rename", c, "#[serde(rename = \"gone\")]", "#[serde(rename = \"left\")]"),
        Edit::rep("validator_add", "validator-add", c, "    pub user_id: i32,", "    #[validate(range(min = 1))]\n    pub user_id: i32,"),
        Edit::rep("validator_bound", "validator-bound", c, "length(min = 1, max = 10,", "length(min = 2, max = 10,"),
        Edit::rep("validator_message", "validator-message", c, "message = \"bad tag\"", "message = \"tag too long\""),
        Edit::rep("validator_remove", "validator-remove", c, "    #[validate(range(min = 0, max = 150))]\n", ""),
        Edit::rep("event_rename", "event-rename", e, "\"user-updated\"", "\"user-changed\""),
        Edit::rep("event_payload", "event-payload", e, "app.emit(\"user-updated\", user)", "app.emit(\"user-updated\", 42)"),
        Edit {
            name: "event_add".into(),
            class: "event-add".into(),
            ops: vec![EditOp::Append {
                file: e.into(),
                text: "\npub fn notify2(app: &AppHandle) {\n    app.emit(\"second-event\", true).unwrap();\n}\n".into(),
            }],
        },
        Edit::rep("event_remove", "event-remove", e, "    app.emit(\"user-updated\", user).unwrap();\n", "    let _ = (app, user);\n"),
        Edit {
            name: "move_type".into(),
            class: "move-item".into(),
            ops: vec![
                EditOp::Replace {
                    file: c.into(),
                    from: "#[derive(Debug, Clone, Serialize, Deserialize)]\npub struct Progress {\n    pub done: u32,\n    pub total: u32,\n}\n".into(),
                    to: "".into(),
                },
                EditOp::AddFile {
                    file: "src/progress.rs".into(),
                    text: "use serde::{Deserialize, Serialize};\n#[derive(Debug, Clone, Serialize, Deserialize)]\npub struct Progress {\n    pub done: u32,\n    pub total: u32,\n}\n".into(),
                },
            ],
        },
        Edit::rep("struct_rename", "type-rename", c, "pub struct Progress {", "pub struct Progress2 {"),
        Edit::rep("field_pub", "field-visibility", c, "    pub tag: String,", "    tag: String,"),
        Edit::rep("field_rename_to_own_ident", "serde-rename", c, "    pub user_id: i32,", "    #[serde(rename = \"user_id\")]\n    pub user_id: i32,"),
        Edit::rep("variant_rename_to_own_ident", "variant-rename", c, "    Active,\n", "    #[serde(rename = \"Active\")]\n    Active,\n"),
        Edit::rep("second_emit_site_other_payload", "event-payload", c, "    let _ = (url, on_progress);", "    app.emit(\"download-started\", 7u32).unwrap();\n    let _ = (url, on_progress);"),
        Edit::rep("second_emit_site_same_payload", "event-emit-site", c, "    let _ = (url, on_progress);", "    app.emit(\"download-started\", Progress { done: 1, total: 1 }).unwrap();\n    let _ = (url, on_progress);"),
        // edits that change nothing in the bindings but move or add items (they matter once the
        // dependency visualisation, which prints locations and counts, is part of the output)
        Edit::rep("blank_line_before_command", "layout-shift", c, "#[tauri::command]\npub fn get_user(", "\n\n#[tauri::command]\npub fn get_user("),
        Edit {
            name: "add_unreachable_type".into(),
            class: "unreachable-type-add".into(),
            ops: vec![EditOp::Append { file: c.into(), text: "\n#[derive(Debug, Clone, Serialize, Deserialize)]\npub struct Lonely {\n    pub a: i32,\n}\n".into() }],
        },
        // with a later site in place (second_emit_site_same_payload), changing the FIRST site's payload
        Edit::rep("first_emit_site_payload", "event-payload", c, "    app.emit(\"download-started\", p).unwrap();", "    app.emit(\"download-started\", 7u32).unwrap();"),
        Edit::rep("command_macro_case", "command-macro-args", c, "#[tauri::command]\npub fn get_user(", "#[tauri::command(rename_all = \"snake_case\")]\npub fn get_user("),
        Edit::rep("struct_rename_all_split", "serde-rename-all", c, "#[serde(rename_all = \"camelCase\")]\npub struct User", "#[serde(rename_all(serialize = \"SCREAMING_SNAKE_CASE\", deserialize = \"camelCase\"))]\npub struct User"),
        Edit::rep("field_rename_split", "serde-rename", c, "#[serde(rename = \"fullName\")]", "#[serde(rename(serialize = \"displayName\", deserialize = \"fullName\"))]"),
    ]
}

/// Edits for base project B1.
pub fn edits_b1() -> Vec<Edit> {
    let f = "src/lib.rs";
    vec![
        Edit::rep("field_type", "field-type", f, "pub qty: i32,", "pub qty: Option<i32>,"),
        Edit::rep("nested_type", "field-type", f, "pub lines: Vec<Line>,", "pub lines: Vec<Option<Line>>,"),
        Edit::rep("map_value", "field-type", f, "HashMap<String, String>", "HashMap<String, Line>"),
        Edit::rep("add_rename_all", "serde-rename-all", f, "#[derive(Serialize, Deserialize)]\npub struct Line", "#[derive(Serialize, Deserialize)]\n#[serde(rename_all = \"UPPERCASE\")]\npub struct Line"),
        Edit::rep("add_rename", "serde-rename", f, "    pub sku: String,", "    #[serde(rename = \"SKU\")]\n    pub sku: String,"),
        Edit::rep("add_validator", "validator-add", f, "    pub qty: i32,", "    #[validate(range(min = 1, max = 99))]\n    pub qty: i32,"),
        Edit::rep("command_attr_spelling", "command-attr", f, "#[command]\npub fn ping", "#[tauri::command]\npub fn ping"),
        Edit::rep("remove_command", "command-remove", f, "#[command]\npub fn ping() -> String {\n    \"pong\".into()\n}\n", ""),
        Edit {
            name: "add_event".into(),
            class: "event-add".into(),
            ops: vec![EditOp::Append {
                file: f.into(),
                text: "\npub fn tick(app: &tauri::AppHandle) {\n    app.emit(\"tick\", 1).unwrap();\n}\n".into(),
            }],
        },
        Edit::rep("return_type", "return-type", f, "-> Vec<Order> {", "-> Option<Order> {"),
    ]
}

/// Edits for base project B2.
pub fn edits_b2() -> Vec<Edit> {
    vec![
        Edit::rep("deep_field", "field-add", "src/models/deep/owner.rs", "pub name: String,", "pub name: String, pub email: Option<String>,"),
        Edit::rep("deep_variant", "variant-add", "src/models/deep/owner.rs", "Person, Company", "Person, Company, Trust"),
        Edit::rep("deep_rename_all", "serde-rename-all-enum", "src/models/deep/owner.rs", "#[derive(Serialize, Deserialize)]\npub enum OwnerKind", "#[derive(Serialize, Deserialize)]\n#[serde(rename_all = \"snake_case\")]\npub enum OwnerKind"),
        Edit::rep("event_payload", "event-payload", "src/api.rs", "app.emit(\"account-closed\", id)", "app.emit(\"account-closed\", true)"),
        Edit::rep("event_rename", "event-rename", "src/api.rs", "\"account-closed\"", "\"account:closed\""),
        Edit::rep("param_type", "param-type", "src/api.rs", "get_account(id: i32)", "get_account(id: String)"),
        Edit::rep("unlink_type", "field-type", "src/models/account.rs", "pub owner: Owner", "pub owner: String"),
    ]
}

pub fn edits_for(base: &str) -> Vec<Edit> {
    match base {
        "b0" => edits_b0(),
        "b1" => edits_b1(),
        "b2" => edits_b2(),
        _ => vec![],
    }
}
