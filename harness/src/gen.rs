//! Generated-project language: Rust type AST, printers, enumerators, project assembly.

use serde::{Deserialize, Serialize};

/// Rust type expressions of the documented feature set.
#[derive(Debug, Clone, PartialEq, Eq, Hash, PartialOrd, Ord, Serialize, Deserialize)]
pub enum RTy {
    /// String &str i8..i128 u8..u128 isize usize f32 f64 bool ()
    Prim(String),
    /// project-defined (or mapped) named type, possibly path-qualified (`models::User`)
    Named(String),
    Ref(Box<RTy>),
    Option(Box<RTy>),
    Vec(Box<RTy>),
    HashSet(Box<RTy>),
    BTreeSet(Box<RTy>),
    HashMap(Box<RTy>, Box<RTy>),
    BTreeMap(Box<RTy>, Box<RTy>),
    Tuple(Vec<RTy>),
    /// Result<T, E>
    Result2(Box<RTy>, Box<RTy>),
    /// Result<T> (alias with one argument)
    Result1(Box<RTy>),
}

pub const NUMERIC_PRIMS: [&str; 14] = [
    "i8", "i16", "i32", "i64", "i128", "isize", "u8", "u16", "u32", "u64", "u128", "usize", "f32",
    "f64",
];

impl RTy {
    pub fn prim(s: &str) -> RTy {
        RTy::Prim(s.to_string())
    }
    pub fn named(s: &str) -> RTy {
        RTy::Named(s.to_string())
    }
    pub fn opt(t: RTy) -> RTy {
        RTy::Option(Box::new(t))
    }
    pub fn vec(t: RTy) -> RTy {
        RTy::Vec(Box::new(t))
    }

    pub fn to_rust(&self) -> String {
        match self {
            RTy::Prim(p) => p.clone(),
            RTy::Named(n) => n.clone(),
            RTy::Ref(t) => format!("&{}", t.to_rust()),
            RTy::Option(t) => format!("Option<{}>", t.to_rust()),
            RTy::Vec(t) => format!("Vec<{}>", t.to_rust()),
            RTy::HashSet(t) => format!("HashSet<{}>", t.to_rust()),
            RTy::BTreeSet(t) => format!("BTreeSet<{}>", t.to_rust()),
            RTy::HashMap(k, v) => format!("HashMap<{}, {}>", k.to_rust(), v.to_rust()),
            RTy::BTreeMap(k, v) => format!("BTreeMap<{}, {}>", k.to_rust(), v.to_rust()),
            RTy::Tuple(ts) => {
                if ts.len() == 1 {
                    format!("({},)", ts[0].to_rust())
                } else {
                    format!(
                        "({})",
                        ts.iter().map(|t| t.to_rust()).collect::<Vec<_>>().join(", ")
                    )
                }
            }
            RTy::Result2(t, e) => format!("Result<{}, {}>", t.to_rust(), e.to_rust()),
            RTy::Result1(t) => format!("Result<{}>", t.to_rust()),
        }
    }

    pub fn ctor_name(&self) -> String {
        match self {
            RTy::Prim(p) => format!("Prim:{}", p),
            RTy::Named(_) => "Named".into(),
            RTy::Ref(_) => "Ref".into(),
            RTy::Option(_) => "Option".into(),
            RTy::Vec(_) => "Vec".into(),
            RTy::HashSet(_) => "HashSet".into(),
            RTy::BTreeSet(_) => "BTreeSet".into(),
            RTy::HashMap(..) => "HashMap".into(),
            RTy::BTreeMap(..) => "BTreeMap".into(),
            RTy::Tuple(_) => "Tuple".into(),
            RTy::Result2(..) => "Result2".into(),
            RTy::Result1(_) => "Result1".into(),
        }
    }

    /// Pattern names accepted in known-findings predicates: exact constructor names plus the
    /// classes `Prim` (any primitive), `Leaf` (Prim or Named), `Map`, `Set`, `Seq` (Vec or sets),
    /// `Result`, `MultiArg` (maps, Result2, tuples - anything printed with a top-level comma),
    /// `Composite` (anything that is not a leaf) and `*`.
    pub fn ctor_matches(&self, pat: &str) -> bool {
        let c = self.ctor_name();
        if pat == "*" || c == pat {
            return true;
        }
        match pat {
            "Prim" => matches!(self, RTy::Prim(_)),
            "Leaf" => matches!(self, RTy::Prim(_) | RTy::Named(_)),
            "Map" => matches!(self, RTy::HashMap(..) | RTy::BTreeMap(..)),
            "Set" => matches!(self, RTy::HashSet(_) | RTy::BTreeSet(_)),
            "Seq" => matches!(self, RTy::Vec(_) | RTy::HashSet(_) | RTy::BTreeSet(_)),
            "Result" => matches!(self, RTy::Result2(..) | RTy::Result1(_)),
            "MultiArg" => match self {
                RTy::HashMap(..) | RTy::BTreeMap(..) | RTy::Result2(..) => true,
                RTy::Tuple(ts) => ts.len() >= 2,
                _ => false,
            },
            "Composite" => !matches!(self, RTy::Prim(_) | RTy::Named(_)),
            _ => false,
        }
    }

    pub fn children(&self) -> Vec<&RTy> {
        match self {
            RTy::Prim(_) | RTy::Named(_) => vec![],
            RTy::Ref(t)
            | RTy::Option(t)
            | RTy::Vec(t)
            | RTy::HashSet(t)
            | RTy::BTreeSet(t)
            | RTy::Result1(t) => vec![t],
            RTy::HashMap(a, b) | RTy::BTreeMap(a, b) | RTy::Result2(a, b) => vec![a, b],
            RTy::Tuple(ts) => ts.iter().collect(),
        }
    }

    pub fn any_node(&self, f: &dyn Fn(&RTy) -> bool) -> bool {
        if f(self) {
            return true;
        }
        self.children().iter().any(|c| c.any_node(f))
    }

    pub fn depth(&self) -> usize {
        self.children()
            .iter()
            .map(|c| c.depth() + 1)
            .max()
            .unwrap_or(0)
    }

    pub fn named_types(&self, out: &mut Vec<String>) {
        if let RTy::Named(n) = self {
            if !out.contains(n) {
                out.push(n.clone());
            }
        }
        for c in self.children() {
            c.named_types(out);
        }
    }

    /// Rebuild this node with new children (same arity).
    pub fn with_children(&self, mut ch: Vec<RTy>) -> RTy {
        match self {
            RTy::Prim(_) | RTy::Named(_) => self.clone(),
            RTy::Ref(_) => RTy::Ref(Box::new(ch.remove(0))),
            RTy::Option(_) => RTy::Option(Box::new(ch.remove(0))),
            RTy::Vec(_) => RTy::Vec(Box::new(ch.remove(0))),
            RTy::HashSet(_) => RTy::HashSet(Box::new(ch.remove(0))),
            RTy::BTreeSet(_) => RTy::BTreeSet(Box::new(ch.remove(0))),
            RTy::Result1(_) => RTy::Result1(Box::new(ch.remove(0))),
            RTy::HashMap(..) => {
                let b = ch.remove(1);
                RTy::HashMap(Box::new(ch.remove(0)), Box::new(b))
            }
            RTy::BTreeMap(..) => {
                let b = ch.remove(1);
                RTy::BTreeMap(Box::new(ch.remove(0)), Box::new(b))
            }
            RTy::Result2(..) => {
                let b = ch.remove(1);
                RTy::Result2(Box::new(ch.remove(0)), Box::new(b))
            }
            RTy::Tuple(_) => RTy::Tuple(ch),
        }
    }
}

/// A constructor position: a constructor plus which argument slot carries the "spine" argument;
/// sibling slots take a filler.
#[derive(Debug, Clone, Copy, PartialEq, Eq)]
pub enum CtorPos {
    Option,
    Vec,
    HashSet,
    BTreeSet,
    Ref,
    Result1,
    HashMapKey,
    HashMapVal,
    BTreeMapKey,
    BTreeMapVal,
    Result2Ok,
    Result2Err,
    Tuple(usize /*arity*/, usize /*slot*/),
}

pub fn all_ctor_positions() -> Vec<CtorPos> {
    let mut v = vec![
        CtorPos::Option,
        CtorPos::Vec,
        CtorPos::HashSet,
        CtorPos::BTreeSet,
        CtorPos::Ref,
        CtorPos::Result1,
        CtorPos::HashMapKey,
        CtorPos::HashMapVal,
        CtorPos::BTreeMapKey,
        CtorPos::BTreeMapVal,
        CtorPos::Result2Ok,
        CtorPos::Result2Err,
    ];
    for arity in 1..=4 {
        for slot in 0..arity {
            v.push(CtorPos::Tuple(arity, slot));
        }
    }
    v
}

impl CtorPos {
    pub fn apply(self, arg: RTy, filler: &RTy) -> RTy {
        let b = |t: RTy| Box::new(t);
        match self {
            CtorPos::Option => RTy::Option(b(arg)),
            CtorPos::Vec => RTy::Vec(b(arg)),
            CtorPos::HashSet => RTy::HashSet(b(arg)),
            CtorPos::BTreeSet => RTy::BTreeSet(b(arg)),
            CtorPos::Ref => RTy::Ref(b(arg)),
            CtorPos::Result1 => RTy::Result1(b(arg)),
            CtorPos::HashMapKey => RTy::HashMap(b(arg), b(filler.clone())),
            CtorPos::HashMapVal => RTy::HashMap(b(filler.clone()), b(arg)),
            CtorPos::BTreeMapKey => RTy::BTreeMap(b(arg), b(filler.clone())),
            CtorPos::BTreeMapVal => RTy::BTreeMap(b(filler.clone()), b(arg)),
            CtorPos::Result2Ok => RTy::Result2(b(arg), b(filler.clone())),
            CtorPos::Result2Err => RTy::Result2(b(filler.clone()), b(arg)),
            CtorPos::Tuple(arity, slot) => {
                let mut v = vec![filler.clone(); arity];
                v[slot] = arg;
                RTy::Tuple(v)
            }
        }
    }
}

/// Full product enumeration: all type expressions of depth <= d over `leaves`, where every
/// argument slot ranges over all types of depth <= d-1. Tuples of arity 2 and 3 only in the
/// full product (arity 4 is covered by spines) to keep depth 2 tractable.
pub fn enumerate_full(leaves: &[RTy], depth: usize) -> Vec<RTy> {
    let mut level: Vec<RTy> = leaves.to_vec();
    for _ in 0..depth {
        let args = level.clone();
        let mut next: Vec<RTy> = leaves.to_vec();
        let b = |t: &RTy| Box::new(t.clone());
        for a in &args {
            next.push(RTy::Option(b(a)));
            next.push(RTy::Vec(b(a)));
            next.push(RTy::HashSet(b(a)));
            next.push(RTy::BTreeSet(b(a)));
            next.push(RTy::Ref(b(a)));
            next.push(RTy::Result1(b(a)));
            // one-element tuple `(T,)`: serde writes a one-element array
            next.push(RTy::Tuple(vec![a.clone()]));
        }
        for a in &args {
            for c in &args {
                next.push(RTy::HashMap(b(a), b(c)));
                next.push(RTy::BTreeMap(b(a), b(c)));
                next.push(RTy::Result2(b(a), b(c)));
                next.push(RTy::Tuple(vec![a.clone(), c.clone()]));
            }
        }
        level = next;
    }
    level.sort();
    level.dedup();
    // smallest first
    level.sort_by_key(|t| (t.depth(), t.to_rust().len(), t.to_rust()));
    level
}

/// Spine enumeration: depth-d chains of constructor positions over each leaf, sibling slots filled
/// with each filler.
pub fn enumerate_spines(leaves: &[RTy], fillers: &[RTy], depth: usize) -> Vec<RTy> {
    let positions = all_ctor_positions();
    let mut out: Vec<RTy> = Vec::new();
    fn rec(
        cur: RTy,
        remaining: usize,
        positions: &[CtorPos],
        fillers: &[RTy],
        out: &mut Vec<RTy>,
    ) {
        out.push(cur.clone());
        if remaining == 0 {
            return;
        }
        for p in positions {
            let needs_filler = !matches!(
                p,
                CtorPos::Option
                    | CtorPos::Vec
                    | CtorPos::HashSet
                    | CtorPos::BTreeSet
                    | CtorPos::Ref
                    | CtorPos::Result1
                    | CtorPos::Tuple(1, _)
            );
            if needs_filler {
                for f in fillers {
                    rec(p.apply(cur.clone(), f), remaining - 1, positions, fillers, out);
                }
            } else {
                rec(
                    p.apply(cur.clone(), &fillers[0]),
                    remaining - 1,
                    positions,
                    fillers,
                    out,
                );
            }
        }
    }
    for l in leaves {
        rec(l.clone(), depth, &positions, fillers, &mut out);
    }
    out.sort();
    out.dedup();
    out.sort_by_key(|t| (t.depth(), t.to_rust().len(), t.to_rust()));
    out
}

// ---------------------------------------------------------------------------------------------
// Project assembly
// ---------------------------------------------------------------------------------------------

#[derive(Debug, Clone, Default, Serialize, Deserialize, PartialEq)]
pub struct Project {
    /// (relative path, content)
    pub files: Vec<(String, String)>,
    /// (relative path, content): written OUTSIDE the project directory and symlinked into place
    #[serde(default)]
    pub links: Vec<(String, String)>,
}

impl Project {
    pub fn single(content: impl Into<String>) -> Self {
        Project {
            files: vec![("src/lib.rs".to_string(), content.into())],
            links: vec![],
        }
    }
    pub fn with_file(mut self, path: &str, content: impl Into<String>) -> Self {
        self.files.push((path.to_string(), content.into()));
        self
    }
    pub fn write_to(&self, root: &std::path::Path) -> std::io::Result<()> {
        for (rel, content) in &self.files {
            let p = root.join(rel);
            if let Some(parent) = p.parent() {
                std::fs::create_dir_all(parent)?;
            }
            std::fs::write(p, content)?;
        }
        for (i, (rel, content)) in self.links.iter().enumerate() {
            let store = root.parent().unwrap_or(root).join("_linked_sources");
            std::fs::create_dir_all(&store)?;
            let target = store.join(format!("linked_{}.rs", i));
            std::fs::write(&target, content)?;
            let link = root.join(rel);
            if let Some(parent) = link.parent() {
                std::fs::create_dir_all(parent)?;
            }
            let _ = std::fs::remove_file(&link);
            std::os::unix::fs::symlink(&target, &link)?;
        }
        Ok(())
    }
}

pub const PRELUDE: &str = "use serde::{Deserialize, Serialize};\nuse std::collections::{HashMap, HashSet, BTreeMap, BTreeSet};\n\n";

pub fn serde_struct(name: &str, fields: &[(String, String)]) -> String {
    let mut s = format!("#[derive(Debug, Clone, Serialize, Deserialize)]\npub struct {} {{\n", name);
    for (f, t) in fields {
        s.push_str(&format!("    pub {}: {},\n", f, t));
    }
    s.push_str("}\n\n");
    s
}

pub fn serde_enum(name: &str, variants: &[&str]) -> String {
    let mut s = format!("#[derive(Debug, Clone, Serialize, Deserialize)]\npub enum {} {{\n", name);
    for v in variants {
        s.push_str(&format!("    {},\n", v));
    }
    s.push_str("}\n\n");
    s
}

/// Standard leaf definitions used by type-shape checks: struct `Item { id: i32 }`, enum `Kind`.
pub fn leaf_defs() -> String {
    let mut s = String::new();
    s.push_str(&serde_struct("Item", &[("id".into(), "i32".into())]));
    // Kind's derives are split over two attributes with the serde ones second, Fail's serde derive
    // is spelled with a path and sits behind another attribute
    s.push_str(&serde_enum("Kind", &["Alpha", "Beta"]).replace("#[derive(Debug, Clone, Serialize, Deserialize)]", "#[derive(Debug, Clone, PartialEq)]\n#[allow(dead_code)]\n#[derive(Serialize, Deserialize)]"));
    s.push_str(&serde_struct("Fail", &[("msg".into(), "String".into())]).replace("#[derive(Debug, Clone, Serialize, Deserialize)]", "#[derive(Debug)]\n#[derive(Clone, serde::Serialize, serde::Deserialize)]"));
    s
}

// ---------------------------------------------------------------------------------------------
// Binding the reference denotation to real serde: the `ttv-samples` crate (GENERATED from the list
// below by `ttv gen-fixtures`) builds values of each listed type and serialises them with
// serde_json; selftest checks every such value against `shape::denote` of the same type.
// ---------------------------------------------------------------------------------------------

fn hashable(t: &RTy) -> bool {
    match t {
        RTy::Prim(p) => p != "f32" && p != "f64",
        RTy::Named(_) => true,
        RTy::HashMap(..) | RTy::HashSet(_) => false,
        RTy::Ref(a) | RTy::Option(a) | RTy::Vec(a) | RTy::BTreeSet(a) | RTy::Result1(a) => hashable(a),
        RTy::BTreeMap(a, b) | RTy::Result2(a, b) => hashable(a) && hashable(b),
        RTy::Tuple(ts) => ts.iter().all(hashable),
    }
}

/// Can a value of this type be built and serialised by the samples crate? (no references, no
/// Result - the property defines Result<T, E> as T because Tauri unwraps it, serde alone does not -,
/// set elements and map keys must be Hash + Ord)
pub fn serde_bindable(t: &RTy) -> bool {
    match t {
        RTy::Prim(p) => p != "str" && p != "&str",
        RTy::Named(n) => n == "Item" || n == "Kind",
        RTy::Ref(_) | RTy::Result1(_) | RTy::Result2(..) => false,
        RTy::Option(a) | RTy::Vec(a) => serde_bindable(a),
        RTy::HashSet(a) | RTy::BTreeSet(a) => serde_bindable(a) && hashable(a),
        RTy::HashMap(k, v) | RTy::BTreeMap(k, v) => serde_bindable(k) && hashable(k) && serde_bindable(v),
        RTy::Tuple(ts) => !ts.is_empty() && ts.len() <= 4 && ts.iter().all(serde_bindable),
    }
}

/// The types whose denotation is bound to serde: every unary constructor over every leaf, the
/// binary constructors over pairs of eight leaves, and every constructor position to depth 2 over
/// five leaves.
pub fn binding_types() -> Vec<RTy> {
    let mut leaves: Vec<RTy> = vec![RTy::prim("String"), RTy::prim("bool"), RTy::prim("()")];
    leaves.extend(NUMERIC_PRIMS.iter().map(|p| RTy::prim(p)));
    leaves.push(RTy::named("Item"));
    leaves.push(RTy::named("Kind"));
    let mut all: Vec<RTy> = leaves.clone();
    let b = |t: &RTy| Box::new(t.clone());
    for a in &leaves {
        all.extend([RTy::Option(b(a)), RTy::Vec(b(a)), RTy::HashSet(b(a)), RTy::BTreeSet(b(a)), RTy::Tuple(vec![a.clone()])]);
    }
    let eight = [RTy::prim("String"), RTy::prim("i32"), RTy::prim("u8"), RTy::prim("bool"), RTy::prim("()"), RTy::prim("f64"), RTy::named("Item"), RTy::named("Kind")];
    for a in &eight {
        for c in &eight {
            all.extend([RTy::HashMap(b(a), b(c)), RTy::BTreeMap(b(a), b(c)), RTy::Tuple(vec![a.clone(), c.clone()])]);
        }
    }
    all.extend(enumerate_spines(&[RTy::prim("String"), RTy::named("Item"), RTy::named("Kind"), RTy::prim("f64"), RTy::prim("()")], &[RTy::prim("i32")], 2));
    all.retain(serde_bindable);
    let mut seen = std::collections::HashSet::new();
    all.retain(|t| seen.insert(t.clone()));
    all.sort_by_key(|t| (t.depth(), t.to_rust().len(), t.to_rust()));
    all
}

pub fn samples_source() -> String {
    let mut s = String::from(
        r#"//! GENERATED by `ttv gen-fixtures` - do not edit. Real serde values for the types whose reference
//! denotation the harness binds to serde (see harness/src/gen.rs binding_types).
#![allow(dead_code, clippy::all)]
use serde::Serialize;
use std::collections::{BTreeMap, BTreeSet, HashMap, HashSet};
use std::hash::Hash;

#[derive(Debug, Clone, Serialize, PartialEq, Eq, Hash, PartialOrd, Ord)]
pub struct Item {
    pub id: i32,
}
#[derive(Debug, Clone, Serialize, PartialEq, Eq, Hash, PartialOrd, Ord)]
pub enum Kind {
    Alpha,
    Beta,
}

pub trait Sample: Sized {
    fn samples() -> Vec<Self>;
}
impl Sample for String {
    fn samples() -> Vec<Self> {
        vec!["s".to_string(), String::new()]
    }
}
impl Sample for bool {
    fn samples() -> Vec<Self> {
        vec![true, false]
    }
}
impl Sample for () {
    fn samples() -> Vec<Self> {
        vec![()]
    }
}
macro_rules! int_samples {
    ($($t:ty),*) => { $(impl Sample for $t { fn samples() -> Vec<Self> { vec![0, 1, <$t>::MAX] } })* };
}
int_samples!(i8, i16, i32, i64, i128, isize, u8, u16, u32, u64, u128, usize);
impl Sample for f32 {
    fn samples() -> Vec<Self> {
        vec![0.5, -2.0]
    }
}
impl Sample for f64 {
    fn samples() -> Vec<Self> {
        vec![0.5, -2.0]
    }
}
impl Sample for Item {
    fn samples() -> Vec<Self> {
        vec![Item { id: 1 }, Item { id: -7 }]
    }
}
impl Sample for Kind {
    fn samples() -> Vec<Self> {
        vec![Kind::Alpha, Kind::Beta]
    }
}
impl<T: Sample> Sample for Option<T> {
    fn samples() -> Vec<Self> {
        let mut v = vec![None];
        v.extend(T::samples().into_iter().map(Some));
        v
    }
}
impl<T: Sample> Sample for Vec<T> {
    fn samples() -> Vec<Self> {
        vec![vec![], T::samples()]
    }
}
impl<T: Sample + Eq + Hash> Sample for HashSet<T> {
    fn samples() -> Vec<Self> {
        vec![HashSet::new(), T::samples().into_iter().collect()]
    }
}
impl<T: Sample + Ord> Sample for BTreeSet<T> {
    fn samples() -> Vec<Self> {
        vec![BTreeSet::new(), T::samples().into_iter().collect()]
    }
}
impl<K: Sample + Eq + Hash, V: Sample + Clone> Sample for HashMap<K, V> {
    fn samples() -> Vec<Self> {
        let vs = V::samples();
        vec![HashMap::new(), K::samples().into_iter().enumerate().map(|(i, k)| (k, vs[i % vs.len()].clone())).collect()]
    }
}
impl<K: Sample + Ord, V: Sample + Clone> Sample for BTreeMap<K, V> {
    fn samples() -> Vec<Self> {
        let vs = V::samples();
        vec![BTreeMap::new(), K::samples().into_iter().enumerate().map(|(i, k)| (k, vs[i % vs.len()].clone())).collect()]
    }
}
fn first_last<T: Sample + Clone>() -> (T, T) {
    let v = T::samples();
    (v[0].clone(), v[v.len() - 1].clone())
}
impl<A: Sample + Clone> Sample for (A,) {
    fn samples() -> Vec<Self> {
        let a = first_last::<A>();
        vec![(a.0,), (a.1,)]
    }
}
impl<A: Sample + Clone, B: Sample + Clone> Sample for (A, B) {
    fn samples() -> Vec<Self> {
        let (a, b) = (first_last::<A>(), first_last::<B>());
        vec![(a.0, b.0), (a.1, b.1)]
    }
}
impl<A: Sample + Clone, B: Sample + Clone, C: Sample + Clone> Sample for (A, B, C) {
    fn samples() -> Vec<Self> {
        let (a, b, c) = (first_last::<A>(), first_last::<B>(), first_last::<C>());
        vec![(a.0, b.0, c.0), (a.1, b.1, c.1)]
    }
}
impl<A: Sample + Clone, B: Sample + Clone, C: Sample + Clone, D: Sample + Clone> Sample for (A, B, C, D) {
    fn samples() -> Vec<Self> {
        let (a, b, c, d) = (first_last::<A>(), first_last::<B>(), first_last::<C>(), first_last::<D>());
        vec![(a.0, b.0, c.0, d.0), (a.1, b.1, c.1, d.1)]
    }
}

/// serde_json's rendering of every sample (None: serde_json refuses the value, e.g. a map key that
/// is not string-like or a 128-bit number outside the 64-bit range)
fn json_of<T: Sample + Serialize>() -> Vec<Option<serde_json::Value>> {
    T::samples().iter().map(|v| serde_json::to_value(v).ok()).collect()
}

/// (Rust type text, serialised samples)
pub fn table() -> Vec<(String, Vec<Option<serde_json::Value>>)> {
    let mut t: Vec<(String, Vec<Option<serde_json::Value>>)> = Vec::new();
"#,
    );
    for ty in binding_types() {
        s.push_str(&format!("    t.push(({:?}.to_string(), json_of::<{}>()));\n", ty.to_rust(), ty.to_rust()));
    }
    s.push_str("    t\n}\n");
    s
}
