//! ttv - bounded exhaustive exploration of tauri-typegen (see /verif/DESIGN.md).

#![allow(dead_code)]
mod core;
mod gen;
mod modinfo;
mod naming;
mod projects;
mod props;
mod resolve;
mod run;
mod sbx;
mod shape;
mod typesite;
#[allow(dead_code)]
mod ts;

use crate::core::*;
use std::time::Instant;

fn usage() -> ! {
    eprintln!("usage: ttv check <ID> [quick|thorough] | ttv replay <path> | ttv selftest");
    std::process::exit(2);
}

fn main() {
    let args: Vec<String> = std::env::args().collect();
    if args.len() < 2 {
        usage();
    }
    if args[1] == "hash-order" {
        // selftest helper: the iteration order of a std HashSet in THIS process (a function of the
        // process's hash seeds, which the getrandom shim owns)
        let s: std::collections::HashSet<&str> = ["a", "b", "c", "d", "e", "f", "g"].iter().copied().collect();
        println!("{}", s.iter().copied().collect::<Vec<_>>().join(""));
        return;
    }
    silence_stdio();
    run::install_panic_hook();
    let n_threads = std::env::var("TTV_THREADS")
        .ok()
        .and_then(|s| s.parse().ok())
        .unwrap_or(16usize);
    let _ = rayon::ThreadPoolBuilder::new()
        .num_threads(n_threads)
        .stack_size(64 * 1024 * 1024)
        .build_global();
    let code = match args[1].as_str() {
        "check" => {
            if args.len() < 3 {
                usage();
            }
            let id = args[2].to_uppercase();
            let tier_arg = std::env::var("VERIF_TIER")
                .ok()
                .filter(|s| !s.is_empty())
                .or_else(|| args.get(3).cloned())
                .unwrap_or_else(|| "quick".into());
            let tier = match tier_arg.as_str() {
                "quick" => Tier::Quick,
                "thorough" => Tier::Thorough,
                _ => usage(),
            };
            let started = Instant::now();
            match props::run(&id, tier) {
                Some(res) => finish(res, tier, started),
                None => {
                    outln!("MACHINERY-ERROR unknown property {}", id);
                    2
                }
            }
        }
        "replay" => {
            if args.len() < 3 {
                usage();
            }
            match read_replay(std::path::Path::new(&args[2])) {
                Ok((prop, case)) => match props::replay(&prop, &case) {
                    Some(vs) => {
                        if vs.is_empty() {
                            outln!("REPLAY property={} verdict=holds (case no longer violates)", prop);
                            0
                        } else {
                            for v in &vs {
                                outln!("VIOLATION property={} replay={}", prop, args[2]);
                                outln!("  case: {}", v.key());
                                outln!("  detail: {}", v.detail);
                            }
                            1
                        }
                    }
                    None => {
                        outln!("MACHINERY-ERROR no replay routine for {}", prop);
                        2
                    }
                },
                Err(e) => {
                    outln!("MACHINERY-ERROR cannot read replay: {}", e);
                    2
                }
            }
        }
        "selftest" => props::selftest(),
        "gen-fixtures" => {
            let p = props::c06::fixtures_path();
            let p2 = verif_root().join("harness/samples/src/lib.rs");
            match std::fs::write(&p, props::c06::fixtures_source()).and_then(|_| std::fs::write(&p2, gen::samples_source())) {
                Ok(()) => {
                    outln!("wrote {} and {}", p.display(), p2.display());
                    0
                }
                Err(e) => {
                    outln!("cannot write {}: {}", p.display(), e);
                    2
                }
            }
        }
        _ => usage(),
    };
    run::cleanup_work_root();
    std::process::exit(code);
}
