//! Type-expression cases at the five translation sites: batched project construction and
//! extraction of the emitted TypeScript type for each case. Shared by C01, C02, C05, C10, C18.

use crate::gen::{self, Project, RTy};
use crate::modinfo::{self, ModInfo};
use crate::run::{run_lib_default, Cfg, LibRun};
use crate::ts::{self, Member, Module, ParseError, Type};
use serde::{Deserialize, Serialize};

#[derive(Debug, Clone, Copy, PartialEq, Eq, Hash, PartialOrd, Ord, Serialize, Deserialize)]
pub enum Site {
    Param,
    Return,
    Field,
    Channel,
    Event,
}
pub const SITES: [Site; 5] = [Site::Param, Site::Return, Site::Field, Site::Channel, Site::Event];

impl Site {
    pub fn name(self) -> &'static str {
        match self {
            Site::Param => "param",
            Site::Return => "return",
            Site::Field => "field",
            Site::Channel => "channel",
            Site::Event => "event",
        }
    }
    pub fn from_name(s: &str) -> Option<Site> {
        SITES.iter().copied().find(|x| x.name() == s)
    }
    /// Does this site carry TypeScript type *text* in the given mode? (fields and parameters exist
    /// only as schemas in Zod mode)
    pub fn has_ts_text(self, zod: bool) -> bool {
        !zod || matches!(self, Site::Return | Site::Channel | Site::Event)
    }
    pub fn batch_size(self) -> usize {
        match self {
            Site::Param => 12,
            _ => 48,
        }
    }
}

/// Build one project carrying `types` at `site`; `extra_defs` is prepended (type definitions).
pub fn build_project(site: Site, types: &[RTy], extra_defs: &str) -> Project {
    let mut s = String::from(gen::PRELUDE);
    s.push_str("use tauri::{AppHandle, Emitter};\nuse tauri::ipc::Channel;\n\n");
    s.push_str(extra_defs);
    match site {
        Site::Field => {
            s.push_str("#[derive(Debug, Clone, Serialize, Deserialize)]\npub struct Holder {\n");
            for (i, t) in types.iter().enumerate() {
                s.push_str(&format!("    pub f{}: {},\n", i, t.to_rust()));
            }
            s.push_str("}\n\n#[tauri::command]\npub fn use_holder(h: Holder) -> bool { let _ = h; true }\n");
        }
        Site::Param => {
            s.push_str("#[tauri::command]\npub fn cmd(");
            for (i, t) in types.iter().enumerate() {
                s.push_str(&format!("p{}: {}, ", i, t.to_rust()));
            }
            s.push_str(") -> bool { true }\n");
        }
        Site::Return => {
            for (i, t) in types.iter().enumerate() {
                s.push_str(&format!("#[tauri::command]\npub fn r{}() -> {} {{ todo!() }}\n", i, t.to_rust()));
            }
        }
        Site::Channel => {
            for (i, t) in types.iter().enumerate() {
                s.push_str(&format!("#[tauri::command]\npub fn c{}(ch: Channel<{}>) -> bool {{ let _ = ch; true }}\n", i, t.to_rust()));
            }
        }
        Site::Event => {
            s.push_str("#[tauri::command]\npub fn anchor() -> bool { true }\n");
            for (i, t) in types.iter().enumerate() {
                s.push_str(&format!(
                    "pub fn e{}(app: &AppHandle, p: {}) {{ app.emit(\"ev{}\", p).unwrap(); }}\n",
                    i,
                    t.to_rust(),
                    i
                ));
            }
        }
    }
    Project::single(s)
}

#[derive(Debug, Clone)]
pub enum Extracted {
    /// the emitted type, parsed, plus its source text if recoverable
    Type(Type),
    /// the file that should carry the type does not parse (C01's business)
    FileSyntaxError(String),
    /// the oracle's parser does not cover the file (machinery)
    Unsupported(String),
    /// the declaration that should carry the type is missing
    Missing(String),
    /// the run did not succeed
    RunFailed(String),
}

pub struct ParsedOutputs {
    pub types: Option<Result<Module, ParseError>>,
    pub commands: Option<Result<Module, ParseError>>,
    pub events: Option<Result<Module, ParseError>>,
    pub index: Option<Result<Module, ParseError>>,
}

pub fn parse_outputs(run: &LibRun) -> ParsedOutputs {
    let p = |n: &str| run.file(n).map(ts::parse_module);
    ParsedOutputs {
        types: p("types.ts"),
        commands: p("commands.ts"),
        events: p("events.ts"),
        index: p("index.ts"),
    }
}

fn member_type<'a>(members: &'a [Member], key: &str) -> Option<&'a Type> {
    members.iter().find_map(|m| match m {
        Member::Prop { key: k, ty, .. } if crate::shape::prop_key_string(k) == key => Some(ty),
        _ => None,
    })
}

fn file_err(e: &ParseError, file: &str) -> Extracted {
    match e.kind {
        ts::ParseErrorKind::Syntax => Extracted::FileSyntaxError(format!("{}: {}", file, e)),
        ts::ParseErrorKind::Unsupported => Extracted::Unsupported(format!("{}: {}", file, e)),
    }
}

/// Extract the emitted type of each of the `n` cases of a batch built by `build_project`.
pub fn extract(site: Site, run: &LibRun, n: usize) -> Vec<Extracted> {
    if !run.ok() {
        return (0..n).map(|_| Extracted::RunFailed(run.status_string())).collect();
    }
    let po = parse_outputs(run);
    let need = |m: &Option<Result<Module, ParseError>>, file: &str| -> Result<ModInfo, Extracted> {
        match m {
            None => Err(Extracted::Missing(format!("{} not written", file))),
            Some(Err(e)) => Err(file_err(e, file)),
            Some(Ok(m)) => Ok(ModInfo::of(m)),
        }
    };
    let all = |e: Extracted| (0..n).map(|_| e.clone()).collect::<Vec<_>>();
    match site {
        Site::Field => {
            let mi = match need(&po.types, "types.ts") {
                Ok(m) => m,
                Err(e) => return all(e),
            };
            let Some((_, members)) = mi.interfaces.get("Holder") else {
                return all(Extracted::Missing("interface Holder".into()));
            };
            (0..n)
                .map(|i| match member_type(members, &format!("f{}", i)) {
                    Some(t) => Extracted::Type(t.clone()),
                    None => Extracted::Missing(format!("Holder.f{}", i)),
                })
                .collect()
        }
        Site::Param => {
            let mi = match need(&po.types, "types.ts") {
                Ok(m) => m,
                Err(e) => return all(e),
            };
            let Some((_, members)) = mi.interfaces.get("CmdParams") else {
                return all(Extracted::Missing("interface CmdParams".into()));
            };
            (0..n)
                .map(|i| match member_type(members, &format!("p{}", i)) {
                    Some(t) => Extracted::Type(t.clone()),
                    None => Extracted::Missing(format!("CmdParams.p{}", i)),
                })
                .collect()
        }
        Site::Return => {
            let mi = match need(&po.commands, "commands.ts") {
                Ok(m) => m,
                Err(e) => return all(e),
            };
            (0..n)
                .map(|i| match mi.funcs.get(&format!("r{}", i)) {
                    Some(f) => match &f.ret {
                        Some(Type::Ref { name, args }) if name == &vec!["Promise".to_string()] && args.len() == 1 => Extracted::Type(args[0].clone()),
                        other => Extracted::Missing(format!("r{} return type is not Promise<..>: {:?}", i, other)),
                    },
                    None => Extracted::Missing(format!("function r{}", i)),
                })
                .collect()
        }
        Site::Channel => {
            let mi = match need(&po.types, "types.ts") {
                Ok(m) => m,
                Err(e) => return all(e),
            };
            (0..n)
                .map(|i| {
                    let iname = format!("C{}Params", i);
                    match mi.interfaces.get(&iname).and_then(|(_, ms)| member_type(ms, "ch")) {
                        Some(Type::Ref { name, args }) if name.last().map(|s| s.as_str()) == Some("Channel") && args.len() == 1 => Extracted::Type(args[0].clone()),
                        Some(other) => Extracted::Missing(format!("{}.ch is not Channel<..>: {:?}", iname, other)),
                        None => Extracted::Missing(format!("{}.ch", iname)),
                    }
                })
                .collect()
        }
        Site::Event => {
            let mi = match need(&po.events, "events.ts") {
                Ok(m) => m,
                Err(e) => return all(e),
            };
            (0..n)
                .map(|i| {
                    let fname = format!("onEv{}", i);
                    match mi.funcs.get(&fname) {
                        Some(f) => match f.params.first().and_then(|p| p.ty.as_ref()) {
                            Some(Type::Fn { params, .. }) => match params.first().and_then(|p| p.ty.clone()) {
                                Some(t) => Extracted::Type(t),
                                None => Extracted::Missing(format!("{} handler payload type", fname)),
                            },
                            other => Extracted::Missing(format!("{} handler is not a function type: {:?}", fname, other)),
                        },
                        None => Extracted::Missing(format!("function {}", fname)),
                    }
                })
                .collect()
        }
    }
}

/// Run one batch and extract; if the batch's carrier file does not parse, re-run each case alone
/// so that one bad case cannot poison the others. Returns per case: (extracted, evaluations used).
pub fn run_batch(site: Site, cfg: &Cfg, types: &[RTy], extra_defs: &str, evals: &mut u64) -> Vec<Extracted> {
    let project = build_project(site, types, extra_defs);
    let run = run_lib_default(&project, cfg);
    *evals += 1;
    let ex = extract(site, &run, types.len());
    let poisoned = types.len() > 1
        && ex.iter().all(|e| matches!(e, Extracted::FileSyntaxError(_) | Extracted::Unsupported(_) | Extracted::RunFailed(_)));
    if !poisoned {
        return ex;
    }
    types
        .iter()
        .map(|t| {
            let p = build_project(site, std::slice::from_ref(t), extra_defs);
            let r = run_lib_default(&p, cfg);
            *evals += 1;
            extract(site, &r, 1).remove(0)
        })
        .collect()
}

/// Solo evaluation of one case (used for re-confirmation and replay).
pub fn run_solo(site: Site, cfg: &Cfg, ty: &RTy, extra_defs: &str) -> (Extracted, LibRun) {
    let p = build_project(site, std::slice::from_ref(ty), extra_defs);
    let r = run_lib_default(&p, cfg);
    let e = extract(site, &r, 1).remove(0);
    (e, r)
}

pub fn unused() {
    let _ = modinfo::calls_of;
}
