//! Common plumbing: tiers, violations, known findings, evidence, replay artefacts, output.

use serde::{Deserialize, Serialize};
use serde_json::{json, Value};
use std::collections::BTreeMap;
use std::io::Write;
use std::path::{Path, PathBuf};
use std::sync::Mutex;
use std::time::Instant;

use crate::gen::RTy;

#[derive(Debug, Clone, Copy, PartialEq, Eq)]
pub enum Tier {
    Quick,
    Thorough,
}
impl Tier {
    pub fn name(self) -> &'static str {
        match self {
            Tier::Quick => "quick",
            Tier::Thorough => "thorough",
        }
    }
}

pub fn verif_root() -> PathBuf {
    std::env::var("TTV_ROOT")
        .map(PathBuf::from)
        .unwrap_or_else(|_| PathBuf::from("/verif"))
}

// ---------------------------------------------------------------------------------------------
// Output: the library under test prints a lot on stdout/stderr; the harness redirects fds 1/2 to
// /dev/null and prints through a saved duplicate of the original stdout.
// ---------------------------------------------------------------------------------------------
static REAL_OUT: Mutex<Option<std::fs::File>> = Mutex::new(None);

pub fn silence_stdio() {
    use std::os::fd::FromRawFd;
    unsafe {
        let saved = libc::dup(1);
        if saved < 0 {
            return;
        }
        let devnull = libc::open(c"/dev/null".as_ptr(), libc::O_WRONLY);
        if devnull >= 0 {
            libc::dup2(devnull, 1);
            if std::env::var("TTV_KEEP_STDERR").is_err() {
                libc::dup2(devnull, 2);
            }
            libc::close(devnull);
        }
        *REAL_OUT.lock().unwrap() = Some(std::fs::File::from_raw_fd(saved));
    }
}

pub fn out(line: &str) {
    let mut g = REAL_OUT.lock().unwrap();
    match g.as_mut() {
        Some(f) => {
            let _ = writeln!(f, "{}", line);
            let _ = f.flush();
        }
        None => println!("{}", line),
    }
}

#[macro_export]
macro_rules! outln {
    ($($arg:tt)*) => { $crate::core::out(&format!($($arg)*)) };
}

// ---------------------------------------------------------------------------------------------
// Violations
// ---------------------------------------------------------------------------------------------

/// One violating case. `fields` + `class` (+ `ty`) form the canonical case key.
#[derive(Debug, Clone, Serialize, Deserialize)]
pub struct Violation {
    pub property: String,
    /// short symptom class, e.g. "shape-mismatch", "syntax-error", "stale-output"
    pub class: String,
    /// canonical case coordinates (site, mode, edit, ...)
    pub fields: BTreeMap<String, String>,
    /// for type-shaped inputs: the Rust type expression of the case
    #[serde(default)]
    pub ty: Option<RTy>,
    /// human-readable expected vs observed
    pub detail: String,
    /// everything needed to re-run exactly this case without an explorer
    pub replay: Value,
    /// simplicity rank (smaller = simpler case); unlisted violations are reported simplest first
    #[serde(default)]
    pub rank: u64,
}

impl Violation {
    pub fn new(property: &str, class: &str, detail: impl Into<String>, replay: Value) -> Self {
        Violation {
            property: property.to_string(),
            class: class.to_string(),
            fields: BTreeMap::new(),
            ty: None,
            detail: detail.into(),
            replay,
            rank: 0,
        }
    }
    pub fn with_replay_field(mut self, k: &str, v: Value) -> Self {
        if let Some(o) = self.replay.as_object_mut() {
            o.insert(k.to_string(), v);
        }
        self
    }
    pub fn rank(mut self, r: u64) -> Self {
        self.rank = r;
        self
    }
    pub fn field(mut self, k: &str, v: impl Into<String>) -> Self {
        self.fields.insert(k.to_string(), v.into());
        self
    }
    pub fn with_ty(mut self, ty: &RTy) -> Self {
        self.ty = Some(ty.clone());
        self
    }
    pub fn key(&self) -> String {
        let mut s = format!("class={}", self.class);
        for (k, v) in &self.fields {
            s.push_str(&format!(";{}={}", k, v));
        }
        if let Some(t) = &self.ty {
            s.push_str(&format!(";ty={}", t.to_rust()));
        }
        s
    }
}

// ---------------------------------------------------------------------------------------------
// Known findings (committed file, never written at run time)
// ---------------------------------------------------------------------------------------------

/// Structural predicate over the generator's own type AST. Constructor names are those of
/// `RTy::ctor_name` (Option Vec HashSet BTreeSet HashMap BTreeMap Tuple Result2 Result1 Ref
/// Named Prim:<name> Path).
#[derive(Debug, Clone, Serialize, Deserialize)]
#[serde(rename_all = "snake_case")]
pub enum TyPred {
    /// the type contains constructor C anywhere
    Has(String),
    /// a node C2 occurs as a *direct* argument of a node C1 (optionally at a given argument index)
    Direct(String, String),
    DirectAt(String, usize, String),
    /// like Direct, but looking through the transparent constructors (`&T`, and the success arm of
    /// `Result`) between C1 and C2: the translator renders those as their argument
    DirectT(String, String),
    /// a node C2 occurs anywhere strictly below a node C1
    Under(String, String),
    /// root constructor is C
    Root(String),
    /// nesting depth of the type (leaf = 0) is at most N
    MaxDepth(usize),
    All(Vec<TyPred>),
    Any(Vec<TyPred>),
    Not(Box<TyPred>),
}

impl TyPred {
    pub fn eval(&self, t: &RTy) -> bool {
        match self {
            TyPred::Has(c) => t.any_node(&|n| n.ctor_matches(c)),
            TyPred::Direct(p, c) => t.any_node(&|n| {
                n.ctor_matches(p) && n.children().iter().any(|ch| ch.ctor_matches(c))
            }),
            TyPred::DirectAt(p, i, c) => t.any_node(&|n| {
                n.ctor_matches(p) && n.children().get(*i).is_some_and(|ch| ch.ctor_matches(c))
            }),
            TyPred::DirectT(p, c) => t.any_node(&|n| {
                n.ctor_matches(p)
                    && n.children().iter().any(|ch| {
                        let mut cur: &RTy = ch;
                        loop {
                            match cur {
                                RTy::Ref(inner) | RTy::Result1(inner) | RTy::Result2(inner, _) => cur = inner,
                                _ => break,
                            }
                        }
                        cur.ctor_matches(c)
                    })
            }),
            TyPred::Under(p, c) => t.any_node(&|n| {
                n.ctor_matches(p)
                    && n.children()
                        .iter()
                        .any(|ch| ch.any_node(&|m| m.ctor_matches(c)))
            }),
            TyPred::Root(c) => t.ctor_matches(c),
            TyPred::MaxDepth(d) => t.depth() <= *d,
            TyPred::All(ps) => ps.iter().all(|p| p.eval(t)),
            TyPred::Any(ps) => ps.iter().any(|p| p.eval(t)),
            TyPred::Not(p) => !p.eval(t),
        }
    }
}

#[derive(Debug, Clone, Serialize, Deserialize)]
pub struct Finding {
    pub property: String,
    /// symptom class that must match exactly
    pub class: String,
    /// every listed field must be present in the violation with one of the listed values ("*" = any)
    #[serde(default)]
    pub r#where: BTreeMap<String, Vec<String>>,
    /// optional structural predicate on the case's type expression
    #[serde(default)]
    pub ty: Option<TyPred>,
    /// what fails, in words (printed on the KNOWN-FINDING line)
    pub what: String,
    /// root cause in the code
    #[serde(default)]
    pub cause: String,
}

#[derive(Debug, Clone, Serialize, Deserialize)]
#[serde(untagged)]
pub enum FindingLine {
    Fixed {
        fixed: String,
    },
    Open(Finding),
}

impl Finding {
    pub fn matches(&self, v: &Violation) -> bool {
        if self.property != v.property || self.class != v.class {
            return false;
        }
        for (k, allowed) in &self.r#where {
            match v.fields.get(k) {
                Some(val) => {
                    if !allowed.iter().any(|a| a == "*" || a == val) {
                        return false;
                    }
                }
                None => return false,
            }
        }
        if let Some(p) = &self.ty {
            match &v.ty {
                Some(t) => {
                    if !p.eval(t) {
                        return false;
                    }
                }
                None => return false,
            }
        }
        true
    }
    pub fn label(&self) -> String {
        let mut s = String::new();
        for (k, vals) in &self.r#where {
            s.push_str(&format!("{}={} ", k, vals.join("|")));
        }
        if let Some(t) = &self.ty {
            s.push_str(&format!("ty~{} ", serde_json::to_string(t).unwrap_or_default()));
        }
        s.trim().to_string()
    }
}

pub fn load_findings() -> Vec<Finding> {
    let path = verif_root().join("known-findings.jsonl");
    let Ok(text) = std::fs::read_to_string(&path) else {
        return vec![];
    };
    let mut v = Vec::new();
    for (i, line) in text.lines().enumerate() {
        let line = line.trim();
        if line.is_empty() || line.starts_with('#') || line.starts_with("//") {
            continue;
        }
        match serde_json::from_str::<FindingLine>(line) {
            Ok(FindingLine::Open(f)) => v.push(f),
            Ok(FindingLine::Fixed { .. }) => {}
            Err(e) => {
                out(&format!(
                    "MACHINERY-ERROR known-findings.jsonl line {}: {}",
                    i + 1,
                    e
                ));
                std::process::exit(2);
            }
        }
    }
    v
}

// ---------------------------------------------------------------------------------------------
// Check result and the common epilogue
// ---------------------------------------------------------------------------------------------

#[derive(Debug, Default)]
pub struct Coverage {
    pub map: serde_json::Map<String, Value>,
}
impl Coverage {
    pub fn set(&mut self, k: &str, v: impl Into<Value>) {
        self.map.insert(k.to_string(), v.into());
    }
    pub fn add(&mut self, k: &str, n: u64) {
        let cur = self.map.get(k).and_then(|v| v.as_u64()).unwrap_or(0);
        self.map.insert(k.to_string(), json!(cur + n));
    }
    pub fn get_u64(&self, k: &str) -> u64 {
        self.map.get(k).and_then(|v| v.as_u64()).unwrap_or(0)
    }
}

pub struct CheckResult {
    pub property: String,
    pub level: &'static str,
    /// primary violations (already re-confirmed solo where batching is used)
    pub violations: Vec<Violation>,
    /// violating cases classified as derived (not reported individually)
    pub derived: u64,
    pub coverage: Coverage,
    pub assumptions: Vec<String>,
    /// machinery problems (oracle could not judge); any entry => exit 2
    pub machinery_errors: Vec<String>,
}

impl CheckResult {
    pub fn new(property: &str, level: &'static str) -> Self {
        CheckResult {
            property: property.to_string(),
            level,
            violations: vec![],
            derived: 0,
            coverage: Coverage::default(),
            assumptions: vec![],
            machinery_errors: vec![],
        }
    }
}

fn short_hash(s: &str) -> String {
    // deterministic (SipHash with zero keys)
    use std::hash::{Hash, Hasher};
    #[allow(deprecated)]
    let mut h = std::hash::SipHasher::new();
    s.hash(&mut h);
    format!("{:016x}", h.finish())
}

pub fn stable_hash(s: &str) -> String {
    short_hash(s)
}

pub fn write_replay(v: &Violation) -> PathBuf {
    let dir = verif_root()
        .join("replays")
        .join(&v.property)
        .join(short_hash(&v.key()));
    let _ = std::fs::create_dir_all(&dir);
    let doc = json!({
        "property": v.property,
        "class": v.class,
        "key": v.key(),
        "fields": v.fields,
        "ty": v.ty,
        "detail": v.detail,
        "case": v.replay,
    });
    let p = dir.join("replay.json");
    let _ = std::fs::write(&p, serde_json::to_string_pretty(&doc).unwrap());
    p
}

/// Epilogue shared by all checks: match known findings, print lines, write evidence, exit code.
pub fn finish(res: CheckResult, tier: Tier, started: Instant) -> i32 {
    let findings = load_findings();
    let relevant: Vec<&Finding> = findings
        .iter()
        .filter(|f| f.property == res.property)
        .collect();
    let mut used = vec![0u64; relevant.len()];
    let mut unknown: Vec<&Violation> = Vec::new();
    // deterministic order
    let mut vs: Vec<&Violation> = res.violations.iter().collect();
    vs.sort_by_key(|v| v.key());
    vs.dedup_by_key(|v| v.key());
    for v in &vs {
        let mut hit = false;
        for (i, f) in relevant.iter().enumerate() {
            if f.matches(v) {
                used[i] += 1;
                hit = true;
                break;
            }
        }
        if !hit {
            unknown.push(v);
        }
    }
    let mut known_printed = 0;
    for (i, f) in relevant.iter().enumerate() {
        if used[i] > 0 {
            out(&format!(
                "KNOWN-FINDING: property={} {} [{}; {} enumerated case(s)] — {}",
                res.property,
                f.what,
                f.label(),
                used[i],
                f.cause
            ));
            known_printed += 1;
        } else {
            out(&format!(
                "NOTE stale-finding property={} {} [{}] did not reproduce in this tier",
                res.property,
                f.what,
                f.label()
            ));
        }
    }
    const MAX_PRINT: usize = 25;
    unknown.sort_by_key(|v| (v.rank, v.key()));
    // developer aid (never part of a verdict): dump every unlisted violation for triage
    if let Ok(path) = std::env::var("TTV_DUMP") {
        let lines: Vec<String> = unknown.iter().map(|v| format!("{}\t{}", v.key(), v.detail.replace('\n', " "))).collect();
        let _ = std::fs::write(path, lines.join("\n"));
    }
    for (i, v) in unknown.iter().enumerate() {
        if i < MAX_PRINT {
            let p = write_replay(v);
            out(&format!(
                "VIOLATION property={} replay={}",
                res.property,
                p.display()
            ));
            out(&format!("  case: {}", v.key()));
            out(&format!("  detail: {}", v.detail.replace('\n', "\n    ")));
        }
    }
    if unknown.len() > MAX_PRINT {
        out(&format!(
            "  ... {} more violations (not listed; fix the simplest first)",
            unknown.len() - MAX_PRINT
        ));
    }
    for m in &res.machinery_errors {
        out(&format!("MACHINERY-ERROR property={} {}", res.property, m));
    }

    // evidence
    let mut cov = res.coverage.map.clone();
    cov.insert("violating_cases_primary".into(), json!(vs.len()));
    cov.insert("violating_cases_derived".into(), json!(res.derived));
    cov.insert("known_findings_matched".into(), json!(known_printed));
    cov.insert("unlisted_violations".into(), json!(unknown.len()));
    let seed: i64 = std::env::var("VERIF_SEED")
        .ok()
        .and_then(|s| s.parse().ok())
        .unwrap_or(0);
    let ev = json!({
        "property_id": res.property,
        "tier": tier.name(),
        "seed": seed,
        "level": res.level,
        "coverage": Value::Object(cov),
        "assumptions": res.assumptions,
        "wall_s": started.elapsed().as_secs_f64(),
        "violations": unknown.len(),
    });
    // TTV_EVIDENCE_DIR: used by seeded/try.sh so that runs against a deliberately broken tree do
    // not overwrite the evidence of the real one
    let evdir = std::env::var("TTV_EVIDENCE_DIR").map(std::path::PathBuf::from).unwrap_or_else(|_| verif_root().join("evidence"));
    let _ = std::fs::create_dir_all(&evdir);
    let evpath = evdir.join(format!("{}.json", res.property));
    if let Err(e) = std::fs::write(&evpath, serde_json::to_string_pretty(&ev).unwrap() + "\n") {
        out(&format!("MACHINERY-ERROR cannot write evidence: {}", e));
        return 2;
    }
    // a thorough run also leaves a copy that the next quick run does not overwrite
    if tier == Tier::Thorough {
        let tdir = evdir.join("thorough");
        let _ = std::fs::create_dir_all(&tdir);
        let _ = std::fs::write(tdir.join(format!("{}.json", res.property)), serde_json::to_string_pretty(&ev).unwrap() + "\n");
    }
    out(&format!(
        "SUMMARY property={} tier={} violations={} known={} derived={} wall={:.1}s evidence={}",
        res.property,
        tier.name(),
        unknown.len(),
        known_printed,
        res.derived,
        started.elapsed().as_secs_f64(),
        evpath.display()
    ));
    if !res.machinery_errors.is_empty() {
        return 2;
    }
    if !unknown.is_empty() {
        return 1;
    }
    0
}

pub fn read_replay(path: &Path) -> Result<(String, Value), String> {
    let p = if path.is_dir() {
        path.join("replay.json")
    } else {
        path.to_path_buf()
    };
    let text = std::fs::read_to_string(&p).map_err(|e| format!("{}: {}", p.display(), e))?;
    let v: Value = serde_json::from_str(&text).map_err(|e| e.to_string())?;
    let prop = v["property"].as_str().unwrap_or("").to_string();
    Ok((prop, v["case"].clone()))
}

/// Wall-clock budget helper: engines stop enumerating (and report `exhaustive:false`) when the
/// deadline passes.
#[derive(Clone, Copy)]
pub struct Deadline {
    end: Instant,
}
impl Deadline {
    pub fn after_secs(s: u64) -> Self {
        Deadline {
            end: Instant::now() + std::time::Duration::from_secs(s),
        }
    }
    pub fn passed(&self) -> bool {
        Instant::now() >= self.end
    }
}

pub fn tier_deadline(tier: Tier) -> Deadline {
    let secs = std::env::var("TTV_BUDGET_S")
        .ok()
        .and_then(|s| s.parse().ok())
        .unwrap_or(match tier {
            Tier::Quick => 50,
            Tier::Thorough => 900,
        });
    Deadline::after_secs(secs)
}
