// automatic semicolon insertion everywhere
import { invoke } from '@tauri-apps/api/core'
import * as types from './types'

export type Id = string | number
export type Pair = [Id, Id]

export interface Thing {
  id: Id
  name: string
  [key: string]: unknown
  tags?: string[]
  run(x: number): void
}

export const defaults = { id: 1, name: 'x' }
let counter = 0
var legacy

export async function getThing(id: Id): Promise<Thing> {
  counter += 1
  const r = await invoke<Thing>('get_thing', { id })
  if (!r) throw new Error(`no thing ${id}`)
  return r
}

export function nothing() {
  return
}

export function last() { return counter }
