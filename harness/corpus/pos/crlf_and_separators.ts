export interface A {
  a: string;
  b: number;
}
export type B = "x" | "y";
const ls = 1; const ps = 2; const cr = 3;const done = 'a b';
