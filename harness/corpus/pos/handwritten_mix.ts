import { z } from 'zod';
import { invoke } from '@tauri-apps/api/core';

const cache = new Map<string, Promise<unknown>>();

export type Result<T, E = Error> = { ok: true; value: T } | { ok: false; error: E };

export const wrap = async <T,>(fn: () => Promise<T>): Promise<Result<T>> => {
  try {
    return { ok: true, value: await fn() };
  } catch (e) {
    return { ok: false, error: e instanceof Error ? e : new Error(String(e)) };
  }
};

export function memo<A extends unknown[], R>(key: string, fn: (...args: A) => Promise<R>): (...args: A) => Promise<R> {
  return (...args) => {
    const k = `${key}:${JSON.stringify(args)}`;
    const hit = cache.get(k);
    if (hit !== undefined) return hit as Promise<R>;
    const p = fn(...args);
    cache.set(k, p);
    return p;
  };
}

export const Settings = z.object({
  theme: z.enum(['light', 'dark']).default('light'),
  zoom: z.coerce.number().min(0.5).max(3).optional(),
  recent: z.array(z.string()).max(10),
  keymap: z.record(z.string(), z.tuple([z.string(), z.boolean()])),
}).strict();

export type Settings = z.infer<typeof Settings>;

export default async function load(): Promise<Settings> {
  const raw = await invoke<unknown>('load_settings');
  const parsed = Settings.safeParse(raw);
  if (!parsed.success) throw parsed.error;
  return parsed.data;
}
