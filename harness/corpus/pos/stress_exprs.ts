// expression grammar stress
const nums = [0, 1, 1.5, .5, 5., 1e3, 1E-3, 1.5e+10, 0x1F, 0XaB, 0o17, 0b1010, 1_000_000, 0xFF_FF, 10n, 0n, 0x1Fn];
const strs = ['a', "b", 'it\'s', "say \"hi\"", '\\', '\n\r\t\b\f\v\0', '\x41B\u{43}\u{1F600}', 'line\
continued', "é ü 漢字 😀", '', "\q"];
const tmpl = [``, `plain`, `a${1}`, `${a}${b}`, `a${b + `c${d}`}e`, `multi
line`, `\`\${}`, `${{ a: { b: 1 } }.a.b}`, `${(() => { return `x${1}`; })()}`];
const arith = a + b * c - d / e % f ** g ** h;
const shifts = a << 1 | b >> 2 ^ c >>> 3 & d;
const cmp = a < b && c > d || e <= f && g >= h;
const eq = a == b || a != b || a === b || a !== b;
const rel = a instanceof B || 'k' in obj;
const logic = (a ?? b) || c && !d;
const nullish = a ?? b ?? c;
const cond = a ? b : c ? d : e;
const cond2 = a ? (b) : c;
const cond3 = a ? (b, c) => d : (e) => f;
const unary = [!a, -a, +a, ~a, typeof a, void 0, delete o.p, !!a, - -a, -(-a)];
const nn = a!.b![0]!.c!;
const casts = [x as string, x as unknown as string[], [1, 2] as const, x as A | B, (x as any).y, <T,>(v: T) => v];
const chain = a.b.c?.d?.[e]?.(f).g[h](i)(j);
const words = a.delete.class.new.typeof.in.as.type.default;
const calls = [f(), f(a), f(a, b,), f(...a), f(a, ...b, c), f<A>(a), f<A, B<C>>(a), f<A[]>(), new F, new F(), new F<A>(a), new a.b.C(), new (g())(), new new H()()];
const lt = a < b > c;
const arrows = [() => 1, x => x, (x) => x, (x, y) => x + y, (x: number): number => x, async () => {}, async x => x, async (x) => x, <T>(x: T) => x, <T extends object = {}>(x: T): T => x, async <T,>(x: T) => x, ({ a, b }) => a, ([a, b] = [1, 2]) => a, (a = 1, ...rest) => rest, () => ({}), () => ({ a: 1 }), () => [], x => y => z => 0];
const funcs = [function () {}, function named() { return named; }, async function () { await x; }, function <T>(this_: T, ...r: T[]): T { return this_; }];
const obj = { a, b: 1, 'c-d': 2, "e": 3, 4: 5, 1.5: 6, [k]: 7, [`t${k}`]: 8, ...rest, ...f(), m() { return 1; }, async n() {}, async: 1, get: 2, set: 3, [k2]() {}, async [k3]() {}, 'str'() {}, 1() {}, m2<T>(x: T): T { return x; }, delete: 1, class: 2, undefined, };
const arr = [, a, , ...b, [c, [d]], ];
const asyncIdent = async;
const asyncCall = async(1, 2);
const parens = ((((a))));
let x, y = 1, z: number, w: string = 's';
const { p, q: { r }, 's-t': st, 3: three, u = 1, ...others } = obj;
const [h1, , h3 = 2, [h4], ...tail] = arr;
x = y = z;
x += 1; x -= 1; x *= 2; x /= 2; x %= 2; x **= 2; x <<= 1; x >>= 1; x >>>= 1; x &= 1; x |= 1; x ^= 1; x &&= y; x ||= y; x ??= y;
o.p = 1; o[k] = 2; o.p!.q = 3; (o.p as any) = 4; (x) = 5;
[x, y] = [y, x];
({ a: x, b: y } = o);
this.x = undefined === null;
async function flow(a: number, b?: string, ...rest: boolean[]): Promise<void> {
  if (a) b = 'x'; else if (b) { return; } else throw new Error('no');
  try { await g(); } catch { }
  try { await g(); } catch (e) { throw e; }
  try { await g(); } catch (e: unknown) { } finally { }
  try { } finally { }
  { ; }
  var hoisted = 1, other;
  function inner() { return inner; }
  return
}
