// type grammar stress
type Kw = string | number | boolean | void | null | undefined | unknown | any | never | object | bigint | symbol;
type Lit = "a" | 'b' | 1 | -1 | 1.5 | 1e3 | 0x1F | 10n | true | false;
type Lead = | "a" | "b";
type LeadAnd = & A & B;
type Prec = A | B & C | D[] & (E | F)[];
type Arr = string[][] | Array<Array<string>> | ReadonlyArray<string>;
type Idx = User['name'] | User["tags"][number] | T[K][];
type Tup = [] | [string] | [string, number,] | [a: string, b?: number, ...rest: boolean[]] | [string, number?, ...Date[]];
type Obj = { a: string; b?: number, readonly c: boolean; "d-e": null; 'f g'?: undefined; 1: string; 1.5: number; [key: string]: unknown; readonly [idx: number]: string };
type ObjNl = {
  a: string
  b: number
  m(x: number, y?: string): void
  g<T>(x: T): T
  opt?(): void
  delete: boolean
  class: string
  readonly: string
  type: number
};
type Fn = () => void;
type Fn2 = (a: string, b?: number, ...rest: unknown[]) => Promise<void>;
type Fn3 = <T, U extends keyof T = keyof T>(obj: T, key: U) => T[U];
type Fn4 = (cb: (err: Error | null, data?: string) => void) => () => void;
type Fn5 = ({ a, b }: { a: string; b: number }, [c, d]: [string, number]) => void;
type Par = (string | number)[] | ((a: string) => void)[] | (() => void) | null;
type Q = typeof config | typeof config.nested.value | typeof items[];
type K = keyof User | keyof typeof config | keyof User[];
type RO = readonly string[] | readonly [string, number];
type Cond<T> = T extends string ? 'str' : T extends number ? 'num' : T extends (x: never) => void ? 'fn' : never;
type Gen<T, U = T[], V extends object = {}> = Map<T, Set<U>> & V;
type Deep = Promise<Record<string, Array<Map<string, [types.User | null, number][]>>>>;
type Ns = types.User | a.b.c.D<e.F> | z.infer<typeof Schema>;
type Trail = Record<string, number,>;
type Words = { string: string; number: number; any: any; keyof: string; infer: string; is: boolean; asserts: boolean };
interface I0 {}
interface I1<T> extends I0, Base<T>, ns.Other<T[], "lit"> { value: T }
interface I2 { a: string, b: number, }
interface I3 { a: string; b: number; }
export interface I4<A = string> {
  /** doc */
  field: A; // trailing
  /* block */ other?: A[];
}
let annotated: Array<number>= [];
let shifty: Array<Array<Array<number>>>= [];
