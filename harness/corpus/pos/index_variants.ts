// every import / export spelling of the grammar
import 'side-effect';
import "double-quoted";
import def from './def';
import def2, { a, b as c, type D, } from './mixed';
import def3, * as ns from './ns';
import * as types from './types';
import type { OnlyType } from './types';
import type TypeDefault from './types';
import { type as typeAlias, from, as, of } from './words';
import { default as renamedDefault, delete as del, class as klass } from './reserved';
import {} from './empty';

export * from './types';
export * as everything from './types';
export { a, c as cc, def as default };
export { x, y as z, default as w, type T } from './other';
export type { OnlyType, TypeDefault as TD };
export {};
export default def2
