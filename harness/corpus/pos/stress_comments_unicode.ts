#!/usr/bin/env node
/** doc comment with `code`, 'quotes', "double" and /* not nested */
// line comment with */ and /* and ` and ' and "
/**/
/***/
export interface Ünï_$ { // trailing
  /* a */ ключ /* b */ : /* c */ string /* d */ ; // e
  名前?: string; $: number; _: number; $_0: boolean; a‌b: string;
}
export type 漢字 = "值" | 'emoji 😀' | "tab\tnew\nline";
export const π = 3.14 /* inline */ + /* another */ 1; // done
const s = 'a // not a comment' + "/* neither */" + `// nor ${ /* real */ 1 } this`;
const url = 'http://example.com/a/b';
const division = a / b / c;
const slash = (a) / 2 + x[0] / 2 + f() / 2;
x /= 2;
