/**
 * Auto-generated index
 */

export * from './types';
export * from './commands';
export * from './events';
