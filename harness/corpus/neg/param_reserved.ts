// expect: Syntax
export function f(class: string) {}
