// expect: Unsupported
outer: a;
