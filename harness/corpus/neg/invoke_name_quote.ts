// expect: Syntax
export async function f(): Promise<void> {
  return invoke('it's');
}
