// expect: Syntax
function f(...a: string[], b: number) {}
