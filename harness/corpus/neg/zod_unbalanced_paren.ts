// expect: Syntax
export const S = z.object({
  a: z.array(z.string(),
});
