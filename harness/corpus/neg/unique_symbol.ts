// expect: Unsupported
declare_;
type T = unique symbol;
