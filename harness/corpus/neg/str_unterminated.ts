// expect: Syntax
const x = "a
