// expect: Unsupported
const o = {
  get x() { return 1; },
};
