// expect: Unsupported
type T = `a-${string}`;
