// expect: Unsupported
export namespace N {
  export const a = 1;
}
