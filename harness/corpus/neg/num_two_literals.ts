// expect: Syntax
const a = 1 2;
