// expect: Unsupported
const e = <div>hi</div>;
