// expect: Syntax
const o = { delete };
