// expect: Unsupported
i++;
