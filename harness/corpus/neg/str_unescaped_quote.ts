// expect: Syntax
const x = 'it's';
