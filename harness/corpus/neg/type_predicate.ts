// expect: Unsupported
function isS(x: unknown): x is string {
  return typeof x === 'string';
}
