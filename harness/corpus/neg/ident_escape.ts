// expect: Unsupported
const \u0061bc = 1;
