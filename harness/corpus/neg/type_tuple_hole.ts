// expect: Syntax
type T = [string, ;
