// expect: Syntax
const f = (a)
  => a;
