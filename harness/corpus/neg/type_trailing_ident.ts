// expect: Syntax
type T = Vec<(A, B)>Schema;
