// expect: Syntax
export interface A {
  a: string;
}
}
