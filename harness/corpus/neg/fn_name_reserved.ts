// expect: Syntax
export async function delete(): Promise<void> {
  return invoke('delete');
}
