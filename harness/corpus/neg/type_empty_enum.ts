// expect: Syntax
export type Empty = ;
export type Ok = "a";
