// expect: Syntax
export interface P {
  display name: string;
}
