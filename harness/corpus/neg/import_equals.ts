// expect: Unsupported
import fs = require('fs');
