// expect: Syntax
a + b = c;
