// expect: Syntax
export interface new {
  a: string;
}
