// expect: Syntax
function f() {
  if a { return; }
}
