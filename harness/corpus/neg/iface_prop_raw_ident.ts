// expect: Syntax
export interface P {
  r#type: string;
}
