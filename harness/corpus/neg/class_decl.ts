// expect: Unsupported
export class A {
  x = 1;
}
