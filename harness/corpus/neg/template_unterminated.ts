// expect: Syntax
const t = `a${b}
