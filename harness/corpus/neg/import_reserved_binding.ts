// expect: Syntax
import { delete } from './m';
