// expect: Unsupported
const a = b.#c;
