// expect: Syntax
const a = 0777;
