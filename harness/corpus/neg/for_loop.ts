// expect: Unsupported
for (const a of b) {
}
