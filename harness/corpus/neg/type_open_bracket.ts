// expect: Syntax
type T = string | null[;
