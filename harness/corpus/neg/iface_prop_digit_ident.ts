// expect: Syntax
export interface Foo {
  2x: string;
}
