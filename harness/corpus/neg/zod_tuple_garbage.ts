// expect: Syntax
export const S = z.object({
  a: (A, B)Schema,
});
