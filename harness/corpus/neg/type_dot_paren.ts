// expect: Syntax
type T = types.(User;
