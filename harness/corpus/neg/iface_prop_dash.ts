// expect: Syntax
export interface Foo {
  user-id: string;
}
