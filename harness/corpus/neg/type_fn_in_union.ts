// expect: Syntax
type T = string | (a: string) => void;
