// expect: Syntax
interface I { a: string b: number }
