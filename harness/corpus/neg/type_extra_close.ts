// expect: Syntax
type T = Array<string>>;
