// expect: Syntax
export async function onUser:created(
  handler: (payload: string) => void
): Promise<UnlistenFn> {
  return listen<string>('user:created', (event) => {
    handler(event.payload);
  });
}
