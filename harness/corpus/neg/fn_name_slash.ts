// expect: Syntax
export async function onA/b(handler: () => void) {}
