// expect: Unsupported
switch (a) {
  default:
}
