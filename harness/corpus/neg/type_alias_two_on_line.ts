// expect: Syntax
type A = string type B = number
