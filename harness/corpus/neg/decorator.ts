// expect: Unsupported
@sealed
class A {}
