// expect: Syntax
export const S = z.object({
  r#type: z.string(),
});
