// expect: Syntax
const s = '\12';
