// expect: Syntax
function f() {
  try { g(); }
}
