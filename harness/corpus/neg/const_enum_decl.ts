// expect: Unsupported
export const enum Color { Red }
