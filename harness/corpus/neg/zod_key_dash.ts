// expect: Syntax
export const S = z.object({
  user-id: z.string(),
});
