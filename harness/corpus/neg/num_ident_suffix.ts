// expect: Syntax
const a = 3px;
