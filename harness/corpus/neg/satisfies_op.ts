// expect: Unsupported
const a = b satisfies C;
