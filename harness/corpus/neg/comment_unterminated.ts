// expect: Syntax
const a = 1;
/* never closed
const b = 2;
