// expect: Unsupported
declare module 'x' {
}
