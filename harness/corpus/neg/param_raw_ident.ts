// expect: Syntax
export async function f(r#type: string): Promise<void> {
  return invoke('f');
}
