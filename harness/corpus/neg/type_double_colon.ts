// expect: Syntax
type T = tauri::Webview;
