// expect: Syntax
export interface A {
  w: tauri::Webview;
}
