// expect: Unsupported
type E<T> = T extends Array<infer U> ? U : never;
