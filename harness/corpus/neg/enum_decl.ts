// expect: Unsupported
export enum Color {
  Red,
  Green,
}
