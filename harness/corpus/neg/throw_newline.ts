// expect: Syntax
function f() {
  throw
    new Error('x');
}
