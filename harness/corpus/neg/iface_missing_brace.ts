// expect: Syntax
export interface A {
  a: string;

export interface B {
  b: string;
}
