// expect: Syntax
type T = Promise<types.HashMap<String>;
