// expect: Syntax
export type E = "A" | ;
