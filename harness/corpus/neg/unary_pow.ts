// expect: Syntax
const a = -b ** 2;
