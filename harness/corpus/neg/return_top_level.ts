// expect: Syntax
return 1;
