// expect: Syntax
type T = ;
