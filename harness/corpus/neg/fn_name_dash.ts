// expect: Syntax
export async function get-user(): Promise<void> {
  return invoke('get-user');
}
