// expect: Syntax
return_('a
b');
