// expect: Syntax
export foo;
