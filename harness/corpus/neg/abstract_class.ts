// expect: Unsupported
abstract class A {}
