// expect: Syntax
import { a } './m';
