// expect: Syntax
export type E = "say "hi"" | "b";
