// expect: Unsupported
const r = /a'b/g;
