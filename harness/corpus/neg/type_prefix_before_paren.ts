// expect: Syntax
export async function f(): Promise<types.(types.A | null)[]> {
  return invoke('f');
}
