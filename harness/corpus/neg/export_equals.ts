// expect: Unsupported
export = a;
