// expect: Unsupported
type M<T> = { [K in keyof T]: T[K] };
