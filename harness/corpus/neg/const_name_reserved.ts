// expect: Syntax
export const defaultSchema = 1;
export const default = 2;
