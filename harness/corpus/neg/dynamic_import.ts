// expect: Unsupported
const m = import('./m');
