// expect: Syntax
type T = Array<>;
