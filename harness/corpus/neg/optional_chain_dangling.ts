// expect: Syntax
hooks?.;
