// expect: Syntax
export async function 2fa(): Promise<void> {
  return invoke('2fa');
}
