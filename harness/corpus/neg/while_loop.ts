// expect: Unsupported
while (a) {
}
