// expect: Unsupported
function* g() {}
