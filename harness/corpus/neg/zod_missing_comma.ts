// expect: Syntax
export const S = z.object({
  a: z.string()
  b: z.string(),
});
