// expect: Unsupported
function a(x: unknown): asserts x is string {
}
