// expect: Syntax
const a = b ?? c || d;
