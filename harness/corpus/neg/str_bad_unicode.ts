// expect: Syntax
const s = "\u{110000}";
