// expect: Syntax
const a = 1 const b = 2;
