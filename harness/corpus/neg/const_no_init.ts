// expect: Syntax
export const a: number;
