// expect: Unsupported
interface F {
  (a: string): void;
}
