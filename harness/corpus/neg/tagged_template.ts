// expect: Unsupported
const a = tag`x`;
